"""C02 -- the cache neither loses nor duplicates datapoints; last write wins; size exact.

Functions under contract (carbon.cache:_MetricCache): store, pop, drain_metric, get_datapoints,
_check_available_space, is_full, is_nearly_full (inlined); carbon.cache:by_timestamp;
carbon.protocols:CacheManagementHandler.stringReceived (query branches).

Whole-view contracts (DESIGN.md 5/C02): store accepted  => data' = data[m][ts := v], size' = size+1,
every other key of every metric unchanged; pop => result = items of data[m] sorted strictly by
timestamp, data' = data \\ {m}, size' = size - |data[m]|; queries change nothing.  With the lock
invariant size == sum |data[m]| (proved at every lock release) the ledger
`accepted = held (+) drained` follows by induction on the history (each accepted (m, ts) enters
`held` by store's view equation and leaves it only through the one pop whose result contains it).
Thread interleavings are covered by rely/guarantee: pop / drain_metric are verified under
arbitrary interference G_R* of the storing thread between their atomic steps.
"""
from pyvc.runner import Unit, Property, Bounded
from . import cache_units as CU
from . import c02_query


def build():
  units = [Unit('cache.store[%s]' % k, CU.u_store(k), [CU.CACHE + '.store'],
                expect_covers=['store/returns'], replay=CU.replay_cache('store'))
           for k in ('none', 'plain')]
  units += [
    Unit('cache.pop', CU.u_pop, [CU.CACHE + '.pop', CU.CACHE + '._check_available_space', 'carbon.cache:by_timestamp'],
         expect_covers=['pop/returns'], replay=CU.replay_cache('pop')),
    Unit('cache.drain_metric[none]', CU.u_drain_metric('none'), [CU.CACHE + '.drain_metric'],
         expect_covers=['drain_metric/returns', 'drain_metric/none', 'drain_metric/some'],
         replay=CU.replay_cache('drain')),
    Unit('cache.drain_metric[strategy]', CU.u_drain_metric('plain'), [CU.CACHE + '.drain_metric'],
         expect_covers=['drain_metric/returns', 'drain_metric/none', 'drain_metric/some'],
         replay=CU.replay_cache('drain')),
    Unit('cache.get_datapoints', CU.u_get_datapoints, [CU.CACHE + '.get_datapoints'],
         expect_covers=['get_datapoints/returns']),
  ] + c02_query.units()
  return Property(
    'C02', units,
    bounded=[Bounded('C02/native/two_thread_schedules', 'replay/cache_sched_native.py', ['--depth', '2', '--only', 'sched-conservation,sched-size_exact'], ['--depth', '3', '--only', 'sched-conservation,sched-size_exact'],
                     'the real _MetricCache under deterministic two-thread schedules (sys.settrace): every history of <= 2 (quick) / 3 (thorough) store / drain_metric calls over 2 metrics x 2 timestamps, with the other thread (writer: 1, 2 or all drains; receiver: one of 4 stores) run at every line step of the traced call at which the cache lock is not held; MAX_CACHE_SIZE in {1,2,3,inf} plus pre-filled caches of 20 with flow control (where cacheFull can fire), all seven strategies',
                     'schedules at line granularity of cache.py give the concrete interleaving that the lock-invariant / rely-guarantee obligations only refute abstractly (byte-code level races inside one line stay out of reach)'),
             Bounded('C02/native/cache_contracts_cross_check', 'replay/cache_native.py',
                     ['--sweep', '3', 'accept_view,lastwrite,frame_others,same_metric_other_timestamps,size_exact,sorted_unique,items_exact,removed,size'],
                     ['--sweep', '4', 'accept_view,lastwrite,frame_others,same_metric_other_timestamps,size_exact,sorted_unique,items_exact,removed,size'],
                     'every sequential store/drain history of length <= 3 (quick) / 4 (thorough) over 2 metrics x 2 timestamps, MAX_CACHE_SIZE in {1,2,3,inf}, flow control on/off, all seven strategy settings, against a reference dict',
                     "cross-check of the contracts' clauses on the real code by exhaustive short histories (it also stands in when the symbolic engine cannot process a changed function); the clauses themselves are discharged obligations above")],
    trusted_base=['A-ENGINE', 'A-SMT', 'A-GIL', 'A-THREADS', 'A-LIB(dict/defaultdict/deque/sorted models)', 'A-PICKLE'],
    assumptions=[
      "A-GIL: one dict/attribute bytecode operation is atomic; threading.Lock is a mutex",
      "A-THREADS: store/queries run on the reactor thread, pop/drain_metric on the single writer thread (writer.py: reactor.callInThread(writeForever))",
      "rely G_R* used for the writer-side functions is what the store obligations prove of store (adds only, size grows, flag only raised at >= MAX)",
      "strategy.choose_item is used through its interface contract (None or a metric in the cache); each strategy is verified against it in C17",
      "instrumentation.recordMetrics reads cache.size / len(cache) without the lock and may observe the instant inside pop's lock region; the property's observation point is 'whenever the lock is free' (unverified caller, noted)",
      "the ledger accepted = held + drained is the induction over histories of the per-operation whole-view contracts (meta-step, not machine-checked)",
    ])
