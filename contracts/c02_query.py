"""C02 query side: carbon.protocols:CacheManagementHandler.stringReceived (cache-query and
cache-query-bulk branches) returns what the cache holds and changes nothing (no key inserted)."""
import z3

from pyvc.runner import Unit
from pyvc.interp import Interp, LoopSpec, DictLit
from pyvc.models import Namespace, External, SymSeq, TAtom, PyList
from pyvc.values import Atom, ModelClass, PyRaise, Builtin
from .cache_model import Harness, IM, DEFAULTDICT
from .common import pyobj

H = 'carbon.protocols:CacheManagementHandler'


def setup(ctx, index, request):
  hs = Harness(ctx, index)
  log = hs.log
  sent = []
  recv = ModelClass('Int32StringReceiver', methods={
    'sendString': lambda ip, selfobj, data: sent.append(data)})
  unp = Namespace('unpickler', {'loads': External('unpickler.loads', log, ret=lambda ip, a, k: request)})
  dumped = []

  def dumps(ip, a, k):
    dumped.append(a[0])
    return ('pickled', len(dumped))
  hs.ip.module_bindings['carbon.protocols'] = {
    'settings': Namespace('settings', {'LOG_CACHE_HITS': ctx.fresh(z3.BoolSort(), 'LOG_CACHE_HITS')}),
    'MetricCache': Builtin('MetricCache', lambda ip, a, k: hs.cache),
    'instrumentation': Namespace('instrumentation', {
      'increment': External('instrumentation.increment', log),
      'append': External('instrumentation.append', log)}),
    'pickle': Namespace('pickle', {'dumps': External('pickle.dumps', log, ret=dumps)}),
    'management': Namespace('management', {}),
    'Int32StringReceiver': recv,
  }
  handler = pyobj(index, H, {'unpickler': unp, 'peerAddr': 'peer'}, name='handler')
  hs.sent, hs.dumped = sent, dumped
  return hs, handler


def u_query(ctx, index):
  m = ctx.fresh(Atom, 'metric')
  hs, handler = setup(ctx, index, DictLit({'type': 'cache-query', 'metric': m}))
  d = hs.data
  old = d.snapshot()
  size0 = hs.cache.fields['size']
  hs.ip.run(H + '.stringReceived', [b'raw'], self_obj=handler)
  ctx.cover('query/returns')
  ctx.check('C02/query/cache-query/frame', z3.And(d.keys == old.keys, d.inner == old.inner, d.card == old.card,
                                                  hs.cache.fields['size'] == size0))
  ok = len(hs.dumped) == 1 and len(hs.sent) == 1 and isinstance(hs.dumped[0], DictLit) and \
      'datapoints' in hs.dumped[0].items
  ctx.check('C02/query/cache-query/one_response', z3.BoolVal(ok))
  if not ok:
    return
  dps = hs.dumped[0].items['datapoints']
  if ctx.branch(z3.Select(old.keys, m), 'present'):
    im = z3.Select(old.inner, m)
    good = isinstance(dps, SymSeq)
    ctx.check('C02/query/cache-query/result_is_list', z3.BoolVal(good))
    if good:
      fst, snd = dps.ty.acc
      i = z3.Int('i?')
      n = dps.length()
      ctx.check('C02/query/cache-query/length', n == IM.icard(im))
      ctx.check('C02/query/cache-query/members',
                z3.ForAll([i], z3.Implies(z3.And(0 <= i, i < n),
                                          z3.And(z3.Select(IM.ikeys(im), fst(dps.term[i])),
                                                 z3.Select(IM.ivals(im), fst(dps.term[i])) == snd(dps.term[i])))))
  else:
    ctx.check('C02/query/cache-query/absent_gives_empty', z3.BoolVal(isinstance(dps, PyList) and len(dps.items) == 0))


def u_query_bulk(ctx, index):
  metrics = SymSeq(TAtom, ctx.fresh(z3.SeqSort(Atom), 'metrics'), 'metrics')
  hs, handler = setup(ctx, index, DictLit({'type': 'cache-query-bulk', 'metrics': metrics}))
  d = hs.data
  old = d.snapshot()
  size0 = hs.cache.fields['size']

  def inv(fr):
    return [('cache_unchanged', z3.And(d.keys == old.keys, d.inner == old.inner, d.card == old.card,
                                       hs.cache.fields['size'] == size0))]

  def havoc(fr):
    fr.locals['datapointsByMetric'] = DictLit({})
    hs.ip.note_write(fr.locals['datapointsByMetric'])
  hs.ip.label_prefix = 'C02/'
  hs.ip.loops[(H + '.stringReceived', 0)] = LoopSpec('for metric in metrics', inv, havoc,
                                                       locals_modified=[])
  hs.ip.run(H + '.stringReceived', [b'raw'], self_obj=handler)
  ctx.cover('bulk/returns')
  ctx.check('C02/query/cache-query-bulk/frame', z3.And(d.keys == old.keys, d.inner == old.inner, d.card == old.card,
                                                       hs.cache.fields['size'] == size0))
  ctx.check('C02/query/cache-query-bulk/one_response', z3.BoolVal(len(hs.sent) == 1))


def units():
  return [Unit('protocols.CacheManagementHandler[cache-query]', u_query, [H + '.stringReceived'],
               expect_covers=['query/returns']),
          Unit('protocols.CacheManagementHandler[cache-query-bulk]', u_query_bulk, [H + '.stringReceived'],
               expect_covers=['bulk/returns'])]
