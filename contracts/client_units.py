"""Units over carbon.client shared by C07, C09 (relay side) and C15."""
import z3

from pyvc.core import EngineError
from pyvc.interp import LoopSpec, Spec, Interp, OBJECT
from pyvc.models import SymSeq, PyList, TAtom, Namespace, EffectLog
from pyvc.values import Atom, PyRaise, ExcVal, PyObj, Model, Builtin
from pyvc.runner import Unit
from . import client_model as CM
from .client_model import (ClientHarness, FACTORY, PROTO, C, TItem, Item, DP, Deferred, DelayedCall,
                           install_take_loop, take_post, take_spec)
from .common import pyobj, FloatVal

PICKLE_P = C + ':CarbonPickleClientProtocol'
LINE_P = C + ':CarbonLineClientProtocol'


def as_b(v):
  return v if z3.is_expr(v) else z3.BoolVal(bool(v))


def no_already_called(ctx, h, label):
  ctx.check(label + '/no_AlreadyCalledError', z3.BoolVal(len(h.log.of('AlreadyCalledError')) == 0))


# ---- queue primitives --------------------------------------------------------------------------

def u_take(ctx, index):
  h = ClientHarness(ctx, index, prefix='C07/')
  install_take_loop(h)
  old = h.queue.term
  r = h.ip.run(FACTORY + '.takeSomeFromQueue', [], self_obj=h.factory)
  ctx.cover('take/returns')
  ok = isinstance(r, SymSeq)
  ctx.check('C07/takeSomeFromQueue/returns_list', z3.BoolVal(ok))
  if ok:
    for l, f in take_post(old, h.per_msg, r.term, h.queue.term):
      ctx.check('C07/takeSomeFromQueue/' + l, f)
      ctx.check('C15/takeSomeFromQueue/' + l, f)
  # frame (what the call-site contract take_spec assumes): nothing but the queue is touched -- in
  # particular queueEmpty is not fired here, before the batch has been written
  ctx.check('C07/takeSomeFromQueue/touches_only_the_queue',
            z3.BoolVal(not h.log.events and not h.queueEmpty.fired_with and h.factory.fields['queueEmpty'] is h.queueEmpty))


def u_enqueue(ctx, index):
  h = ClientHarness(ctx, index)
  m, dp = ctx.fresh(Atom, 'metric'), ctx.fresh(DP, 'dp')
  old = h.queue.term
  which = ctx.choose(2, 'left')
  h.ip.run(FACTORY + ('.enqueue_from_left' if which else '.enqueue'), [m, dp], self_obj=h.factory)
  ctx.cover('enqueue/returns')
  item = z3.Unit(TItem.mk(m, dp))
  if which:
    ctx.check('C07/enqueue_from_left/prepends', h.queue.term == z3.Concat(item, old))
  else:
    ctx.check('C07/enqueue/appends', h.queue.term == z3.Concat(old, item))


def u_send_datapoint(ctx, index):
  h = ClientHarness(ctx, index)
  ctx.assume(relay_bp_inv(h))      # invariant: assumed before, proved after
  m, dp = ctx.fresh(Atom, 'metric'), ctx.fresh(DP, 'dp')
  old = h.queue.term
  n0 = z3.Length(old)
  qf0 = as_b(h.queueFull.called)
  raised = None
  try:
    h.ip.run(FACTORY + '.sendDatapoint', [m, dp], self_obj=h.factory)
  except PyRaise as e:
    raised = e.exc
  ctx.cover('sendDatapoint/returns')
  ctx.check('C07/sendDatapoint/no_raise', z3.BoolVal(raised is None))
  no_already_called(ctx, h, 'C07/sendDatapoint')
  if raised is not None:
    return
  q = h.queue.term
  item = z3.Unit(TItem.mk(m, dp))
  incs = [e[1][0] for e in h.log.of('instrumentation.increment')]
  drops = incs.count('fullQueueDrops')
  accepted = q == z3.Concat(old, item)
  dropped = q == old
  ctx.check('C07/sendDatapoint/appended_or_untouched', z3.Or(accepted, dropped))
  # "discarded only when the queue is at its hard limit": no room for one more
  ctx.check('C07/sendDatapoint/drop_only_at_limit', z3.Implies(z3.And(dropped, z3.Not(accepted)), z3.ToReal(n0) + 1 > h.hard))
  ctx.check('C07/sendDatapoint/drop_counted', z3.And(z3.Implies(z3.And(dropped, z3.Not(accepted)), z3.BoolVal(drops == 1)),
                                                      z3.Implies(accepted, z3.BoolVal(drops == 0))))
  # "never grows beyond that limit"
  ctx.check('C07/sendDatapoint/bound', z3.Implies(z3.ToReal(n0) <= h.hard, z3.ToReal(z3.Length(q)) <= h.hard))
  # ... also from a queue that self-metrics have pushed above the limit: an ordinary arrival is
  # accepted only when it still fits below the hard limit
  ctx.check('C07/sendDatapoint/accepted_only_with_room', z3.Implies(z3.And(accepted, z3.Not(dropped)), z3.ToReal(n0) + 1 <= h.hard))
  # C09: the full signal is raised exactly when an arrival finds the queue at MAX_QUEUE_SIZE
  full_events = h.log.of('events.cacheFull')
  ctx.check('aux/sendDatapoint/full_signal_at_high_watermark',
            z3.Implies(z3.And(n0 >= h.max_q, z3.Not(qf0)), z3.BoolVal(len(full_events) == 1)))
  ctx.check('C09/sendDatapoint/full_signal_only_at_high_watermark',
            z3.Implies(z3.BoolVal(len(full_events) > 0), z3.And(n0 >= h.max_q, z3.Not(qf0))))
  ctx.check('C09/sendDatapoint/I_bp_relay', relay_bp_inv(h))
  # a send is scheduled whenever there is a connection (so the queue cannot sit idle)
  if h.connected:
    pend = h.factory.fields['deferSendPending']
    ctx.check('C09/sendDatapoint/send_scheduled_when_connected',
              z3.BoolVal(isinstance(pend, DelayedCall)) if not isinstance(pend, DelayedCall) else as_b(pend.active))


def u_send_high_priority(ctx, index):
  h = ClientHarness(ctx, index)
  ctx.assume(relay_bp_inv(h))      # invariant: assumed before, proved after
  m, dp = ctx.fresh(Atom, 'metric'), ctx.fresh(DP, 'dp')
  old = h.queue.term
  h.ip.run(FACTORY + '.sendHighPriorityDatapoint', [m, dp], self_obj=h.factory)
  ctx.cover('sendHP/returns')
  ctx.check('C07/sendHighPriorityDatapoint/jumps_the_queue_without_disturbing_it',
            h.queue.term == z3.Concat(z3.Unit(TItem.mk(m, dp)), old))
  ctx.check('C09/sendHighPriorityDatapoint/I_bp_relay', relay_bp_inv(h))
  ctx.check('C07/sendHighPriorityDatapoint/never_dropped', z3.BoolVal('fullQueueDrops' not in [e[1][0] for e in h.log.of('instrumentation.increment')]))


def u_schedule_send(ctx, index):
  h = ClientHarness(ctx, index)
  pend0 = h.factory.fields['deferSendPending']
  act0 = as_b(pend0.active) if isinstance(pend0, DelayedCall) else z3.BoolVal(False)
  h.ip.run(FACTORY + '.scheduleSend', [], self_obj=h.factory)
  ctx.cover('scheduleSend/returns')
  n = len(h.log.of('reactor.callLater'))
  ctx.check('aux/scheduleSend/at_most_one_timer', z3.And(z3.Implies(act0, z3.BoolVal(n == 0)),
                                                         z3.Implies(z3.Not(act0), z3.BoolVal(n == 1))))
  pend = h.factory.fields['deferSendPending']
  ctx.check('C09/scheduleSend/a_send_is_pending_afterwards',
            as_b(pend.active) if isinstance(pend, DelayedCall) else z3.BoolVal(False))
  if n == 1:
    fn = h.log.of('reactor.callLater')[0][1][0]
    ok = getattr(fn, 'obj', None) is h.factory and getattr(getattr(fn, 'func', None), 'info', None) is not None and \
        fn.func.info.name == 'sendQueued'
    ctx.check('C07/scheduleSend/timer_runs_sendQueued', z3.BoolVal(bool(ok)))
    # the timer may fire after the connection it was armed under has gone: it must then leave the
    # queue alone (the datapoints wait for the next connection) -- fire it with no connection
    if ok:
      extra = list(h.log.of('reactor.callLater')[0][1][1:])
      if h.protocol is not None:
        h.protocol.cls = index.cls(PICKLE_P)
        h.protocol.fields['connected'] = False
      h.ip.specs[FACTORY + '.takeSomeFromQueue'] = take_spec(h)
      h.factory.fields['connectedProtocol'] = None
      old = h.queue.term
      raised = None
      try:
        h.ip.call(fn, extra)
      except PyRaise as e:
        raised = e.exc
      ctx.cover('scheduleSend/fired_after_loss')
      ctx.check('C07/scheduleSend/timer_after_connection_loss_leaves_the_queue',
                z3.And(z3.BoolVal(raised is None and not h.sent_strings), h.queue.term == old))


# ---- the protocol's sendQueued -------------------------------------------------------------------

def relay_bp_inv(h):
  """C09 relay side, invariant at the exit of every handler (single thread):
        queueFull.called  ==>  |queue| >= SEND_QUEUE_LOW_WATERMARK      and      not queueHasSpace.called
  i.e. whenever the full signal is outstanding the queue really is above the low watermark; as soon
  as a send takes it below, queueHasSpace fires, which re-arms both deferreds and signals space.
  (Stronger than "a wake-up is pending", and it needs no assumption about timers firing.)"""
  f = h.factory
  qf = f.fields['queueFull']
  qs = f.fields['queueHasSpace']
  return z3.And(z3.Implies(as_b(qf.called), z3.ToReal(h.queue.length()) >= h.low), z3.Not(as_b(qs.called)))


def u_proto_send_queued(ctx, index):
  h = ClientHarness(ctx, index, connected=True, prefix='C07/')
  ctx.assume(relay_bp_inv(h))      # invariant: assumed before, proved after
  h.protocol.cls = index.cls(PICKLE_P)
  h.ip.specs[FACTORY + '.takeSomeFromQueue'] = take_spec(h)
  # an orderly stop may be pending (disconnect() chained stopConnecting onto queueEmpty): whatever
  # this send does, the connection may only be closed after the batch it took has been written
  stop_pending = ctx.choose(2, 'orderly stop pending') == 1
  if stop_pending:
    h.queueEmpty.callbacks.append((Builtin('stop', lambda ip2, a, k: ip2.call(h.bm('stopConnecting'), [])), None))
  old = h.queue.term
  n0 = z3.Length(old)
  paused = as_b(h.paused)
  raised = None
  try:
    h.ip.run(PROTO + '.sendQueued', [], self_obj=h.protocol)
  except PyRaise as e:
    raised = e.exc
  ctx.cover('sendQueued/returns')
  if h.log.of('transport.loseConnection'):
    ctx.cover('sendQueued/quality_reset')
  ctx.check('C07/sendQueued/no_raise', z3.BoolVal(raised is None))
  no_already_called(ctx, h, 'C07/sendQueued')
  if raised is not None:
    return
  sent = h.sent_strings
  if stop_pending:
    names = [e[0] for e in h.log.events]
    if 'transport.loseConnection' in names and h.log.of('Reconnecting.clientConnectionLost') == [] :
      ctx.cover('sendQueued/stop_closes')
      first_close = names.index('transport.loseConnection')
      writes = [i for i, n in enumerate(names) if n == 'transport.write']
      quality_reset = any(n == 'instrumentation.increment' and e[1] and e[1][0] == 'slowConnectionReset' and len(e[1]) == 1
                          for n, e in zip(names, h.log.events))
      if not quality_reset:
        ctx.check('C07/sendQueued/stop_closes_only_after_the_batch_is_written',
                  z3.And(h.queue.length() == 0, z3.BoolVal(bool(sent) and all(w < first_close for w in writes))))
  if not sent:
    ctx.cover('sendQueued/idle')
    ctx.check('C07/sendQueued/nothing_written_only_if_paused_or_empty', z3.Or(paused, n0 == 0))
    ctx.check('C07/sendQueued/queue_untouched_when_idle', h.queue.term == old)
  else:
    ctx.cover('sendQueued/sent')
    ctx.check('C07/sendQueued/one_message', z3.BoolVal(len(sent) == 1))
    ctx.check('aux/sendQueued/not_while_paused', z3.Not(paused))
    s = sent[0]
    ok = isinstance(s, tuple) and s[0] == 'pickle.dumps' and isinstance(s[1], SymSeq)
    ctx.check('C15/pickle/_sendDatapointsNow/one_frame', z3.BoolVal(ok))
    if ok:
      for l, f in take_post(old, h.per_msg, s[1].term, h.queue.term):
        ctx.check('C07/sendQueued/written_is_the_queue_' + l, f)
        ctx.check('C15/sendQueued/batch_is_the_queue_' + l, f)
      ctx.check('C15/pickle/_sendDatapointsNow/payload', z3.BoolVal(s[2] == 2))
    incs = [e[1] for e in h.log.of('instrumentation.increment')]
    ctx.check('aux/sendQueued/sent_counted', z3.BoolVal(any(a[0] == 'sent' for a in incs) and any(a[0] == 'batchesSent' for a in incs)))
  # C09 (relay side)
  ctx.check('C09/sendQueued/I_bp_relay', relay_bp_inv(h))
  # something still queued after a send => another send is pending
  if sent:
    pend = h.factory.fields['deferSendPending']
    timer = as_b(pend.active) if isinstance(pend, DelayedCall) else z3.BoolVal(False)
    ctx.check('C07/sendQueued/rest_is_rescheduled', z3.Implies(h.queue.length() > 0, timer))


def u_queue_space_callback(ctx, index):
  h = ClientHarness(ctx, index)
  qf0 = as_b(h.queueFull.called)
  h.ip.run(FACTORY + '.queueSpaceCallback', [ctx.fresh(z3.IntSort(), 'result')], self_obj=h.factory)
  ctx.cover('queueSpaceCallback/returns')
  f = h.factory.fields
  n_space = len(h.log.of('events.cacheSpaceAvailable'))
  ctx.check('C09/queueSpaceCallback/signals_space_iff_full_was_signalled',
            z3.And(z3.Implies(qf0, z3.BoolVal(n_space == 1)), z3.Implies(z3.Not(qf0), z3.BoolVal(n_space == 0))))
  ctx.check('C09/queueSpaceCallback/rearm',
            z3.And(z3.Not(as_b(f['queueFull'].called)), z3.Not(as_b(f['queueHasSpace'].called)),
                   z3.BoolVal(len(f['queueHasSpace'].callbacks) == 1 and len(f['queueFull'].callbacks) == 1)))


def u_queue_full_callback(ctx, index):
  h = ClientHarness(ctx, index)
  old = h.queue.term
  h.ip.run(FACTORY + '.queueFullCallback', [ctx.fresh(z3.IntSort(), 'result')], self_obj=h.factory)
  ctx.cover('queueFullCallback/returns')
  ctx.check('aux/queueFullCallback/signals_full_once', z3.BoolVal(len(h.log.of('events.cacheFull')) == 1))
  ctx.check('C07/queueFullCallback/queue_untouched', h.queue.term == old)


def u_check_queue(ctx, index):
  h = ClientHarness(ctx, index)
  qe = h.queueEmpty
  n0 = h.queue.length()
  h.ip.run(FACTORY + '.checkQueue', [], self_obj=h.factory)
  ctx.cover('checkQueue/returns')
  no_already_called(ctx, h, 'C07/checkQueue')
  fired = len(qe.fired_with) == 1
  ctx.check('C07/checkQueue/queueEmpty_fires_iff_empty', z3.And(z3.Implies(n0 == 0, z3.BoolVal(fired)),
                                                               z3.Implies(n0 > 0, z3.BoolVal(not fired))))
  ctx.check('aux/checkQueue/fresh_deferred_after_firing',
            z3.BoolVal((h.factory.fields['queueEmpty'] is not qe) == fired and not as_py(h.factory.fields['queueEmpty'].called)))


def as_py(v):
  if z3.is_expr(v):
    v = z3.simplify(v)
    return z3.is_true(v)
  return bool(v)


def u_resume_pause(ctx, index):
  h = ClientHarness(ctx, index, connected=True)
  ctx.assume(relay_bp_inv(h))      # invariant: assumed before, proved after
  h.protocol.cls = index.cls(PICKLE_P)
  h.ip.specs[FACTORY + '.takeSomeFromQueue'] = take_spec(h)
  which = ctx.choose(2, 'resume')
  if which:
    h.ip.run(PROTO + '.resumeProducing', [], self_obj=h.protocol)
    ctx.cover('resumeProducing/returns')
    ctx.check('C09/resumeProducing/unpauses', z3.Not(as_b(h.protocol.fields['paused'])))
    ctx.check('C09/resumeProducing/I_bp_relay', relay_bp_inv(h))
  else:
    old = h.queue.term
    h.ip.run(PROTO + '.pauseProducing', [], self_obj=h.protocol)
    ctx.cover('pauseProducing/returns')
    ctx.check('C07/pauseProducing/only_sets_the_flag', z3.And(as_b(h.protocol.fields['paused']), h.queue.term == old,
                                                               z3.BoolVal(not h.sent_strings)))


def u_orderly_stop(ctx, index):
  """C07 "an orderly stop closes a connected destination only after its queue has been
  transmitted": factory.disconnect() from an arbitrary state.  The connection is closed inside this
  call iff the queue is already empty; otherwise the close is left to the queueEmpty deferred, which
  checkQueue fires only on an empty queue (C07/checkQueue/queueEmpty_fires_iff_empty)."""
  h = ClientHarness(ctx, index)
  h.factory.fields['started'] = ctx.choose(2, 'started') == 1
  if h.protocol is not None:
    h.protocol.fields['connected'] = ctx.choose(2, 'protocol.connected') == 1
  qe = h.queueEmpty
  old = h.queue.term
  n0 = h.queue.length()
  ncb = len(qe.callbacks)
  try:
    r = h.ip.run(FACTORY + '.disconnect', [], self_obj=h.factory)
  except PyRaise as e:
    ctx.check('C07/disconnect/no_raise', z3.BoolVal(False))
    return
  ctx.cover('disconnect/returns')
  ctx.check('C07/disconnect/no_raise', z3.BoolVal(True))
  closes = h.log.of('transport.loseConnection')
  ctx.check('C07/disconnect/queue_untouched', h.queue.term == old)
  ctx.check('C07/disconnect/closes_only_with_empty_queue', z3.Implies(z3.BoolVal(len(closes) > 0), n0 == 0))
  ctx.check('aux/disconnect/at_most_one_close', z3.BoolVal(len(closes) <= 1))
  ctx.check('aux/disconnect/stop_waits_for_the_queue', z3.BoolVal(len(qe.callbacks) == ncb + 1))
  ctx.check('aux/disconnect/returns_a_deferred', z3.BoolVal(isinstance(r, Deferred)))
  no_already_called(ctx, h, 'C07/disconnect')
  # empty queue and a live connection: closed now, and the factory stops reconnecting
  if len(closes) > 0:
    ctx.cover('disconnect/closed_now')
    ctx.check('aux/disconnect/stops_reconnecting', z3.BoolVal(len(h.log.of('stopTrying')) == 1 and h.factory.fields['started'] is False))
    ctx.check('aux/disconnect/close_marks_disconnected', z3.BoolVal(h.protocol.fields['connected'] is False))
  # the later firing: a non-empty queue at stop time leaves the close to checkQueue
  if len(closes) == 0 and h.protocol is not None:
    h2n = h.queue.length()
    try:
      h.ip.run(FACTORY + '.checkQueue', [], self_obj=h.factory)
    except PyRaise as e:
      ctx.check('C07/disconnect/later_checkQueue_does_not_raise', z3.BoolVal(False))
      return
    ctx.check('C07/disconnect/later_checkQueue_does_not_raise', z3.BoolVal(True))
    closes2 = h.log.of('transport.loseConnection')
    ctx.cover('disconnect/then_checkQueue')
    ctx.check('C07/disconnect/later_close_only_with_empty_queue', z3.Implies(z3.BoolVal(len(closes2) > 0), h2n == 0))
    if len(closes2) == 0:
      # ... and a connection that is made after the stop was requested must not be closed while
      # datapoints are still queued either
      h.protocol.fields['connected'] = True
      h.factory.fields['connectedProtocol'] = h.protocol
      n3 = h.queue.length()
      cm = h.factory.fields['connectionMade']
      try:
        if isinstance(cm, Deferred) and not as_py(cm.called):
          cm.py_callback(h.ip, h.protocol)
      except PyRaise:
        pass
      closes3 = h.log.of('transport.loseConnection')
      ctx.check('C07/disconnect/connection_made_after_the_stop_is_not_closed_with_a_queue',
                z3.Implies(z3.BoolVal(len(closes3) > 0), n3 == 0))


def u_quality_monitor(ctx, index):
  """connectionQualityMonitor is a pure query: it touches neither the queue nor the connection and
  returns a boolean (call sites use the contract: an arbitrary boolean).  Precondition
  MIN_RESET_STAT_FLOW > 0 (with 0 the ratio of two zero counters would be computed)."""
  h = ClientHarness(ctx, index, connected=True)
  h.no_monitor_spec()
  ctx.assume(h.settings.attrs['MIN_RESET_STAT_FLOW'] > 0)
  sent = ctx.fresh(z3.RealSort(), 'prior_sent')
  recv = ctx.fresh(z3.RealSort(), 'prior_received')
  ctx.assume(z3.And(sent >= 0, recv >= 0))
  h.instr.attrs['prior_stats'] = Namespace('prior_stats', {'get': Builtin('get', lambda ip, a, k: sent if a[0] == 'sent' else recv)})
  old = h.queue.term
  n_log = len(h.log.events)
  raised = None
  try:
    r = h.ip.run(PROTO + '.connectionQualityMonitor', [], self_obj=h.protocol)
  except PyRaise as e:
    raised = e.exc
  ctx.cover('monitor/returns')
  ctx.check('C07/connectionQualityMonitor/no_raise', z3.BoolVal(raised is None))
  if raised is not None:
    return
  ctx.check('C07/connectionQualityMonitor/returns_bool', z3.BoolVal(isinstance(r, bool) or (z3.is_expr(r) and z3.is_bool(r))))
  ctx.check('C07/connectionQualityMonitor/queue_untouched', h.queue.term == old)
  effects = [e[0] for e in h.log.events[n_log:] if e[0] not in ('instrumentation.increment',)]
  ctx.check('C07/connectionQualityMonitor/pure', z3.BoolVal(not effects and h.protocol.fields['connected'] is True))


# ---- destinationDown: re-injection --------------------------------------------------------------

def u_destination_down(ctx, index):
  h = ClientHarness(ctx, index, prefix='C07/')
  ctx.assume(relay_bp_inv(h))      # invariant: assumed before, proved after
  old = h.queue.term
  Q = FACTORY + '.destinationDown'
  state = {}

  def inv(fr):
    return [('queue_untouched_while_reinjecting', h.queue.term == old)]

  def havoc(fr):
    state['pos'] = len(h.log.events)

  def step(fr):
    k = fr.loop_k[0] - 1
    ev = [e for e in h.log.events[state['pos']:] if e[0] == 'events.metricGenerated']
    ok = len(ev) == 1
    ctx.cover('destinationDown/reinject_one')
    ctx.check('C07/destinationDown/reinjects_each_item_once', z3.BoolVal(ok))
    if ok:
      m, dp = ev[0][1]
      ctx.check('C07/destinationDown/reinjects_in_order', TItem.mk(m, dp) == fr.ghost['seq0'].term[k])
  h.ip.loops[(Q, 0)] = LoopSpec('for (metric, datapoint) in metrics', inv, havoc, ghost_step=step,
                                locals_modified=[])
  has0 = h.router_has
  retries = h.factory.fields['retries']
  qf0 = as_b(h.queueFull.called)
  raised = None
  try:
    h.ip.run(Q, [h.destination], self_obj=h.factory)
  except PyRaise as e:
    raised = e.exc
  ctx.cover('destinationDown/returns')
  ctx.check('C07/destinationDown/no_raise', z3.BoolVal(raised is None))
  if raised is not None:
    return
  removed = len(h.log.of('router.removeDestination')) == 1
  declared_down = z3.And(retries >= h.max_retries, h.dyn_router, has0)
  ctx.check('aux/destinationDown/removes_iff_dynamic_and_exhausted',
            z3.And(z3.Implies(declared_down, z3.BoolVal(removed)), z3.Implies(z3.Not(declared_down), z3.BoolVal(not removed))))
  if removed:
    ctx.cover('destinationDown/removed')
    ctx.check('C07/destinationDown/queue_emptied_after_reinjection', h.queue.length() == 0)
    # C09: a destination that is dropped with the full signal outstanding must let go
    ctx.check('C09/destinationDown/I_bp_relay', relay_bp_inv(h))
  else:
    ctx.check('C07/destinationDown/queue_kept_otherwise', h.queue.term == old)


# ---- destinationUp: a destination (re)joins the router -------------------------------------------

def u_destination_up(ctx, index):
  """C09: receivers can be paused on behalf of a destination that is not in the router for two
  reasons -- it was the last one (destinationDown pauses) or it was dropped with its full signal
  outstanding (known finding D8: the queue is cleared without a space signal).  The moment such a
  destination is back in the router with its queue below the low watermark nothing else will ever
  signal space for it (no send is scheduled for an empty queue, sendDatapoint does not re-fire a
  called queueFull), so this handler has to let the receivers go."""
  h = ClientHarness(ctx, index, prefix='C07/')
  has0 = h.router_has
  count0 = h.router_count
  ctx.assume(z3.Implies(has0, count0 >= 1))
  # destinations in the router satisfy the relay-side invariant; a dropped one need only satisfy
  # what destinationDown establishes (its queue was emptied)
  ctx.assume(z3.Implies(has0, relay_bp_inv(h)))
  ctx.assume(z3.Implies(z3.Not(has0), h.queue.length() == 0))
  old = h.queue.term
  qf0 = as_b(h.queueFull.called)
  raised = None
  n_log = len(h.log.events)
  try:
    h.ip.run(FACTORY + '.destinationUp', [h.destination], self_obj=h.factory)
  except PyRaise as e:
    raised = e.exc
  ctx.cover('destinationUp/returns')
  ctx.check('C09/destinationUp/no_raise', z3.BoolVal(raised is None))
  if raised is not None:
    return
  ev = [e[0] for e in h.log.events[n_log:]]
  resumed = 'events.resumeReceivingMetrics' in ev
  paused = 'events.pauseReceivingMetrics' in ev
  added = ev.count('router.addDestination')
  if added:
    ctx.cover('destinationUp/added')
  ctx.check('C09/destinationUp/queue_untouched', h.queue.term == old)
  ctx.check('C09/destinationUp/never_pauses', z3.BoolVal(not paused))
  ctx.check('C09/destinationUp/back_in_the_router', z3.BoolVal(added <= 1 and 'router.removeDestination' not in ev) if added
            else has0)
  # the pause taken because no destination was left is released by the first one back
  ctx.check('C09/destinationUp/first_destination_back_resumes_receivers',
            z3.Implies(z3.And(z3.Not(has0), count0 == 0), z3.BoolVal(resumed)))
  # the pause of a destination dropped while full (D8) is released when it rejoins, whatever else is in the router
  ctx.check('C09/destinationUp/rejoining_destination_releases_its_full_signal',
            z3.Implies(z3.And(z3.Not(has0), qf0, z3.ToReal(h.queue.length()) < h.low), z3.BoolVal(resumed)))


# ---- CarbonClientManager: routing of one datapoint to the send queues ---------------------------

def u_manager_send(ctx, index):
  """sendDatapoint / sendHighPriorityDatapoint / getFactories / getDestinations (DESTINATION_POOL_REPLICAS
  off): the datapoint is handed once to the factory of each destination the router names *now*
  (asked on this very call), to the no-destination buffer when the router names none, and to nobody
  else; nothing is remembered between calls."""
  from pyvc.models import PyList
  MGR = FACTORY.split(':')[0] + ':CarbonClientManager'
  d1, d2, d3 = ('10.0.0.1', 2004, 'a'), ('10.0.0.2', 2004, 'b'), ('10.0.0.3', 2004, 'c')
  log = EffectLog()

  class Fac(Model):
    def __init__(self, name):
      self.name = name

    def py_sendDatapoint(self, ip2, m, dp):
      log.add('send', (self.name, m, dp))

    def py_sendHighPriorityDatapoint(self, ip2, m, dp):
      log.add('sendHP', (self.name, m, dp))
  fake, f1, f2 = Fac('no-destination buffer'), Fac('d1'), Fac('d2')
  # precondition (manager invariant): the router only names destinations that have a factory --
  # startClient / destinationUp add to the router after the factory exists, stopClient removes from
  # the router before the factory goes
  table = {None: fake, d1: f1, d2: f2, d3: Fac('d3')}

  class Factories(Model):
    def py_get(self, ip2, k, default=None):
      return table.get(k, default)

    def py___getitem__(self, ip2, k):
      if k not in table:
        raise PyRaise(ExcVal('KeyError', (k,)))
      return table[k]
  answers = [[], [d1], [d2], [d1, d2], [d2, d1], [d3, d1, d2]]
  which = [ctx.choose(len(answers), 'router answer (call %d)' % k) for k in (1, 2)]
  asked = []

  class Router(Model):
    def py_getDestinations(self, ip2, key):
      asked.append(key)
      return PyList(list(answers[which[len(asked) - 1]]))
  settings = Namespace('settings', {'DESTINATION_POOL_REPLICAS': False}, item_access=True)
  ip = Interp(ctx, index, bindings={FACTORY.split(':')[0]: {'settings': settings, 'log': Namespace('log', {}), 'state': Namespace('state', {}),
                                                            'Service': OBJECT}})
  mgr = pyobj(index, MGR, {'router': Router(), 'client_factories': Factories(), 'pooled_factories': None}, name='manager')
  hp = ctx.choose(2, 'high priority') == 1
  m, dp = ctx.fresh(Atom, 'metric'), ctx.fresh(DP, 'dp')
  raised = None
  try:
    for k in (0, 1):
      # two calls in a row with independent router answers: the second must follow the second answer
      ip.run(MGR + ('.sendHighPriorityDatapoint' if hp else '.sendDatapoint'), [m, dp], self_obj=mgr)
      if k == 0:
        first = list(log.events)
        del log.events[:]
  except PyRaise as e:
    raised = e.exc
  ctx.cover('manager/returns')
  ctx.check('C07/manager.sendDatapoint/no_raise', z3.BoolVal(raised is None))
  if raised is not None:
    return
  ctx.check('C07/manager.sendDatapoint/asks_the_router_on_every_call', z3.BoolVal(len(asked) == 2))
  for (k, evs) in ((0, first), (1, list(log.events))):
    want = []
    for d in (answers[which[k]] or [None]):
      nm = table.get(d, None)
      nm = (fake if nm is None else nm).name
      if nm not in want:
        want.append(nm)
    got = [e[1][0] for e in evs]
    kinds = set(e[0] for e in evs)
    ctx.check('C07/manager.sendDatapoint/once_to_each_named_destination_or_the_buffer',
              z3.BoolVal(sorted(got) == sorted(want) and kinds <= {'sendHP' if hp else 'send'}))
    ctx.check('C07/manager.sendDatapoint/datapoint_unchanged',
              z3.And(*[z3.And(TAtom.enc(ip, e[1][1]) == m, e[1][2] == dp) for e in evs]) if evs else z3.BoolVal(True))


# ---- wire encodings (C15) ------------------------------------------------------------------------

DP_TS_INT = z3.Function('dp_timestamp_trunc', DP, z3.IntSort())
DP_VAL_IS_FLOAT = z3.Function('dp_value_is_float', DP, z3.BoolSort())
DP_VAL_FLOAT_TEXT = z3.Function('dp_value_float_text', DP, Atom)     # ("%.10f" % v).rstrip('0').rstrip('.')
DP_VAL_INT_TEXT = z3.Function('dp_value_int_text', DP, Atom)         # "%d" % v


class DPView(Model):
  """datapoint = (timestamp, value) of the uninterpreted sort DP"""
  def __init__(self, dp):
    self.dp = dp

  def py___getitem__(self, ip, i):
    if i == 0:
      return ('dp.ts', self.dp)
    if i == 1:
      return DPValue(self.dp)
    raise PyRaise(ExcVal('IndexError', ()))


class DPValue(Model):
  def __init__(self, dp):
    self.dp = dp

  def is_float(self, ip):
    return DP_VAL_IS_FLOAT(self.dp)


def u_line_send_now(ctx, index):
  h = ClientHarness(ctx, index, connected=True, prefix='C15/')
  h.protocol.cls = index.cls(LINE_P)
  batch = SymSeq(TItem, ctx.fresh(z3.SeqSort(Item), 'batch'), 'batch')
  ip = h.ip
  ip.ext[('getitem', 'Datapoint')] = lambda ip2, o, i: DPView(o).py___getitem__(ip2, i)

  def fmt(ip2, f, args):
    if f == '%.10f':
      return ('%.10f', args[0])
    if f == '%d' and isinstance(args[0], DPValue):
      return ('inttext', args[0].dp)
    return ('fmt', f, tuple(args))
  ip.ext['str_format'] = fmt

  def rstrip(ip2, o, chars):
    return ('rstrip', o, chars)
  ip.ext[('method', 'rstrip')] = rstrip
  ip.ext[('method', 'encode')] = lambda ip2, o, enc: ('encode', o, enc)
  Q = LINE_P + '._sendDatapointsNow'

  def inv(fr):
    return [('true', z3.BoolVal(True))]

  def havoc(fr):
    h.sent_lines[:] = []

  def step(fr):
    k = fr.loop_k[0] - 1
    item = batch.term[k]
    ctx.cover('line/one_datapoint')
    ok = len(h.sent_lines) == 1
    ctx.check('C15/line/_sendDatapointsNow/one_line_each', z3.BoolVal(ok))
    if not ok:
      return
    ln = h.sent_lines[0]
    # expected: ("%s %s %d" % (metric, V, timestamp)).encode('utf-8')
    shape = isinstance(ln, tuple) and ln[0] == 'encode' and ln[2] == 'utf-8' and isinstance(ln[1], tuple) and \
        ln[1][0] == 'fmt' and ln[1][1] == '%s %s %d' and len(ln[1][2]) == 3
    ctx.check('C15/line/_sendDatapointsNow/shape', z3.BoolVal(bool(shape)))
    if not shape:
      return
    m, v, t = ln[1][2]
    ctx.check('C15/line/_sendDatapointsNow/name_first', m == CM.I_METRIC(item) if z3.is_expr(m) else z3.BoolVal(False))
    ctx.check('C15/line/_sendDatapointsNow/timestamp_last_as_integer',
              z3.BoolVal(isinstance(t, tuple) and t[0] == 'dp.ts' and z3.is_expr(t[1]) and z3.eq(z3.simplify(t[1]), z3.simplify(CM.I_DP(item)))))
    is_float = DP_VAL_IS_FLOAT(CM.I_DP(item))
    float_text = ('rstrip', ('rstrip', ('%.10f', None), '0'), '.')

    def is_float_text(x):
      return isinstance(x, tuple) and x[0] == 'rstrip' and x[2] == '.' and isinstance(x[1], tuple) and x[1][0] == 'rstrip' and \
          x[1][2] == '0' and isinstance(x[1][1], tuple) and x[1][1][0] == '%.10f' and isinstance(x[1][1][1], DPValue)

    def is_int_text(x):
      return isinstance(x, tuple) and x[0] == 'inttext'
    ctx.check('C15/line/_sendDatapointsNow/value_text',
              z3.And(z3.Implies(is_float, z3.BoolVal(is_float_text(v))), z3.Implies(z3.Not(is_float), z3.BoolVal(is_int_text(v)))))
  ip.loops[(Q, 0)] = LoopSpec('for (metric, datapoint) in datapoints', inv, havoc, ghost_step=step,
                              locals_modified=[])
  raised = None
  try:
    ip.run(Q, [batch], self_obj=h.protocol)
  except PyRaise as e:
    raised = e.exc
  ctx.cover('line/returns')
  ctx.check('C15/line/_sendDatapointsNow/no_raise', z3.BoolVal(raised is None))


def u_pickle_send_now(ctx, index):
  h = ClientHarness(ctx, index, connected=True, prefix='C15/')
  h.protocol.cls = index.cls(PICKLE_P)
  batch = SymSeq(TItem, ctx.fresh(z3.SeqSort(Item), 'batch'), 'batch')
  h.ip.run(PICKLE_P + '._sendDatapointsNow', [batch], self_obj=h.protocol)
  ctx.cover('pickle/returns')
  s = h.sent_strings
  ok = len(s) == 1 and isinstance(s[0], tuple) and s[0][0] == 'pickle.dumps'
  ctx.check('C15/pickle/_sendDatapointsNow/one_frame', z3.BoolVal(ok))
  if ok:
    ctx.check('C15/pickle/_sendDatapointsNow/payload',
              z3.BoolVal(s[0][1] is batch and s[0][2] == 2))


def constants_derivation(index):
  """client.py computes the watermarks at import exactly as the harness assumes"""
  import ast
  mi = index.module('carbon.client')
  src = [ast.unparse(n) for n in mi.tree.body]
  want_low = "SEND_QUEUE_LOW_WATERMARK = settings.MAX_QUEUE_SIZE * settings.QUEUE_LOW_WATERMARK_PCT"
  ok = want_low in src
  shape = False
  for n in mi.tree.body:
    if isinstance(n, ast.If) and ast.unparse(n.test) == 'settings.USE_FLOW_CONTROL':
      shape = [ast.unparse(x) for x in n.body] == ["SEND_QUEUE_HARD_MAX = settings.MAX_QUEUE_SIZE * settings.MAX_QUEUE_SIZE_HARD_PCT"] and \
          [ast.unparse(x) for x in n.orelse] == ["SEND_QUEUE_HARD_MAX = settings.MAX_QUEUE_SIZE"]
  return ok and shape, "low=%s hard-shape=%s" % (ok, shape)


def replay_client(model, ob):
  import json
  from pyvc.runner import run_native
  rc, out, err = run_native('replay/relay_native.py', [json.dumps({'clause': ob.label})], timeout=900)
  for line in out.splitlines():
    if line.startswith('REPLAY-RESULT '):
      return json.loads(line[len('REPLAY-RESULT '):])
  return {'replay_error': (err or out)[-600:]}


def all_units(pid=None):
  us = _all_units()
  if pid == 'C07':
    return [u for u in us if not u.name.endswith('_sendDatapointsNow') and u.name not in ('client.queueSpaceCallback', 'client.destinationUp')]
  if pid == 'C15':
    return [u for u in us if u.name in ('client.takeSomeFromQueue', 'client.protocol.sendQueued',
                                        'client.line._sendDatapointsNow', 'client.pickle._sendDatapointsNow')]
  if pid == 'C09':
    return [u for u in us if u.name in ('client.sendDatapoint', 'client.scheduleSend', 'client.protocol.sendQueued',
                                        'client.queueSpaceCallback', 'client.resume_pause',
                                        'client.destinationDown', 'client.destinationUp')]
  return us


def _all_units():
  F = FACTORY
  return [
    Unit('client.takeSomeFromQueue', u_take, [F + '.takeSomeFromQueue'], expect_covers=['take/returns'], replay=replay_client,
         native_clauses=['C07/takeSomeFromQueue/prefix']),
    Unit('client.enqueue', u_enqueue, [F + '.enqueue', F + '.enqueue_from_left'], expect_covers=['enqueue/returns'], replay=replay_client,
         native_clauses=['C07/enqueue/appends', 'C07/enqueue_from_left/prepends']),
    Unit('client.sendDatapoint', u_send_datapoint, [F + '.sendDatapoint', F + '.scheduleSend', F + '.queueFullCallback'],
         expect_covers=['sendDatapoint/returns'], replay=replay_client,
         native_clauses=['C07/sendDatapoint/bound', 'C07/sendDatapoint/drop_only_at_limit', 'C07/sendDatapoint/drop_counted',
                         'C07/sendDatapoint/appended_or_untouched', 'C07/sendDatapoint/no_raise', 'C09/sendDatapoint/I_bp_relay']),
    Unit('client.sendHighPriorityDatapoint', u_send_high_priority, [F + '.sendHighPriorityDatapoint'], expect_covers=['sendHP/returns'], replay=replay_client,
         native_clauses=['C07/sendHighPriorityDatapoint/jumps_the_queue_without_disturbing_it']),
    Unit('client.scheduleSend', u_schedule_send, [F + '.scheduleSend'], expect_covers=['scheduleSend/returns', 'scheduleSend/fired_after_loss'], replay=replay_client,
         native_clauses=['C07/scheduleSend/timer_runs_sendQueued', 'C09/scheduleSend/a_send_is_pending_afterwards']),
    Unit('client.protocol.sendQueued', u_proto_send_queued,
         [PROTO + '.sendQueued', PROTO + '.sendDatapointsNow', PROTO + '.resetConnectionForQualityReasons', PROTO + '.disconnect',
          F + '.checkQueue', F + '.queueSpaceCallback', PICKLE_P + '._sendDatapointsNow'],
         expect_covers=['sendQueued/returns', 'sendQueued/idle', 'sendQueued/sent', 'sendQueued/quality_reset'], replay=replay_client,
         native_clauses=['C07/sendQueued/written_is_the_queue_prefix', 'C07/sendQueued/rest_is_rescheduled', 'C07/sendQueued/no_raise',
                         'C09/sendQueued/I_bp_relay']),
    Unit('client.queueSpaceCallback', u_queue_space_callback, [F + '.queueSpaceCallback'], expect_covers=['queueSpaceCallback/returns'], replay=replay_client,
         native_clauses=['C09/queueSpaceCallback/rearm']),
    Unit('client.queueFullCallback', u_queue_full_callback, [F + '.queueFullCallback'], expect_covers=['queueFullCallback/returns']),
    Unit('client.checkQueue', u_check_queue, [F + '.checkQueue'], expect_covers=['checkQueue/returns'], replay=replay_client,
         native_clauses=['C07/checkQueue/queueEmpty_fires_iff_empty', 'C07/checkQueue/no_AlreadyCalledError']),
    Unit('client.orderly_stop', u_orderly_stop, [F + '.disconnect', F + '.stopConnecting', PROTO + '.disconnect', F + '.checkQueue'],
         expect_covers=['disconnect/returns', 'disconnect/closed_now', 'disconnect/then_checkQueue'], replay=replay_client,
         native_clauses=['C07/disconnect/closes_only_with_empty_queue']),
    Unit('client.connectionQualityMonitor', u_quality_monitor, [PROTO + '.connectionQualityMonitor'], expect_covers=['monitor/returns']),
    Unit('client.resume_pause', u_resume_pause, [PROTO + '.resumeProducing', PROTO + '.pauseProducing'],
         expect_covers=['resumeProducing/returns', 'pauseProducing/returns'], replay=replay_client,
         native_clauses=['C09/resumeProducing/I_bp_relay']),
    Unit('client.destinationDown', u_destination_down, [F + '.destinationDown'],
         expect_covers=['destinationDown/returns', 'destinationDown/removed', 'destinationDown/reinject_one'], replay=replay_client,
         native_clauses=['C07/destinationDown/queue_kept_otherwise', 'C07/destinationDown/reinjects_in_order', 'C07/destinationDown/no_raise']),
    Unit('client.destinationUp', u_destination_up, [F + '.destinationUp'],
         expect_covers=['destinationUp/returns', 'destinationUp/added'], replay=replay_client,
         native_clauses=['C09/destinationUp/first_destination_back_resumes_receivers', 'C09/destinationUp/rejoining_destination_releases_its_full_signal']),
    Unit('client.manager.sendDatapoint', u_manager_send,
         [F.split(':')[0] + ':CarbonClientManager.sendDatapoint', F.split(':')[0] + ':CarbonClientManager.sendHighPriorityDatapoint',
          F.split(':')[0] + ':CarbonClientManager.getFactories', F.split(':')[0] + ':CarbonClientManager.getDestinations'],
         expect_covers=['manager/returns']),
    Unit('client.line._sendDatapointsNow', u_line_send_now, [LINE_P + '._sendDatapointsNow'],
         expect_covers=['line/returns', 'line/one_datapoint']),
    Unit('client.pickle._sendDatapointsNow', u_pickle_send_now, [PICKLE_P + '._sendDatapointsNow'], expect_covers=['pickle/returns']),
  ]
