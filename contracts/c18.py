"""C18 -- tagged series names normalise to one canonical form.

Proof part (functions under contract): carbon.util:TaggedSeries.format (a function of the tag
*map*: insertion order cannot matter because the rendered tag list goes through sorted()),
TaggedSeries.path, TaggedSeries.validateTagAndValue (the rejection rules, pinned),
TaggedSeries.parse (syntax dispatch), carbon.cache:CacheFeedingProcessor.process and
carbon.client:RelayProcessor.process (a name the parser rejects is stored / relayed exactly as
received; an accepted one as parse(name).path).
Bounded part: idempotence, order independence at the parse level and agreement of the two
syntaxes depend on str.split / slicing / re.match chains that neither solver decides; decided only
by structured exhaustive enumeration on the real code (replay/c18_enum.py).
"""
import ast
import z3

from pyvc.core import EngineError
from pyvc.runner import Unit, Property, Bounded
from pyvc.interp import Interp, OBJECT
from pyvc.models import Namespace, External, EffectLog, SymMap, TAtom, PyList
from pyvc.values import Atom, Model, PyObj, Builtin, PyRaise, ExcVal, SymExc
from .common import pyobj
from .ring_model import ctx_ip

U = 'carbon.util'
TS = U + ':TaggedSeries'
MultiSet = z3.DeclareSort('RenderedTagMultiset')
Order = z3.DeclareSort('IterationOrder')
StrSeq = z3.DeclareSort('StrList')
RENDER = z3.Function('rendered_tags_of_map', z3.ArraySort(Atom, z3.BoolSort()), z3.ArraySort(Atom, Atom), Atom, MultiSet)
IN_ORDER = z3.Function('list_in_iteration_order', MultiSet, Order, StrSeq)
SORTED = z3.Function('sorted_list', MultiSet, StrSeq)          # A-LIB: sorted() is a function of the multiset
JOIN = z3.Function('join_empty', StrSeq, Atom)
CONCAT = z3.Function('concat', Atom, Atom, Atom)


class TagDict(Model):
  """tags: dict of str -> str, with an explicit (arbitrary) iteration order"""
  def __init__(self, m, order):
    self.m = m
    self.order = order

  def py_get(self, ip, k, default=None):
    return self.m.py_get(ip, k, default)

  def py_items(self, ip):
    return TagItems(self)


class TagItems(Model):
  def __init__(self, d):
    self.d = d

  def py_listcomp(self, ip, node, fr):
    elt = ast.unparse(node.elt)
    ifs = [ast.unparse(c) for c in node.generators[0].ifs]
    tgt = ast.unparse(node.generators[0].target)
    # the rendered multiset is determined by the map and by the comprehension's text
    key = ip.atom('comp:%s|%s|%s' % (tgt, elt, ifs))
    return Rendered(RENDER(self.d.m.keys, self.d.m.vals, key), self.d.order, (tgt, elt, ifs))


class Rendered(Model):
  def __init__(self, ms, order, text):
    self.ms = ms
    self.order = order
    self.text = text


class StrList(Model):
  def __init__(self, term):
    self.term = term


def make_interp(ctx, index):
  ip = Interp(ctx, index, bindings={U: {}})

  def sorted_hook(ip2, v, kw):
    if isinstance(v, Rendered) and not kw:
      return StrList(SORTED(v.ms))
    return NotImplemented
  ip.ext['sorted'] = sorted_hook

  def join(ip2, o, arg):
    if o != '':
      raise EngineError("join with separator %r" % (o,))
    if isinstance(arg, StrList):
      return JOIN(arg.term)
    if isinstance(arg, Rendered):
      return JOIN(IN_ORDER(arg.ms, arg.order))
    raise EngineError("join(%r)" % (arg,))
  ip.ext[('method', 'join')] = join
  ip.ext['str_concat'] = lambda ip2, a, b: CONCAT(TAtom.enc(ip2, a), TAtom.enc(ip2, b))
  ip.ext['str_format'] = lambda ip2, f, a: 'text'
  return ip


def u_format(ctx, index):
  ip = make_interp(ctx, index)
  m = SymMap.fresh(ctx_ip(ctx), TAtom, TAtom, 'tags')
  o1, o2 = ctx.fresh(Order, 'order1'), ctx.fresh(Order, 'order2')
  fmt = ip.getattr(ip.env(U).lookup('TaggedSeries'), 'format')
  r1 = ip.call(fmt, [TagDict(m, o1)])
  r2 = ip.call(fmt, [TagDict(m, o2)])
  index.mark_used(index.func(TS + '.format'))
  ctx.cover('format/returns')
  ok = z3.is_expr(r1) and z3.is_expr(r2)
  ctx.check('C18/format/returns_text', z3.BoolVal(bool(ok)))
  if not ok:
    return
  ctx.check('C18/format/function_of_map', r1 == r2)
  # shape: name (or '') followed by the sorted rendering of the non-name tags
  name = ip.atom('name')
  nm = z3.If(z3.Select(m.keys, name), z3.Select(m.vals, name), ip.atom(''))
  want_key = ip.atom("comp:%s|%s|%s" % ("(tag, value)", "';%s=%s' % (tag, value)", ["tag != 'name'"]))
  ctx.check('C18/format/shape', r1 == CONCAT(nm, JOIN(SORTED(RENDER(m.keys, m.vals, want_key)))))


def u_path(ctx, index):
  ip = make_interp(ctx, index)
  m = SymMap.fresh(ctx_ip(ctx), TAtom, TAtom, 'tags')
  o = ctx.fresh(Order, 'order')
  tags = TagDict(m, o)
  obj = pyobj(index, TS, {'metric': ctx.fresh(Atom, 'metric'), 'tags': tags, 'id': None}, name='series')
  p = ip.getattr(obj, 'path')
  index.mark_used(index.func(TS + '.path'))
  direct = ip.call(ip.getattr(ip.env(U).lookup('TaggedSeries'), 'format'), [tags])
  ctx.cover('path/returns')
  ctx.check('C18/path/is_format_of_the_tags', p == direct if z3.is_expr(p) and z3.is_expr(direct) else z3.BoolVal(False))


LEN0 = z3.Function('is_empty_string', Atom, z3.BoolSort())
HASCHAR = z3.Function('contains_char', Atom, Atom, z3.BoolSort())
FIRST_IS = z3.Function('first_char_is', Atom, Atom, z3.BoolSort())


def u_validate(ctx, index):
  ip = make_interp(ctx, index)
  ip.ext[('len', 'Atom')] = lambda ip2, v: z3.If(LEN0(v), 0, z3.Int('len?' + str(v)))
  lens = {}

  def length(ip2, v):
    k = str(v)
    if k not in lens:
      lens[k] = ip2.ctx.fresh(z3.IntSort(), 'len')
      ip2.ctx.assume(lens[k] >= 0)
      ip2.ctx.assume((lens[k] == 0) == LEN0(v))
    return lens[k]
  ip.ext[('len', 'Atom')] = length
  ip.ext[('contains', 'Atom')] = lambda ip2, cont, item: HASCHAR(cont, ip2.atom(item)) if isinstance(item, str) and len(item) == 1 else (_ for _ in ()).throw(EngineError('in'))
  ip.ext[('getitem', 'Atom')] = lambda ip2, o, i: FirstChar(o) if i == 0 else (_ for _ in ()).throw(EngineError('index'))
  ip.ext[('method', 'format')] = lambda ip2, o, *a, **k: 'text'
  tag, value = ctx.fresh(Atom, 'tag'), ctx.fresh(Atom, 'value')
  raised = None
  try:
    ip.call(ip.getattr(ip.env(U).lookup('TaggedSeries'), 'validateTagAndValue'), [tag, value])
  except PyRaise as e:
    raised = e.exc
  index.mark_used(index.func(TS + '.validateTagAndValue'))
  ctx.cover('validate/ends')
  bad = z3.Or(LEN0(tag), LEN0(value),
              z3.Or([HASCHAR(tag, ip.atom(c)) for c in ';!^=']),
              HASCHAR(value, ip.atom(';')), FIRST_IS(value, ip.atom('~')))
  ctx.check('C18/validateTagAndValue/rejects_iff_a_tag_rule_is_violated', z3.BoolVal(raised is not None) == bad)


class FirstChar(Model):
  def __init__(self, s):
    self.s = s

  def py___eq__(self, ip, other):
    if isinstance(other, str) and len(other) == 1:
      return FIRST_IS(self.s, ip.atom(other))
    raise EngineError("first char == %r" % (other,))


def u_process(which):
  """CacheFeedingProcessor.process / RelayProcessor.process: the name handed on is
  parse(name).path when the parser accepts it and the received name unchanged when it rejects it"""
  def run(ctx, index):
    log = EffectLog()
    metric = ctx.fresh(Atom, 'metric')
    norm = z3.Function('parse_path', Atom, Atom)

    class TSModel(Model):
      def py_parse(self, ip2, m):
        if ip2.ctx.choose(2, 'parse rejects') == 1:
          raise PyRaise(ExcVal('Exception', ('Cannot parse path',)))
        return Namespace('series', {'path': norm(m)})
    dp = (ctx.fresh(z3.RealSort(), 'ts'), ctx.fresh(z3.RealSort(), 'v'))
    if which == 'cache':
      mod, q = 'carbon.cache', 'carbon.cache:CacheFeedingProcessor.process'
      cache = Namespace('cache', {'store': External('cache.store', log)})
      obj_fields = {'cache': cache}
      b = {mod: {'TaggedSeries': TSModel(), 'Processor': OBJECT}}
      sink = 'cache.store'
    else:
      mod, q = 'carbon.client', 'carbon.client:RelayProcessor.process'
      cm = Namespace('client_manager', {'sendDatapoint': External('client_manager.sendDatapoint', log)})
      normalized = ctx.fresh(z3.BoolSort(), 'TAG_RELAY_NORMALIZED')
      b = {mod: {'TaggedSeries': TSModel(), 'settings': Namespace('settings', {'TAG_RELAY_NORMALIZED': normalized}),
                 'state': Namespace('state', {'client_manager': cm}),
                 'pipeline': Namespace('pipeline', {'Processor': Namespace('Processor', {'NO_OUTPUT': ()})})}}
      obj_fields = {}
      sink = 'client_manager.sendDatapoint'
    ip = Interp(ctx, index, bindings=b)
    ip.ext['str_format'] = lambda ip2, f, a: 'text'
    cls = index.cls(q.rsplit('.', 1)[0])
    if which == 'cache':
      b[mod]['Processor'] = Namespace('Processor', {'NO_OUTPUT': ()})
    obj = PyObj(cls, obj_fields, name='processor')
    fi = index.func(q)
    from pyvc.values import RepoFunc
    raised = None
    try:
      r = ip.call_repo(RepoFunc(fi), [obj, metric, dp], {}, top=True)
    except PyRaise as e:
      raised = e.exc
    ctx.cover('process/ends')
    pre = 'C18/%s.process' % ('CacheFeedingProcessor' if which == 'cache' else 'RelayProcessor')
    ctx.check(pre + '/no_raise', z3.BoolVal(raised is None))
    ev = log.of(sink)
    ok = len(ev) == 1
    ctx.check(pre + '/hands_on_exactly_once', z3.BoolVal(ok))
    if not ok:
      return
    m2, dp2 = ev[0][1]
    rejected = 'parse rejects#1' in ctx.path_events
    attempted = any(e.startswith('parse rejects') for e in ctx.path_events)
    if rejected or not attempted:
      ctx.check(pre + '/fallback_unchanged', m2 == metric if z3.is_expr(m2) else z3.BoolVal(False))
    else:
      ctx.check(pre + '/normalised_when_accepted', m2 == norm(metric) if z3.is_expr(m2) else z3.BoolVal(False))
    ctx.check(pre + '/datapoint_unchanged', z3.BoolVal(dp2 is dp or dp2 == dp))
  name = 'cache.CacheFeedingProcessor.process' if which == 'cache' else 'client.RelayProcessor.process'
  fn = 'carbon.cache:CacheFeedingProcessor.process' if which == 'cache' else 'carbon.client:RelayProcessor.process'
  return Unit(name, run, [fn], expect_covers=['process/ends'])


def build():
  units = [
    Unit('util.TaggedSeries.format', u_format, [TS + '.format'], expect_covers=['format/returns']),
    Unit('util.TaggedSeries.path', u_path, [TS + '.path', TS + '.format'], expect_covers=['path/returns']),
    Unit('util.TaggedSeries.validateTagAndValue', u_validate, [TS + '.validateTagAndValue'], expect_covers=['validate/ends']),
    u_process('cache'), u_process('relay'),
  ]

  def kf_witness():
    from pyvc.runner import run_native
    import json
    rc, out, err = run_native('replay/c18_enum.py', ['--witness'])
    for line in out.splitlines():
      if line.startswith('WITNESS-RESULT '):
        r = json.loads(line[len('WITNESS-RESULT '):])
        return bool(r['still_fails']), r
    raise RuntimeError((err or out)[-300:])
  return Property(
    'C18', units,
    bounded=[Bounded('C18/parse/idempotent_order_independent_syntax_agnostic', 'replay/c18_enum.py', ['--tags', '2'], ['--tags', '3'],
                     'names x up to 2 (quick) / 3 (thorough) tags with keys and values drawn from a token set containing every reserved character ; ! ^ = ~ { } " \\ , -- all permutations, carbon and OpenMetrics syntax, with and without a name tag; on the real TaggedSeries.parse',
                     "idempotence and the agreement of the two syntaxes depend on str.split, slicing and an re.match with an escaped-quote pattern: replace/decode clauses stay undecided in z3 and cvc5")],
    trusted_base=['A-ENGINE', 'A-SMT', 'A-LIB(sorted is a function of the multiset)', 'A-STR'],
    assumptions=[
      "A-LIB: sorted(list) depends only on the multiset of its elements; ''.join and + are functions of their arguments",
      "the tag dict is a map with an arbitrary iteration order (universally quantified); rendering ';%s=%s' % (tag, value) for tag != 'name' is a function of the map",
      "TaggedSeries.parse is used by the processors through an abstract contract (raises or returns a series with a .path); the parser itself (parse_carbon / parse_openmetrics) is covered only by the bounded clause",
    ])
