"""C18 -- tagged series names normalise to one canonical form.

Proof part (functions under contract): carbon.util:TaggedSeries.format (a function of the tag
*map*: insertion order cannot matter because the rendered tag list goes through sorted()),
TaggedSeries.path, TaggedSeries.validateTagAndValue (the rejection rules, pinned),
TaggedSeries.parse (syntax dispatch), TaggedSeries.parse_carbon (tag map = last segment per tag,
`name` always the sanitised metric name, rejection iff some part is malformed; loop contract with a
ghost "last segment setting this tag" map), carbon.cache:CacheFeedingProcessor.process and
carbon.client:RelayProcessor.process (a name the parser rejects is stored / relayed exactly as
received; an accepted one as parse(name).path).
Bounded part: idempotence, order independence at the parse level and agreement of the two
syntaxes depend on str.split / slicing / re.match chains that neither solver decides; decided only
by structured exhaustive enumeration on the real code (replay/c18_enum.py).
"""
import ast
import z3

from pyvc.core import EngineError
from pyvc.runner import Unit, Property, Bounded
from pyvc.interp import Interp, OBJECT
from pyvc.models import Namespace, External, EffectLog, SymMap, TAtom, PyList
from pyvc.values import Atom, Model, PyObj, Builtin, PyRaise, ExcVal, SymExc
from .common import pyobj
from .ring_model import ctx_ip

U = 'carbon.util'
TS = U + ':TaggedSeries'
MultiSet = z3.DeclareSort('RenderedTagMultiset')
Order = z3.DeclareSort('IterationOrder')
StrSeq = z3.DeclareSort('StrList')
RENDER = z3.Function('rendered_tags_of_map', z3.ArraySort(Atom, z3.BoolSort()), z3.ArraySort(Atom, Atom), Atom, MultiSet)
IN_ORDER = z3.Function('list_in_iteration_order', MultiSet, Order, StrSeq)
SORTED = z3.Function('sorted_list', MultiSet, StrSeq)          # A-LIB: sorted() is a function of the multiset
JOIN = z3.Function('join_empty', StrSeq, Atom)
CONCAT = z3.Function('concat', Atom, Atom, Atom)


class TagDict(Model):
  """tags: dict of str -> str, with an explicit (arbitrary) iteration order"""
  def __init__(self, m, order):
    self.m = m
    self.order = order

  def py_get(self, ip, k, default=None):
    return self.m.py_get(ip, k, default)

  def py_items(self, ip):
    return TagItems(self)


class TagItems(Model):
  def __init__(self, d):
    self.d = d

  def py_listcomp(self, ip, node, fr):
    elt = ast.unparse(node.elt)
    ifs = [ast.unparse(c) for c in node.generators[0].ifs]
    tgt = ast.unparse(node.generators[0].target)
    # the rendered multiset is determined by the map and by the comprehension's text
    key = ip.atom('comp:%s|%s|%s' % (tgt, elt, ifs))
    return Rendered(RENDER(self.d.m.keys, self.d.m.vals, key), self.d.order, (tgt, elt, ifs))


class Rendered(Model):
  def __init__(self, ms, order, text):
    self.ms = ms
    self.order = order
    self.text = text
    self.is_sorted = False

  def py_sort(self, ip):
    # list.sort() in place, no key: from now on the list is sorted(list)
    self.is_sorted = True


class StrList(Model):
  def __init__(self, term):
    self.term = term


def make_interp(ctx, index):
  ip = Interp(ctx, index, bindings={U: {}})

  def sorted_hook(ip2, v, kw):
    if isinstance(v, Rendered) and not kw:
      return StrList(SORTED(v.ms))
    return NotImplemented
  ip.ext['sorted'] = sorted_hook

  def join(ip2, o, arg):
    if o != '':
      raise EngineError("join with separator %r" % (o,))
    if isinstance(arg, StrList):
      return JOIN(arg.term)
    if isinstance(arg, Rendered):
      return JOIN(SORTED(arg.ms)) if arg.is_sorted else JOIN(IN_ORDER(arg.ms, arg.order))
    raise EngineError("join(%r)" % (arg,))
  ip.ext[('method', 'join')] = join
  ip.ext['str_concat'] = lambda ip2, a, b: CONCAT(TAtom.enc(ip2, a), TAtom.enc(ip2, b))
  ip.ext['str_format'] = lambda ip2, f, a: 'text'
  return ip


def u_format(ctx, index):
  ip = make_interp(ctx, index)
  m = SymMap.fresh(ctx_ip(ctx), TAtom, TAtom, 'tags')
  o1, o2 = ctx.fresh(Order, 'order1'), ctx.fresh(Order, 'order2')
  fmt = ip.getattr(ip.env(U).lookup('TaggedSeries'), 'format')
  r1 = ip.call(fmt, [TagDict(m, o1)])
  r2 = ip.call(fmt, [TagDict(m, o2)])
  index.mark_used(index.func(TS + '.format'))
  ctx.cover('format/returns')
  ok = z3.is_expr(r1) and z3.is_expr(r2)
  ctx.check('C18/format/returns_text', z3.BoolVal(bool(ok)))
  if not ok:
    return
  ctx.check('C18/format/function_of_map', r1 == r2)
  # shape: name (or '') followed by the sorted rendering of the non-name tags
  name = ip.atom('name')
  nm = z3.If(z3.Select(m.keys, name), z3.Select(m.vals, name), ip.atom(''))
  want_key = ip.atom("comp:%s|%s|%s" % ("(tag, value)", "';%s=%s' % (tag, value)", ["tag != 'name'"]))
  ctx.check('C18/format/shape', r1 == CONCAT(nm, JOIN(SORTED(RENDER(m.keys, m.vals, want_key)))))


def u_path(ctx, index):
  ip = make_interp(ctx, index)
  m = SymMap.fresh(ctx_ip(ctx), TAtom, TAtom, 'tags')
  o = ctx.fresh(Order, 'order')
  tags = TagDict(m, o)
  obj = pyobj(index, TS, {'metric': ctx.fresh(Atom, 'metric'), 'tags': tags, 'id': None}, name='series')
  p = ip.getattr(obj, 'path')
  index.mark_used(index.func(TS + '.path'))
  direct = ip.call(ip.getattr(ip.env(U).lookup('TaggedSeries'), 'format'), [tags])
  ctx.cover('path/returns')
  ctx.check('C18/path/is_format_of_the_tags', p == direct if z3.is_expr(p) and z3.is_expr(direct) else z3.BoolVal(False))


LEN0 = z3.Function('is_empty_string', Atom, z3.BoolSort())
HASCHAR = z3.Function('contains_char', Atom, Atom, z3.BoolSort())
FIRST_IS = z3.Function('first_char_is', Atom, Atom, z3.BoolSort())


def u_validate(ctx, index):
  ip = make_interp(ctx, index)
  ip.ext[('len', 'Atom')] = lambda ip2, v: z3.If(LEN0(v), 0, z3.Int('len?' + str(v)))
  lens = {}

  def length(ip2, v):
    k = str(v)
    if k not in lens:
      lens[k] = ip2.ctx.fresh(z3.IntSort(), 'len')
      ip2.ctx.assume(lens[k] >= 0)
      ip2.ctx.assume((lens[k] == 0) == LEN0(v))
    return lens[k]
  ip.ext[('len', 'Atom')] = length
  ip.ext[('contains', 'Atom')] = lambda ip2, cont, item: HASCHAR(cont, ip2.atom(item)) if isinstance(item, str) and len(item) == 1 else (_ for _ in ()).throw(EngineError('in'))
  ip.ext[('getitem', 'Atom')] = lambda ip2, o, i: FirstChar(o) if i == 0 else (_ for _ in ()).throw(EngineError('index'))
  ip.ext[('method', 'format')] = lambda ip2, o, *a, **k: 'text'
  tag, value = ctx.fresh(Atom, 'tag'), ctx.fresh(Atom, 'value')
  raised = None
  try:
    ip.call(ip.getattr(ip.env(U).lookup('TaggedSeries'), 'validateTagAndValue'), [tag, value])
  except PyRaise as e:
    raised = e.exc
  index.mark_used(index.func(TS + '.validateTagAndValue'))
  ctx.cover('validate/ends')
  bad = z3.Or(LEN0(tag), LEN0(value),
              z3.Or([HASCHAR(tag, ip.atom(c)) for c in ';!^=']),
              HASCHAR(value, ip.atom(';')), FIRST_IS(value, ip.atom('~')))
  ctx.check('C18/validateTagAndValue/rejects_iff_a_tag_rule_is_violated', z3.BoolVal(raised is not None) == bad)


SEG_TAG = z3.Function('text_before_first_equals', Atom, Atom)
SEG_VAL = z3.Function('text_after_first_equals', Atom, Atom)
SEG_HAS_EQ = z3.Function('contains_equals', Atom, z3.BoolSort())
TAG_OK = z3.Function('tag_and_value_are_valid', Atom, Atom, z3.BoolSort())     # validateTagAndValue's contract
LSTRIP_TILDE = z3.Function('lstrip_tilde', Atom, Atom)


def u_parse_carbon(ctx, index):
  """parse_carbon(path): with path.split(';') = [metric, seg_1 .. seg_n] (arbitrary strings),
  seg.split('=', 1) = [tag, value] when the segment contains '=':
    raises  iff  the metric is empty, or some segment has no '=' / an empty tag / violates a tag rule
                 (validateTagAndValue's contract), or the metric is nothing but '~';
    otherwise the tag map is { tag_j -> value_j } with the LAST segment of a tag winning, except that
    'name' is always the metric name with leading '~' stripped -- whatever the segments say, so the
    result does not depend on where a `name` tag stands (what both syntaxes must agree on).
  Ghost: last[t] = index of the last segment so far that sets tag t (or -1)."""
  from pyvc.interp import LoopSpec, Spec
  from pyvc.models import SymSeq, TInt
  ip = make_interp(ctx, index)
  ip.label_prefix = 'C18/'
  I = z3.IntSort()
  Q = TS + '.parse_carbon'
  path = ctx.fresh(Atom, 'path')
  segs = SymSeq(TAtom, ctx.fresh(z3.SeqSort(Atom), 'segments'), 'segments')
  ctx.assume(segs.length() >= 1)
  name_atom = ip.atom('name')
  j_, t_ = z3.Int('j?'), z3.Const('t?', Atom)
  st = {}

  def split(ip2, o, sep=None, maxsplit=-1):
    if sep == ';' and maxsplit == -1:
      return segs
    if sep == '=' and maxsplit == 1:
      o = TAtom.enc(ip2, o)
      if ip2.ctx.branch(SEG_HAS_EQ(o), "'=' in segment"):
        return PyList([SEG_TAG(o), SEG_VAL(o)])
      return PyList([o])
    raise EngineError("split(%r, %r)" % (sep, maxsplit))
  ip.ext[('method', 'split')] = split

  def partition(ip2, o, sep):
    # A-STR: s.partition('=') == (head, '=', tail) with [head, tail] == s.split('=', 1) when '=' in s, else (s, '', '')
    if sep != '=':
      raise EngineError("partition(%r)" % (sep,))
    o = TAtom.enc(ip2, o)
    if ip2.ctx.branch(SEG_HAS_EQ(o), "'=' in segment"):
      return (SEG_TAG(o), '=', SEG_VAL(o))
    return (o, '', '')
  ip.ext[('method', 'partition')] = partition
  ip.ext[('truth', 'Atom')] = lambda ip2, v: z3.Not(LEN0(v))
  ip.ext[('method', 'lstrip')] = lambda ip2, o, chars: LSTRIP_TILDE(TAtom.enc(ip2, o)) if chars == '~' else (_ for _ in ()).throw(EngineError('lstrip'))
  ip.ext[('len', 'Atom')] = lambda ip2, v: z3.If(LEN0(v), 0, 1)          # only compared with 0
  tags = SymMap.empty(ctx_ip(ctx), TAtom, TAtom, 'tags')
  ip.ext[('new_dict', Q)] = lambda ip2: tags

  def validate(ip2, args, kw):
    tag, value = TAtom.enc(ip2, args[-2]), TAtom.enc(ip2, args[-1])
    if not ip2.ctx.branch(TAG_OK(tag, value), 'tag rules hold'):
      raise PyRaise(ExcVal('Exception', ('invalid tag',)))
    return None
  ip.specs[TS + '.validateTagAndValue'] = Spec(TS + '.validateTagAndValue', validate)

  def seg(j):
    return segs.term[j]

  def sets_tag(j, t):
    return z3.And(SEG_HAS_EQ(seg(j)), SEG_TAG(seg(j)) == t)

  def well_formed(j):
    return z3.And(SEG_HAS_EQ(seg(j)), z3.Not(LEN0(SEG_TAG(seg(j)))), TAG_OK(SEG_TAG(seg(j)), SEG_VAL(seg(j))))

  def pre(fr):
    fr.ghost['last'] = z3.K(Atom, z3.IntVal(-1))

  def inv(fr):
    k = fr.loop_k[0] + 1            # the loop runs over segments[1:]: k is the index into `segments`
    last = fr.ghost['last']
    return [
      ('segments_so_far_are_well_formed', z3.ForAll([j_], z3.Implies(z3.And(1 <= j_, j_ < k), well_formed(j_)))),
      ('tag_present_iff_some_segment_sets_it', z3.ForAll([t_], z3.Select(tags.keys, t_) == (z3.Select(last, t_) >= 1))),
      ('last_is_the_last_segment_setting_the_tag', z3.ForAll([t_], z3.Implies(
        z3.Select(last, t_) >= 1,
        z3.And(z3.Select(last, t_) < k, sets_tag(z3.Select(last, t_), t_),
               z3.Select(tags.vals, t_) == SEG_VAL(seg(z3.Select(last, t_))),
               z3.ForAll([j_], z3.Implies(z3.And(z3.Select(last, t_) < j_, j_ < k), z3.Not(sets_tag(j_, t_)))))))),
      ('every_segment_s_tag_is_present', z3.ForAll([j_], z3.Implies(z3.And(1 <= j_, j_ < k), z3.Select(last, SEG_TAG(seg(j_))) >= j_))),
    ]

  def havoc(fr):
    tags.havoc(ip, 'tags')
    fr.ghost['last'] = ctx.fresh(z3.ArraySort(Atom, I), 'last')
    st['last'] = fr.ghost['last']
    st['k'] = fr.loop_k[0] + 1

  def step(fr):
    kdone = fr.loop_k[0]            # index into `segments` of the segment just processed
    fr.ghost['last'] = z3.Store(fr.ghost['last'], SEG_TAG(seg(kdone)), kdone)
    ctx.cover('parse_carbon/segment_done')
  ip.loops[(Q, 0)] = LoopSpec('for segment in segments[1:]', inv, havoc, ghost_pre=pre, ghost_step=step, locals_modified=[])
  raised = None
  try:
    r = ip.call(ip.getattr(ip.env(U).lookup('TaggedSeries'), 'parse_carbon'), [path])
  except PyRaise as e:
    raised = e.exc
  index.mark_used(index.func(Q))
  ctx.cover('parse_carbon/ends')
  n = segs.length()
  metric = seg(0)
  all_ok = z3.And(z3.Not(LEN0(metric)), z3.ForAll([j_], z3.Implies(z3.And(1 <= j_, j_ < n), well_formed(j_))),
                  z3.Not(LEN0(LSTRIP_TILDE(metric))))
  ctx.check('C18/parse_carbon/rejects_iff_some_part_is_malformed', z3.BoolVal(raised is not None) == z3.Not(all_ok))
  if raised is not None:
    return
  ctx.cover('parse_carbon/returns')
  ok = isinstance(r, PyObj) and r.fields.get('tags') is tags
  ctx.check('C18/parse_carbon/returns_series_with_the_tag_map', z3.BoolVal(bool(ok)))
  ctx.check('C18/parse_carbon/metric_is_the_first_segment', r.fields.get('metric') == metric if ok and z3.is_expr(r.fields.get('metric')) else z3.BoolVal(False))
  # `name` is the sanitized metric name whatever the segments say
  ctx.check('C18/parse_carbon/name_is_the_metric_name', z3.And(z3.Select(tags.keys, name_atom),
                                                              z3.Select(tags.vals, name_atom) == LSTRIP_TILDE(metric)))
  last = st.get('last')
  if last is not None:
    ctx.check('C18/parse_carbon/other_tags_from_their_last_segment', z3.ForAll([t_], z3.Implies(
      t_ != name_atom,
      z3.And(z3.Select(tags.keys, t_) == z3.Exists([j_], z3.And(1 <= j_, j_ < n, sets_tag(j_, t_))),
             z3.Implies(z3.Select(tags.keys, t_),
                        z3.Exists([j_], z3.And(1 <= j_, j_ < n, sets_tag(j_, t_), z3.Select(tags.vals, t_) == SEG_VAL(seg(j_)),
                                               z3.ForAll([z3.Int('i?')], z3.Implies(z3.And(j_ < z3.Int('i?'), z3.Int('i?') < n),
                                                                                    z3.Not(sets_tag(z3.Int('i?'), t_)))))))))))


class FirstChar(Model):
  def __init__(self, s):
    self.s = s

  def py___eq__(self, ip, other):
    if isinstance(other, str) and len(other) == 1:
      return FIRST_IS(self.s, ip.atom(other))
    raise EngineError("first char == %r" % (other,))


def u_process(which):
  """CacheFeedingProcessor.process / RelayProcessor.process: the name handed on is
  parse(name).path when the parser accepts it and the received name unchanged when it rejects it"""
  def run(ctx, index):
    log = EffectLog()
    metric = ctx.fresh(Atom, 'metric')
    norm = z3.Function('parse_path', Atom, Atom)

    class TSModel(Model):
      def py_parse(self, ip2, m):
        if ip2.ctx.choose(2, 'parse rejects') == 1:
          raise PyRaise(ExcVal('Exception', ('Cannot parse path',)))
        return Namespace('series', {'path': norm(m)})
    dp = (ctx.fresh(z3.RealSort(), 'ts'), ctx.fresh(z3.RealSort(), 'v'))
    if which == 'cache':
      mod, q = 'carbon.cache', 'carbon.cache:CacheFeedingProcessor.process'
      cache = Namespace('cache', {'store': External('cache.store', log)})
      obj_fields = {'cache': cache}
      b = {mod: {'TaggedSeries': TSModel(), 'Processor': OBJECT}}
      sink = 'cache.store'
    else:
      mod, q = 'carbon.client', 'carbon.client:RelayProcessor.process'
      cm = Namespace('client_manager', {'sendDatapoint': External('client_manager.sendDatapoint', log)})
      normalized = ctx.fresh(z3.BoolSort(), 'TAG_RELAY_NORMALIZED')
      b = {mod: {'TaggedSeries': TSModel(), 'settings': Namespace('settings', {'TAG_RELAY_NORMALIZED': normalized}),
                 'state': Namespace('state', {'client_manager': cm}),
                 'pipeline': Namespace('pipeline', {'Processor': Namespace('Processor', {'NO_OUTPUT': ()})})}}
      obj_fields = {}
      sink = 'client_manager.sendDatapoint'
    ip = Interp(ctx, index, bindings=b)
    ip.ext['str_format'] = lambda ip2, f, a: 'text'
    cls = index.cls(q.rsplit('.', 1)[0])
    if which == 'cache':
      b[mod]['Processor'] = Namespace('Processor', {'NO_OUTPUT': ()})
    obj = PyObj(cls, obj_fields, name='processor')
    fi = index.func(q)
    from pyvc.values import RepoFunc
    raised = None
    try:
      r = ip.call_repo(RepoFunc(fi), [obj, metric, dp], {}, top=True)
    except PyRaise as e:
      raised = e.exc
    ctx.cover('process/ends')
    pre = 'C18/%s.process' % ('CacheFeedingProcessor' if which == 'cache' else 'RelayProcessor')
    ctx.check(pre + '/no_raise', z3.BoolVal(raised is None))
    ev = log.of(sink)
    ok = len(ev) == 1
    ctx.check(pre + '/hands_on_exactly_once', z3.BoolVal(ok))
    if not ok:
      return
    m2, dp2 = ev[0][1]
    rejected = 'parse rejects#1' in ctx.path_events
    attempted = any(e.startswith('parse rejects') for e in ctx.path_events)
    if rejected or not attempted:
      ctx.check(pre + '/fallback_unchanged', m2 == metric if z3.is_expr(m2) else z3.BoolVal(False))
    else:
      ctx.check(pre + '/normalised_when_accepted', m2 == norm(metric) if z3.is_expr(m2) else z3.BoolVal(False))
    ctx.check(pre + '/datapoint_unchanged', z3.BoolVal(dp2 is dp or dp2 == dp))
  name = 'cache.CacheFeedingProcessor.process' if which == 'cache' else 'client.RelayProcessor.process'
  fn = 'carbon.cache:CacheFeedingProcessor.process' if which == 'cache' else 'carbon.client:RelayProcessor.process'
  return Unit(name, run, [fn], expect_covers=['process/ends'])


def build():
  units = [
    Unit('util.TaggedSeries.format', u_format, [TS + '.format'], expect_covers=['format/returns']),
    Unit('util.TaggedSeries.path', u_path, [TS + '.path', TS + '.format'], expect_covers=['path/returns']),
    Unit('util.TaggedSeries.parse_carbon', u_parse_carbon, [TS + '.parse_carbon', TS + '.sanitize_name_as_tag_value', TS + '.__init__'],
         expect_covers=['parse_carbon/ends', 'parse_carbon/returns', 'parse_carbon/segment_done']),
    Unit('util.TaggedSeries.validateTagAndValue', u_validate, [TS + '.validateTagAndValue'], expect_covers=['validate/ends']),
    u_process('cache'), u_process('relay'),
  ]

  def kf_witness():
    from pyvc.runner import run_native
    import json
    rc, out, err = run_native('replay/c18_enum.py', ['--witness'])
    for line in out.splitlines():
      if line.startswith('WITNESS-RESULT '):
        r = json.loads(line[len('WITNESS-RESULT '):])
        return bool(r['still_fails']), r
    raise RuntimeError((err or out)[-300:])
  return Property(
    'C18', units,
    bounded=[Bounded('C18/parse/idempotent_order_independent_syntax_agnostic', 'replay/c18_enum.py', ['--tags', '2'], ['--tags', '3'],
                     'names x up to 2 (quick) / 3 (thorough) tags with keys and values drawn from a token set containing every reserved character ; ! ^ = ~ { } " \\ , -- all permutations, carbon and OpenMetrics syntax, with and without a name tag, duplicate tags, and OpenMetrics tag lists with a malformed pair (missing quote / value / separator, stray text) next to well-formed ones judged by an independent strict parser; on the real TaggedSeries.parse',
                     "idempotence and the agreement of the two syntaxes depend on str.split, slicing and an re.match with an escaped-quote pattern: replace/decode clauses stay undecided in z3 and cvc5")],
    trusted_base=['A-ENGINE', 'A-SMT', 'A-LIB(sorted is a function of the multiset)', 'A-STR'],
    assumptions=[
      "A-LIB: sorted(list) depends only on the multiset of its elements; ''.join and + are functions of their arguments",
      "the tag dict is a map with an arbitrary iteration order (universally quantified); rendering ';%s=%s' % (tag, value) for tag != 'name' is a function of the map",
      "TaggedSeries.parse is used by the processors through an abstract contract (raises or returns a series with a .path); the parser itself (parse_carbon / parse_openmetrics) is covered only by the bounded clause",
    ])
