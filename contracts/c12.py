"""C12 -- admission rules: blacklist, whitelist, NaN and timestamp normalisation.

Functions under contract: carbon.protocols:MetricReceiver.metricReceived,
carbon.regexlist:RegexList.{__contains__, __nonzero__ (= __bool__), read_list}.  All three listener
protocols reach the pipeline only through metricReceived (syntactic obligation).
`regex.search(name)` is an uninterpreted predicate: the property is about which datapoints are
filtered *given* which patterns match.  Floats carry nan/+-inf tags; the timestamp is finite here
(non-finite timestamps are C11's exception-freedom obligations).
"""
import ast
import z3

from pyvc.runner import Unit, Property, Syntactic, Bounded
from pyvc.core import EngineError
from pyvc.values import PyRaise, Atom
from .proto_model import ProtoHarness, MR, RL, SEARCH
from .common import FloatVal


def as_float(x):
  if isinstance(x, FloatVal):
    return x
  return FloatVal.of(x)


def u_contains(ctx, index):
  h = ProtoHarness(ctx, index)
  h.ip.label_prefix = 'C12/'
  v = ctx.fresh(Atom, 'name')
  lst = h.bl.fields['regex_list'].term
  r = h.ip.run(RL + '.__contains__', [v], self_obj=h.bl)
  ctx.cover('contains/returns')
  rt = h.ip.truth(r)
  rt = z3.BoolVal(rt) if isinstance(rt, bool) else rt
  ctx.check('C12/RegexList.__contains__/iff_some_pattern_matches', rt == h.matches(lst, v))


def u_bool(ctx, index):
  h = ProtoHarness(ctx, index)
  lst = h.bl.fields['regex_list'].term
  r = h.ip.truth(h.bl)
  r = z3.BoolVal(r) if isinstance(r, bool) else r
  ctx.cover('bool/returns')
  ctx.check('C12/RegexList.__bool__/iff_nonempty', r == (z3.Length(lst) > 0))


STRIP = z3.Function('str_strip', Atom, Atom)
IS_COMMENT = z3.Function('startswith_hash', Atom, z3.BoolSort())
IS_BLANK = z3.Function('is_empty_string', Atom, z3.BoolSort())
COMPILES = z3.Function('re_compiles', Atom, z3.BoolSort())


def u_read_list(ctx, index):
  """read_list(): when the file exists and is newer than the last read, regex_list becomes the
  order-preserving list of re.compile(line.strip()) over the lines that are not comments (start with
  '#'), not blank after stripping, and compile; an invalid line is skipped without affecting the
  others (ordered-filter invariant with ghost index maps); a missing file empties the list; an
  unchanged file leaves it alone.  str.strip / startswith / truthiness and re.compile are
  uninterpreted (A-STR); the file's lines are an arbitrary sequence."""
  from pyvc.interp import LoopSpec
  from pyvc.models import SymSeq, PyList, TAtom, Namespace, External, EffectLog
  from pyvc.values import Builtin, ExcVal, ExcClass
  from .proto_model import Regex, TRegex
  from . import config_model as CM
  h = ProtoHarness(ctx, index)
  ip = h.ip
  ip.label_prefix = 'C12/'
  COMPILE = z3.Function('re_compile', Atom, Regex)
  lines = SymSeq(TAtom, ctx.fresh(z3.SeqSort(Atom), 'lines'), 'lines')
  exists = ctx.fresh(z3.BoolSort(), 'file_exists')
  mtime = ctx.fresh(z3.RealSort(), 'mtime')
  mtime_fails = ctx.choose(2, 'getmtime') == 1
  last = ctx.fresh(z3.RealSort(), 'rules_last_read')
  log = EffectLog()
  rl = h.bl
  rl.fields['list_file'] = ctx.fresh(Atom, 'list_file')
  rl.fields['rules_last_read'] = last
  old_list = rl.fields['regex_list'].term

  def getmtime(ip2, a, k):
    if mtime_fails:
      raise PyRaise(ExcVal('OSError', ()))
    return mtime

  def compile_(ip2, a, k):
    pat = TAtom.enc(ip2, a[0])
    if not ip2.ctx.branch(COMPILES(pat), 're.compile accepts'):
      raise PyRaise(ExcVal('re.error', ()))
    return COMPILE(pat)
  os_path = Namespace('os.path', {'exists': Builtin('exists', lambda ip2, a, k: exists), 'getmtime': Builtin('getmtime', getmtime)})
  ip.env(RL.split(':')[0]).bindings.update({
    'os': Namespace('os', {'path': os_path}),
    're': Namespace('re', {'compile': Builtin('compile', compile_), 'error': ExcClass('re.error')}),
    'log': Namespace('log', {'err': External('log.err', log), 'msg': External('log.msg', log)}),
    'open': Builtin('open', lambda ip2, a, k: lines),          # the file object: iterating it yields the lines
  })
  # `with open(..) as fh:` binds the same object (closing it is of no concern here)
  lines.enter = lambda ip2: lines
  lines.exit = lambda ip2: None
  ip.ext[('method', 'strip')] = lambda ip2, o: STRIP(TAtom.enc(ip2, o))
  ip.ext[('method', 'startswith')] = lambda ip2, o, pre: IS_COMMENT(TAtom.enc(ip2, o)) if pre == '#' else (_ for _ in ()).throw(EngineError('startswith'))
  ip.ext[('truth', 'Atom')] = lambda ip2, v: z3.Not(IS_BLANK(v))
  Q = RL + '.read_list'

  st = {}

  def accepted(line):
    return z3.And(z3.Not(IS_COMMENT(line)), z3.Not(IS_BLANK(STRIP(line))), COMPILES(STRIP(line)))

  def same(elem, line):
    return elem == COMPILE(STRIP(line))

  def lst(fr):
    # the list being built: the one local that is an empty list when the loop is entered
    # (`new_regex_list` in the code as it stands; the contract does not depend on the name)
    if 'lname' not in st:
      cands = [k for k, v in fr.locals.items() if isinstance(v, PyList) and not v.items]
      if len(cands) == 1:
        st['lname'] = cands[0]
      elif 'new_regex_list' in fr.locals:
        st['lname'] = 'new_regex_list'          # the name it has in the code as it stands
      else:
        raise EngineError("read_list: cannot identify the list under construction (%r)" % (cands,))
    name = st['lname']
    v = fr[name]
    if isinstance(v, PyList):
      v = v.to_symseq(ip, TRegex)
      v.name = 'new_regex_list'
      fr.locals[name] = v
    return v

  def pre(fr):
    lst(fr)
    fr.ghost['of_src'] = z3.K(z3.IntSort(), z3.IntVal(0))
    fr.ghost['of_dst'] = z3.K(z3.IntSort(), z3.IntVal(0))

  def inv(fr):
    return CM.ordered_filter_inv(lst(fr).term, lines.term, fr.loop_k[0], fr.ghost['of_src'], fr.ghost['of_dst'], accepted, same)

  def havoc(fr):
    lst(fr).havoc(ip, 'new_regex_list')
    CM.ordered_filter_ghost(ctx, fr)
    fr.ghost['before'] = lst(fr).term
    st['exit'] = (fr.ghost['of_src'], fr.ghost['of_dst'])

  def step(fr):
    CM.ordered_filter_step(fr, lst(fr).term, fr.ghost['before'], fr.loop_k[0] - 1)
    ctx.cover('read_list/line_done')
  ip.loops[(Q, 0)] = LoopSpec('for line in open(self.list_file)', inv, havoc, ghost_pre=pre, ghost_step=step, locals_modified=[])
  raised = None
  try:
    ip.run(Q, [], self_obj=rl)
  except PyRaise as e:
    raised = e.exc
  ctx.cover('read_list/returns')
  ctx.check('C12/read_list/no_raise', z3.BoolVal(raised is None))
  if raised is not None:
    return
  new = rl.fields['regex_list']
  newt = new.term if isinstance(new, SymSeq) else (z3.Empty(z3.SeqSort(Regex)) if isinstance(new, PyList) and not new.items else None)
  ctx.check('C12/read_list/list_is_a_list_of_patterns', z3.BoolVal(newt is not None))
  if newt is None:
    return
  fresh_read = z3.And(exists, z3.BoolVal(not mtime_fails), mtime > last)
  # (the reload policy -- missing / unchanged file, remembered mtime -- is informative: C12 is about what a list file means)
  ctx.check('aux/read_list/missing_file_empties_the_list', z3.Implies(z3.Not(exists), z3.Length(newt) == 0))
  ctx.check('aux/read_list/unchanged_file_keeps_the_list', z3.Implies(z3.And(exists, z3.Not(fresh_read)), newt == old_list))
  if 'exit' in st:
    ctx.cover('read_list/file_read')
    (srcidx, dstidx) = st['exit']
    for (label, f) in CM.ordered_filter_inv(newt, lines.term, lines.length(), srcidx, dstidx, accepted, same):
      ctx.check('C12/read_list/' + label.replace('sections', 'lines').replace('section', 'line'), f)
    ctx.check('aux/read_list/remembers_the_mtime', rl.fields['rules_last_read'] == mtime)


def u_metric_received(ctx, index):
  h = ProtoHarness(ctx, index)
  h.ip.label_prefix = 'C12/'
  metric = ctx.fresh(Atom, 'metric')
  ts = FloatVal.fresh(ctx, 'ts', finite=True)
  val = FloatVal.fresh(ctx, 'val')
  bl = h.bl.fields['regex_list'].term
  wl = h.wl.fields['regex_list'].term
  B = z3.And(z3.Length(bl) > 0, h.matches(bl, metric))
  W = z3.And(z3.Length(wl) > 0, z3.Not(h.matches(wl, metric)))
  N = val.is_nan()
  raised = None
  try:
    h.ip.run(MR + '.metricReceived', [metric, (ts, val)], self_obj=h.receiver)
  except PyRaise as e:
    raised = e.exc
  ctx.cover('metricReceived/returns')
  ctx.check('C12/metricReceived/no_raise_for_finite_timestamp', z3.BoolVal(raised is None))
  if raised is not None:
    return
  evs = h.log.of('events.metricReceived')
  incs = [e[1][0] for e in h.log.of('instrumentation.increment')]
  filtered = z3.Or(B, W, N)
  ctx.check('C12/metricReceived/filtered_iff',
            z3.And(z3.Implies(filtered, z3.BoolVal(len(evs) == 0)),
                   z3.Implies(z3.Not(filtered), z3.BoolVal(len(evs) == 1))))
  ctx.check('aux/metricReceived/counters',
            z3.And(z3.Implies(B, z3.BoolVal(incs == ['blacklistMatches'])),
                   z3.Implies(z3.And(z3.Not(B), W), z3.BoolVal(incs == ['whitelistRejects'])),
                   z3.Implies(z3.And(z3.Not(B), z3.Not(W)), z3.BoolVal(incs == []))))
  if len(evs) != 1:
    return
  ctx.cover('metricReceived/admitted')
  (m2, dp2) = evs[0][1]
  ok_shape = isinstance(dp2, tuple) and len(dp2) == 2
  ctx.check('C12/metricReceived/datapoint_is_pair', z3.BoolVal(ok_shape))
  if not ok_shape:
    return
  out_ts, out_v = as_float(dp2[0]), as_float(dp2[1])
  ctx.check('C12/metricReceived/identity', z3.And(m2 == metric, out_v.same(val)))
  is_m1 = ts.r == -1
  reads = h.clock.reads
  now = reads[0] if reads else None
  res = h.res
  # ts' : -1 is replaced by the current time, every other timestamp is kept
  ctx.check('C12/metricReceived/ts_minus_one',
            z3.And(z3.Implies(is_m1, z3.BoolVal(len(reads) == 1)),
                   z3.Implies(z3.Not(is_m1), z3.BoolVal(len(reads) == 0))))
  if (len(reads) == 1):
    tsp = now
  else:
    tsp = ts.r
  ctx.check('C12/metricReceived/no_resolution_keeps_ts',
            z3.Implies(res == 0, z3.And(out_ts.kind == 0, out_ts.r == tsp)))
  # rounded DOWN to a multiple of the resolution
  q = ctx.fresh(z3.IntSort(), 'q')
  ctx.check('C12/metricReceived/resolution',
            z3.Implies(res > 0, z3.And(out_ts.kind == 0, out_ts.r <= tsp, tsp < out_ts.r + res,
                                       z3.Exists([q], out_ts.r == z3.ToReal(q * res)))))


def only_through_metric_received(index):
  """every listener protocol reaches events.metricReceived only through MetricReceiver.metricReceived"""
  mi = index.module('carbon.protocols')
  bad = []
  for n in ast.walk(mi.tree):
    if isinstance(n, ast.Call) and ast.unparse(n.func) in ('events.metricReceived', 'state.events.metricReceived'):
      # find enclosing function
      bad.append(n.lineno)
  fn = index.func(MR + '.metricReceived')
  inside = [l for l in bad if fn.lineno <= l <= fn.end_lineno]
  outside = [l for l in bad if not (fn.lineno <= l <= fn.end_lineno)]
  calls = {}
  for cls in ('MetricLineReceiver', 'MetricDatagramReceiver', 'MetricPickleReceiver'):
    ci = mi.classes[cls][0]
    calls[cls] = sum(1 for m in ci.methods.values() for n in ast.walk(m.node)
                     if isinstance(n, ast.Call) and ast.unparse(n.func) == 'self.metricReceived')
    if 'metricReceived' in ci.methods:
      outside.append('override in ' + cls)
  ok = len(inside) == 1 and not outside and all(v == 1 for v in calls.values())
  return ok, "dispatch sites inside metricReceived: %r, elsewhere: %r, self.metricReceived calls: %r" % (inside, outside, calls)


def build():
  units = [
    Unit('C12/RegexList.__contains__', u_contains, [RL + '.__contains__'], expect_covers=['contains/returns']),
    Unit('C12/RegexList.__bool__', u_bool, [RL + '.__nonzero__'], expect_covers=['bool/returns']),
    Unit('C12/RegexList.read_list', u_read_list, [RL + '.read_list'],
         expect_covers=['read_list/returns', 'read_list/line_done', 'read_list/file_read']),
    Unit('C12/metricReceived', u_metric_received, [MR + '.metricReceived', RL + '.__contains__', RL + '.__nonzero__'],
         expect_covers=['metricReceived/returns', 'metricReceived/admitted'], replay=replay_mr),
  ]
  return Property(
    'C12', units,
    bounded=[Bounded('C12/native/admission_cross_check', 'replay/receivers_native.py', ['--what', 'c12', '--n', '300'], ['--what', 'c12', '--n', '20000'],
                     "300 (quick) / 20000 (thorough) seeded random (whitelist file, blacklist file, resolution) triples from 9 regex sets (empty, comments, blank and invalid lines) x resolutions 0/1/10/60, each with 12 (name, timestamp, value) draws from 10 names x 16 timestamps (incl. -1, -1.0, -1.5, -3.5, fractional, boundary values) x 7 values (incl. NaN, +-inf, 2**60) on the real line, UDP and pickle listeners with a fake clock, against an independent oracle",
                     "re.compile / re.search and the str primitives of read_list are uninterpreted in the proof (A-STR); this runs files, regexes and listeners together on CPython")],
    syntactic=[Syntactic('C12/callsites/only_through_metricReceived', only_through_metric_received,
                         'the line, UDP and pickle receivers dispatch only via MetricReceiver.metricReceived (one call each, no override)')],
    trusted_base=['A-ENGINE', 'A-SMT', 'A-REAL', 'A-CLOCK', 're.search uninterpreted'],
    assumptions=[
      "regex.search(name) is an uninterpreted predicate (Python's re is not modelled; C12 is about which datapoints are filtered given which patterns match)",
      "timestamp is a finite float here; NaN/inf timestamps are C11's exception-freedom obligations",
      "floats are tagged reals (nan, +inf, -inf as tags); int() truncates toward zero; MIN_TIMESTAMP_RESOLUTION is an integer >= 0",
      "RegexList.read_list (file parsing) is not under contract: the compiled list is an arbitrary sequence of patterns",
    ])


def replay_mr(model, ob):
  import json
  from pyvc.runner import run_native
  from .common import model_real
  vals = {}
  for k in ('ts', 'val', 'MIN_TIMESTAMP_RESOLUTION'):
    for name in model:
      if name.split('!')[0] == k:
        v = model_real(model, name)
        if v is not None:
          vals[k] = str(v)
  for k in ('val.kind',):
    for name in model:
      if name.split('!')[0] == k:
        vals[k] = model[name]
  vals['obligation'] = ob.label
  rc, out, err = run_native('replay/c12_replay.py', [json.dumps(vals)])
  for line in out.splitlines():
    if line.startswith('REPLAY-RESULT '):
      return json.loads(line[len('REPLAY-RESULT '):])
  return {'replay_error': (err or out)[-600:], 'input': vals}
