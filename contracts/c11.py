"""C11 -- malformed input is skipped without harming the connection or its neighbours.

Exception-freedom plus a frame condition (DESIGN.md 5/C11): for every argument value no path
through lineReceived / datagramReceived / stringReceived / metricReceived ends in an uncaught
exception; a malformed item produces no dispatch and a well-formed item next to it is dispatched
exactly as in C01 (per-item loop contracts).  Only Twisted's own length limits close a connection
(A-TWISTED-FRAMING).
"""
from pyvc.runner import Unit, Property, Bounded
from . import proto_units as PU


def units():
  return [
    Unit('protocols.MetricLineReceiver.lineReceived', PU.u_line_received, [PU.LINE_R + '.lineReceived', PU.PM.MR + '.metricReceived'],
         expect_covers=['lineReceived/ends', 'lineReceived/wellformed', 'lineReceived/malformed'], replay=replay),
    Unit('protocols.MetricDatagramReceiver.datagramReceived', PU.u_datagram_received,
         [PU.UDP_R + '.datagramReceived', PU.PM.MR + '.metricReceived'],
         expect_covers=['datagramReceived/ends', 'datagram/line_done', 'datagram/wellformed_line'], replay=replay),
    Unit('protocols.MetricPickleReceiver.stringReceived', PU.u_string_received,
         [PU.PICKLE_R + '.stringReceived', PU.PM.MR + '.metricReceived'],
         expect_covers=['stringReceived/ends', 'pickle/entry_done', 'pickle/wellformed_entry'], replay=replay),
    Unit('protocols.MetricReceiver.metricReceived[any]', PU.u_metric_received_any, [PU.PM.MR + '.metricReceived'],
         expect_covers=['metricReceived/ends', 'metricReceived/wellformed'], replay=replay),
    Unit('events.Event.__call__', PU.u_event_call, ['carbon.events:Event.__call__'],
         expect_covers=['event/ends', 'event/handler_done']),
  ]


def replay(model, ob):
  import json
  from pyvc.runner import run_native
  rc, out, err = run_native('replay/c11_native.py', [json.dumps({'clause': ob.label})], timeout=600)
  for line in out.splitlines():
    if line.startswith('REPLAY-RESULT '):
      return json.loads(line[len('REPLAY-RESULT '):])
  return {'replay_error': (err or out)[-600:]}


def build():
  return Property(
    'C11', units(),
    bounded=[Bounded('C11/native/malformed_input_cross_check', 'replay/receivers_native.py', ['--what', 'c11', '--n', '400'], ['--what', 'c11', '--n', '30000'],
                     "400 (quick) / 30000 (thorough) seeded random streams: 1..4 well-formed datapoints with 1..3 malformed lines from a table of 18 (invalid UTF-8 incl. surrogates and truncated sequences, field counts 0/1/2/4, unparsable and non-finite numbers, NUL, 500 bytes of garbage) in between, 13 malformed pickle frames and 31 malformed entry shapes (wrong arity, wrong element types, tuple / list / dict / bytes names, huge ints, nan / inf) inside and between good frames, random segmentation, MIN_TIMESTAMP_RESOLUTION 0 / 10, plus byte-level mutations (flip / insert / delete) of valid line streams, datagrams and pickle bodies: no exception escapes, the transport is not closed, the well-formed neighbours arrive exactly as if the malformed item were absent",
                     "cross-check of the raise-contracts assumed for CPython's decode / split / float / int / pickle (A-STR, A-PICKLE) on real bytes; random, not exhaustive")],
    trusted_base=['A-ENGINE', 'A-SMT', 'A-STR', 'A-PICKLE', 'A-TWISTED-FRAMING'],
    assumptions=[
      "A-STR raise-contracts: bytes.decode('utf-8') raises only UnicodeDecodeError; 3-target unpack of split() raises ValueError iff the field count is not 3; float(text) raises ValueError iff the text has no float syntax and may return nan/+-inf; int(nan) raises ValueError, int(+-inf) OverflowError",
      "A-PICKLE: unpickler.loads may raise any Exception subclass or return any plain built-in object; float(obj) raises TypeError/ValueError/OverflowError or returns a float; a non-str object has no .encode; unpacking a non-2-sequence raises TypeError or ValueError",
      "A-TWISTED-FRAMING: handlers are invoked per complete frame; an exception escaping a handler would close the connection, which is why no_escape is the obligation; oversize frames are closed by Twisted itself",
      "log.* calls (dropped by the extraction) are assumed not to raise, including the formatting of their arguments",
    ])
