"""Harness for carbon.client (relay send queues): C07, C09 (relay side), C15.

Everything here runs on the reactor thread: single-threaded, so "all histories" is induction over
events; each method is verified from an arbitrary state satisfying the factory invariants.

A-TWISTED-DEFER (assumed): Deferred.callback(x) raises AlreadyCalledError when already called,
otherwise marks the deferred called and runs the registered callbacks synchronously, once, in
order (an exception in a callback is routed to the errback chain and logged, it does not escape
callback()); addCallbacks on a called deferred runs the callback at once; reactor.callLater(t, f)
returns a DelayedCall that is active until it fires or is cancelled.
"""
import z3

from pyvc.core import EngineError
from pyvc.interp import Interp, Spec, LoopSpec, OBJECT, PosReal
from pyvc.models import (Namespace, External, EffectLog, SymSeq, SymSet, TInt, TAtom, TTuple, TSort,
                         PyList)
from pyvc.values import (Atom, Model, ModelClass, PyObj, PyRaise, ExcVal, ExcClass, Builtin,
                         BoundMethod, Closure, RepoFunc)
from .common import Clock, pyobj

C = 'carbon.client'
FACTORY = C + ':CarbonClientFactory'
PROTO = C + ':CarbonClientProtocol'
DP = z3.DeclareSort('Datapoint')
TDP = TSort(DP)
TItem = TTuple(TAtom, TDP)
Item = TItem.sort
I_METRIC, I_DP = TItem.acc


class Deferred(Model):
  def __init__(self, log, name, called=False, callbacks=None):
    self.log = log
    self.name = name
    self.called = called          # python bool or z3 Bool
    self.callbacks = list(callbacks or [])
    self.result = None
    self.fired_with = []

  def py_getattr(self, ip, name):
    if name == 'called':
      return self.called
    return Model.py_getattr(self, ip, name)

  def py_callback(self, ip, result):
    c = self.called if z3.is_expr(self.called) else z3.BoolVal(bool(self.called))
    if ip.ctx.branch(c, '%s.called' % self.name):
      self.log.add('AlreadyCalledError', (self.name,))
      raise PyRaise(ExcVal('AlreadyCalledError', (self.name,)))
    self.called = True
    self.result = result
    self.fired_with.append(result)
    self.log.add('deferred.callback', (self.name, result))
    ip.note_write(self, 'called')
    for (cb, eb) in list(self.callbacks):
      self._run(ip, cb)

  def _run(self, ip, cb):
    try:
      self.result = ip.call(cb, [self.result])
    except PyRaise as e:
      # Twisted wraps the exception in a Failure and continues down the errback chain
      self.log.add('deferred.callback_failed', (self.name, e.exc))

  def py_addCallbacks(self, ip, cb, eb=None, **kw):
    self.callbacks.append((cb, eb))
    ip.note_write(self, 'callbacks')
    c = self.called if z3.is_expr(self.called) else z3.BoolVal(bool(self.called))
    if ip.ctx.branch(c, '%s.called' % self.name):
      self._run(ip, cb)
    return self

  def py_addCallback(self, ip, cb, *a, **kw):
    return self.py_addCallbacks(ip, cb)


class DelayedCall(Model):
  def __init__(self, active, fn=None):
    self.active = active
    self.fn = fn

  def py_active(self, ip):
    return self.active

  def py___bool__(self, ip):
    return True


class ClientHarness(object):
  def __init__(self, ctx, index, connected=None, prefix=''):
    self.ctx = ctx
    self.index = index
    self.log = EffectLog()
    log = self.log
    B, I, R = z3.BoolSort(), z3.IntSort(), z3.RealSort()
    self.max_q = ctx.fresh(I, 'MAX_QUEUE_SIZE')
    self.per_msg = ctx.fresh(I, 'MAX_DATAPOINTS_PER_MESSAGE')
    self.low_pct = ctx.fresh(R, 'QUEUE_LOW_WATERMARK_PCT')
    self.hard_pct = ctx.fresh(R, 'MAX_QUEUE_SIZE_HARD_PCT')
    self.flow = ctx.fresh(B, 'USE_FLOW_CONTROL')
    ctx.assume(self.max_q >= 1)
    ctx.assume(self.per_msg >= 1)
    ctx.assume(z3.And(self.low_pct > 0, self.low_pct <= 1))
    ctx.assume(self.hard_pct >= 1)
    # client.py:37-41 (checked syntactically): module constants computed at import
    self.low = z3.ToReal(self.max_q) * self.low_pct
    self.hard = z3.If(self.flow, z3.ToReal(self.max_q) * self.hard_pct, z3.ToReal(self.max_q))
    self.dyn_router = ctx.fresh(B, 'DYNAMIC_ROUTER')
    self.max_retries = ctx.fresh(I, 'DYNAMIC_ROUTER_MAX_RETRIES')
    self.settings = Namespace('settings', {
      'MAX_QUEUE_SIZE': self.max_q, 'MAX_DATAPOINTS_PER_MESSAGE': self.per_msg,
      'QUEUE_LOW_WATERMARK_PCT': self.low_pct, 'MAX_QUEUE_SIZE_HARD_PCT': self.hard_pct,
      'USE_FLOW_CONTROL': self.flow, 'TIME_TO_DEFER_SENDING': ctx.fresh(R, 'TIME_TO_DEFER_SENDING'),
      'USE_RATIO_RESET': ctx.fresh(B, 'USE_RATIO_RESET'), 'DESTINATION_POOL_REPLICAS': False,
      'MIN_RESET_INTERVAL': ctx.fresh(R, 'MIN_RESET_INTERVAL'), 'MIN_RESET_STAT_FLOW': ctx.fresh(R, 'MIN_RESET_STAT_FLOW'),
      'MIN_RESET_RATIO': ctx.fresh(R, 'MIN_RESET_RATIO'),
      'DYNAMIC_ROUTER': self.dyn_router, 'DYNAMIC_ROUTER_MAX_RETRIES': self.max_retries,
      'TCP_KEEPALIVE': False,
    }, item_access=True)
    self.queue = SymSeq(TItem, ctx.fresh(z3.SeqSort(Item), 'queue'), 'queue')
    self.instr = Namespace('instrumentation', {
      'increment': External('instrumentation.increment', log),
      'max': External('instrumentation.max', log),
      'prior_stats': Namespace('prior_stats', {'get': Builtin('get', lambda ip, a, k: 0)})})
    self.timers = []

    def call_later(ip, a, k):
      dc = DelayedCall(True, a[1])
      self.timers.append(dc)
      log.add('reactor.callLater', tuple(a[1:]))
      return dc
    self.reactor = Namespace('reactor', {'callLater': Builtin('callLater', call_later)})
    self.events = Namespace('events', {n: External('events.' + n, log) for n in (
      'cacheFull', 'cacheSpaceAvailable', 'pauseReceivingMetrics', 'resumeReceivingMetrics', 'metricGenerated')})
    self.state = Namespace('state', {'events': self.events})
    self.router_has = ctx.fresh(B, 'router.hasDestination')
    self.router_count = ctx.fresh(I, 'router.countDestinations')
    ctx.assume(self.router_count >= 0)
    hs = self

    class Router(Model):
      def py_hasDestination(s, ip, d):
        return hs.router_has

      def py_addDestination(s, ip, d):
        log.add('router.addDestination', (d,))
        hs.router_has = z3.BoolVal(True)

      def py_removeDestination(s, ip, d):
        log.add('router.removeDestination', (d,))
        hs.router_has = z3.BoolVal(False)
        hs.router_count = hs.router_count - 1

      def py_countDestinations(s, ip):
        return hs.router_count
    self.router = Router()
    qf_called = ctx.fresh(B, 'queueFull.called')
    qs_called = ctx.fresh(B, 'queueHasSpace.called')
    self.destination = (ctx.fresh(Atom, 'host'), ctx.fresh(I, 'port'), ctx.fresh(Atom, 'instance'))
    self.factory = pyobj(index, FACTORY, {
      'queue': self.queue, 'destination': self.destination, 'router': self.router,
      'destinationName': 'dest', 'attemptedRelays': 'attemptedRelays', 'fullQueueDrops': 'fullQueueDrops',
      'queuedUntilConnected': 'queuedUntilConnected', 'relayMaxQueueLength': 'relayMaxQueueLength',
      'started': True, 'retries': ctx.fresh(I, 'retries'),
    }, name='factory')
    f = self.factory
    self.queueFull = Deferred(log, 'queueFull', qf_called, [(self.bm('queueFullCallback'), None)])
    self.queueHasSpace = Deferred(log, 'queueHasSpace', qs_called, [(self.bm('queueSpaceCallback'), None)])
    self.queueEmpty = Deferred(log, 'queueEmpty', False, [])
    f.fields.update({'queueFull': self.queueFull, 'queueHasSpace': self.queueHasSpace, 'queueEmpty': self.queueEmpty,
                     'connectionMade': Deferred(log, 'connectionMade', False, [(self.bm('clientConnectionMade'), None)]),
                     'connectionLost': Deferred(log, 'connectionLost', False, []),
                     'connectFailed': Deferred(log, 'connectFailed', False, [])})
    pend = ctx.choose(3, 'deferSendPending')
    f.fields['deferSendPending'] = None if pend == 0 else DelayedCall(z3.BoolVal(True) if pend == 1 else z3.BoolVal(False))
    self.pending0 = pend == 1
    self.sent_lines = []
    self.sent_strings = []
    transport = Namespace('transport', {
      'registerProducer': External('transport.registerProducer', log),
      'unregisterProducer': External('transport.unregisterProducer', log),
      'loseConnection': External('transport.loseConnection', log)})
    if connected is None:
      connected = ctx.choose(2, 'connected') == 1
    self.connected = connected
    self.paused = ctx.fresh(B, 'paused')
    self.protocol = None
    if connected:
      self.protocol = pyobj(index, PROTO, {
        'factory': f, 'paused': self.paused, 'connected': True, 'transport': transport,
        'sent': 'sent', 'batchesSent': 'batchesSent', 'queuedUntilReady': 'queuedUntilReady',
        'slowConnectionReset': 'slowConnectionReset', 'destinationName': 'dest', 'lastResetTime': z3.RealVal(0),
      }, name='protocol')
    f.fields['connectedProtocol'] = self.protocol
    recon = ModelClass('ReconnectingClientFactory', methods={
      'clientConnectionLost': lambda ip, selfobj, connector, reason: log.add('Reconnecting.clientConnectionLost'),
      'clientConnectionFailed': lambda ip, selfobj, connector, reason: log.add('Reconnecting.clientConnectionFailed'),
      'resetDelay': lambda ip, selfobj: log.add('resetDelay'),
      'stopTrying': lambda ip, selfobj: log.add('stopTrying')})
    self.bindings = {C: {
      'settings': self.settings, 'instrumentation': self.instr, 'reactor': self.reactor, 'state': self.state,
      'SEND_QUEUE_LOW_WATERMARK': self.low, 'SEND_QUEUE_HARD_MAX': self.hard,
      'Deferred': Builtin('Deferred', lambda ip, a, k: Deferred(log, 'new', False, [])),
      'DeferredList': Builtin('DeferredList', lambda ip, a, k: Deferred(log, 'list', False, [])),
      'ReconnectingClientFactory': recon, 'with_metaclass': Builtin('with_metaclass', lambda ip, a, k: recon),
      'PluginRegistrar': None, 'time': Clock(ctx).builtin_time(),
      'enableTcpKeepAlive': Builtin('enableTcpKeepAlive', lambda ip, a, k: None),
      'LineOnlyReceiver': ModelClass('LineOnlyReceiver', methods={
        'sendLine': lambda ip, selfobj, line: (self.sent_lines.append(line), log.add('transport.write', ('line',)))[0]}),
      'Int32StringReceiver': ModelClass('Int32StringReceiver', methods={
        'sendString': lambda ip, selfobj, s: (self.sent_strings.append(s), log.add('transport.write', ('string',)))[0]}),
      'log': Namespace('log', {n: Builtin('log.' + n, lambda ip, a, k: None) for n in ('err', 'clients', 'msg', 'debug')}),
      'pickle': Namespace('pickle', {'dumps': Builtin('dumps', lambda ip, a, k: ('pickle.dumps', a[0], k.get('protocol')))}),
    }}
    self.ip = Interp(ctx, index, bindings=self.bindings)
    self.ip.label_prefix = prefix
    self.ip.ext['str_format'] = lambda ip2, fmt, args: ('fmt', fmt, tuple(args))
    # connection-quality resets (USE_RATIO_RESET): at call sites the verdict of the monitor is an
    # arbitrary boolean (contract verified by unit client.connectionQualityMonitor: pure query)
    self.ip.specs[PROTO + '.connectionQualityMonitor'] = Spec(
      PROTO + '.connectionQualityMonitor', lambda ip2, args, kwargs: ctx.fresh(B, 'quality_is_good'))
    self.ip.ext[('gen_out', FACTORY + '.takeSomeFromQueue.yield_max_datapoints')] = lambda ip2: SymSeq.empty(TItem, 'batch')

  def no_monitor_spec(self):
    self.ip.specs.pop(PROTO + '.connectionQualityMonitor', None)

  def bm(self, name):
    return BoundMethod(self.factory, RepoFunc(self.index.func(FACTORY + '.' + name)))

  def qlen(self):
    return self.queue.length()


def install_take_loop(h):
  """loop contract of yield_max_datapoints: k items popped from the left so far"""
  Q = FACTORY + '.takeSomeFromQueue.yield_max_datapoints'
  old = {}

  def pre(fr):
    old['q'] = h.queue.term

  def inv(fr):
    k = fr.loop_k[0]
    out = fr.gen_out
    return [('taken_is_prefix', out.term == z3.SubSeq(old['q'], 0, k)),
            ('rest_is_suffix', h.queue.term == z3.SubSeq(old['q'], k, z3.Length(old['q']) - k)),
            ('k_le_len', k <= z3.Length(old['q']))]

  def havoc(fr):
    fr.gen_out.havoc(h.ip, 'batch')
    h.queue.havoc(h.ip, 'queue')
  h.ip.loops[(Q, 0)] = LoopSpec('for _ in range(', inv, havoc, ghost_pre=pre, locals_modified=[])
  h.take_old = old
  # the same contract for the loop written directly in takeSomeFromQueue, collecting into a list
  # local (whatever its name: the one local that is an empty list when the loop is entered)
  Q2 = FACTORY + '.takeSomeFromQueue'
  st = {}

  def out2(fr):
    if 'name' not in st:
      cands = [k for k, v in fr.locals.items() if isinstance(v, PyList) and not v.items]
      if len(cands) != 1:
        raise EngineError("takeSomeFromQueue: cannot identify the batch under construction (%r)" % (cands,))
      st['name'] = cands[0]
    v = fr[st['name']]
    if isinstance(v, PyList):
      v = v.to_symseq(h.ip, TItem)
      v.name = 'batch'
      fr.locals[st['name']] = v
    return v

  def pre2(fr):
    old['q'] = h.queue.term
    out2(fr)

  def inv2(fr):
    k = fr.loop_k[0]
    return [('taken_is_prefix', out2(fr).term == z3.SubSeq(old['q'], 0, k)),
            ('rest_is_suffix', h.queue.term == z3.SubSeq(old['q'], k, z3.Length(old['q']) - k)),
            ('k_le_len', k <= z3.Length(old['q']))]

  def havoc2(fr):
    out2(fr).havoc(h.ip, 'batch')
    h.queue.havoc(h.ip, 'queue')
  h.ip.loops[(Q2, 0)] = LoopSpec('for _ in range(', inv2, havoc2, ghost_pre=pre2, locals_modified=[])


def take_post(old_q, per_msg, batch_term, new_q):
  """result = old[:min(N, len)], queue' = old[len(result):]"""
  n = z3.Length(old_q)
  k = z3.If(per_msg <= n, per_msg, n)
  return [('prefix', batch_term == z3.SubSeq(old_q, 0, k)),
          ('rest', new_q == z3.SubSeq(old_q, k, n - k))]


def take_spec(h):
  """contract of takeSomeFromQueue at call sites (proved by the takeSomeFromQueue unit)"""
  def apply(ip, args, kw):
    old_q = h.queue.term
    batch = SymSeq.fresh(ip, TItem, 'batch')
    newq = ip.ctx.fresh(z3.SeqSort(Item), 'queue')
    for _, f in take_post(old_q, h.per_msg, batch.term, newq):
      ip.ctx.assume(f)
    ip.ctx.assume(batch.length() == z3.If(h.per_msg <= z3.Length(old_q), h.per_msg, z3.Length(old_q)))
    ip.ctx.assume(z3.Length(newq) == z3.Length(old_q) - batch.length())
    h.queue.set_term(ip, newq)
    h.taken = (old_q, batch)
    return batch
  return Spec(FACTORY + '.takeSomeFromQueue', apply)
