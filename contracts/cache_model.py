"""Abstract view of carbon.cache._MetricCache (a defaultdict(dict) subclass) and the harness
around it.

View:   data : Map[Atom, IM]   with IM = (ikeys: Real -> Bool, ivals: Real -> Val, icard: Int)
        card  = number of metrics (ghost), total = sum of icard over the metrics (ghost)
        size  = the real attribute `self.size`
Lock invariant I_cache:  size == total   (plus well-formedness facts that are theorems about
finite dicts and are therefore assumed, not proved: icard >= 0, icard == 0 <=> no ikeys, ...).

`defaultdict.__getitem__` inserts an empty dict on a miss; `in`, `.get`, `defaultdict.pop` do not.
"""
import z3

from pyvc.core import EngineError
from pyvc.interp import Interp, Spec, PosReal
from pyvc.models import (Ty, Namespace, External, EffectLog, Lock, SymSeq, SymMap, TReal, TAtom, TVal,
                         TTuple, TInt, TSort)
from pyvc.values import Atom, Val, Model, ModelClass, PyObj, ExcVal, PyRaise, Builtin, INF
from .common import Clock, pyobj

R = z3.RealSort()
IM = z3.Datatype('IM')
IM.declare('mkIM', ('ikeys', z3.ArraySort(R, z3.BoolSort())), ('ivals', z3.ArraySort(R, Val)),
           ('icard', z3.IntSort()))
IM = IM.create()
TIM = TSort(IM)
EMPTY_IM = IM.mkIM(z3.K(R, z3.BoolVal(False)), z3.K(R, z3.Const('val0', Val)), z3.IntVal(0))


def im_wf_facts(im, ctx, name='im'):
  """theorems about one finite inner dict"""
  t = z3.Real('t?')
  wit = ctx.fresh(R, name + '.wit')
  return [IM.icard(im) >= 0,
          z3.ForAll([t], z3.Implies(z3.Select(IM.ikeys(im), t), IM.icard(im) >= 1)),
          z3.Or(IM.icard(im) == 0, z3.Select(IM.ikeys(im), wit))]


class CacheData(Model):
  """The dict part of the cache."""
  shared = False

  def __init__(self, ctx, hint='data'):
    self.ctx = ctx
    self.name = hint
    self.birth = 0
    self.fresh_state(ctx, hint)

  def fresh_state(self, ctx, hint):
    self.keys = ctx.fresh(z3.ArraySort(Atom, z3.BoolSort()), hint + '.keys')
    self.inner = ctx.fresh(z3.ArraySort(Atom, IM), hint + '.inner')
    self.card = ctx.fresh(z3.IntSort(), hint + '.card')
    self.total = ctx.fresh(z3.IntSort(), hint + '.total')
    self.emit_facts(ctx)

  def snapshot(self):
    s = object.__new__(CacheData)
    s.__dict__.update(self.__dict__)
    return s

  def emit_facts(self, ctx):
    m = z3.Const('m?', Atom)
    t = z3.Real('t?')
    wit = ctx.fresh(Atom, self.name + '.wit')
    keys, inner, card, total = self.keys, self.inner, self.card, self.total
    for f in [
      card >= 0, total >= 0,
      z3.ForAll([m], z3.Implies(z3.Select(keys, m), card >= 1)),
      z3.Or(card == 0, z3.Select(keys, wit)),
      z3.Implies(card == 0, total == 0),
      # every inner dict is a finite dict, and its size is part of the total
      z3.ForAll([m], z3.Implies(z3.Select(keys, m),
                                z3.And(IM.icard(z3.Select(inner, m)) >= 0,
                                       IM.icard(z3.Select(inner, m)) <= total))),
      z3.ForAll([m, t], z3.Implies(z3.And(z3.Select(keys, m),
                                          z3.Select(IM.ikeys(z3.Select(inner, m)), t)),
                                   IM.icard(z3.Select(inner, m)) >= 1)),
    ]:
      ctx.assume(f)

  def havoc(self, ip, hint=None):
    self.fresh_state(ip.ctx, hint or self.name)
    ip.note_write(self)

  # --- primitive updates ----------------------------------------------------------------------
  def set_inner(self, ip, m, im):
    """data[m] = im (m may or may not be present)"""
    ctx = ip.ctx
    present = z3.Select(self.keys, m)
    old = z3.Select(self.inner, m)
    ncard = ctx.fresh(z3.IntSort(), self.name + '.card')
    ntotal = ctx.fresh(z3.IntSort(), self.name + '.total')
    ctx.assume(ncard == self.card + z3.If(present, 0, 1))
    ctx.assume(ntotal == self.total - z3.If(present, IM.icard(old), 0) + IM.icard(im))
    self.keys = z3.Store(self.keys, m, z3.BoolVal(True))
    self.inner = z3.Store(self.inner, m, im)
    self.card, self.total = ncard, ntotal
    ip.note_write(self)
    self.emit_facts(ctx)

  def remove(self, ip, m):
    ctx = ip.ctx
    present = z3.Select(self.keys, m)
    old = z3.Select(self.inner, m)
    ncard = ctx.fresh(z3.IntSort(), self.name + '.card')
    ntotal = ctx.fresh(z3.IntSort(), self.name + '.total')
    ctx.assume(ncard == self.card - z3.If(present, 1, 0))
    ctx.assume(ntotal == self.total - z3.If(present, IM.icard(old), 0))
    self.keys = z3.Store(self.keys, m, z3.BoolVal(False))
    self.card, self.total = ncard, ntotal
    ip.note_write(self)
    self.emit_facts(ctx)

  # --- dict API (reached through the defaultdict model class) ---------------------------------
  def py___contains__(self, ip, m):
    if not (isinstance(m, str) or (z3.is_expr(m) and m.sort() == Atom)):
      return False
    return z3.Select(self.keys, TAtom.enc(ip, m))

  def py___len__(self, ip):
    return self.card

  def py___bool__(self, ip):
    return self.card > 0

  def py___getitem__(self, ip, m):
    m = TAtom.enc(ip, m)
    if not ip.ctx.branch(z3.Select(self.keys, m), 'metric in cache'):
      # defaultdict.__missing__: insert the default
      self.set_inner(ip, m, EMPTY_IM)
    return InnerProxy(self, m)

  def py_get(self, ip, m, default=None):
    m = TAtom.enc(ip, m)
    if ip.ctx.branch(z3.Select(self.keys, m), 'metric in cache'):
      return InnerProxy(self, m)
    return default

  def py___setitem__(self, ip, m, value):
    from pyvc.interp import DictLit
    m = TAtom.enc(ip, m)
    if isinstance(value, DictLit):
      im = EMPTY_IM
      for k, v in value.items.items():
        ts = TReal.enc(ip, k)
        im = IM.mkIM(z3.Store(IM.ikeys(im), ts, z3.BoolVal(True)), z3.Store(IM.ivals(im), ts, TVal.enc(ip, v)),
                     IM.icard(im) + z3.If(z3.Select(IM.ikeys(im), ts), 0, 1))
    elif isinstance(value, SymMap):
      im = IM.mkIM(value.keys, value.vals, value.card)
    elif isinstance(value, InnerProxy):
      im = value.im()
    else:
      raise EngineError("cache[m] = %r" % (value,))
    self.set_inner(ip, m, im)

  def py_pop(self, ip, m):
    m = TAtom.enc(ip, m)
    if not ip.ctx.branch(z3.Select(self.keys, m), 'metric in cache'):
      raise PyRaise(ExcVal('KeyError', (m,)))
    im = z3.Select(self.inner, m)
    self.remove(ip, m)
    d = SymMap(TReal, TVal, IM.ikeys(im), IM.ivals(im), IM.icard(im), 'popped')
    d.birth = ip.ctx.counter
    for f in im_wf_facts(im, ip.ctx, 'popped'):
      ip.ctx.assume(f)
    return d

  def py___delitem__(self, ip, m):
    m = TAtom.enc(ip, m)
    if not ip.ctx.branch(z3.Select(self.keys, m), 'metric in cache'):
      raise PyRaise(ExcVal('KeyError', (m,)))
    self.remove(ip, m)

  def keys_seq(self, ip):
    s = SymSeq.fresh(ip, TAtom, 'metrics')
    idx = z3.Function(ip.ctx.fresh_name('midx'), Atom, z3.IntSort())
    i, j = z3.Int('i?'), z3.Int('j?')
    m = z3.Const('m?', Atom)
    n = s.length()
    for f in [n == self.card,
              z3.ForAll([i], z3.Implies(z3.And(0 <= i, i < n), z3.Select(self.keys, s.term[i]))),
              z3.ForAll([i, j], z3.Implies(z3.And(0 <= i, i < j, j < n), s.term[i] != s.term[j])),
              z3.ForAll([m], z3.Implies(z3.Select(self.keys, m),
                                        z3.And(0 <= idx(m), idx(m) < n, s.term[idx(m)] == m)))]:
      ip.ctx.assume(f)
    return s

  def py_keys(self, ip):
    return self.keys_seq(ip)

  def as_symseq(self, ip):
    return self.keys_seq(ip)

  def py___iter__(self, ip):
    return KeyIter(self)

  def py_items(self, ip):
    return CacheItems(self)


class KeyIter(Model):
  """iter(cache): next() yields some present key (arbitrary order); StopIteration when empty."""
  def __init__(self, data):
    self.data = data
    self.used = False

  def py___next__(self, ip):
    if self.used:
      raise EngineError("second next() on cache iterator")
    self.used = True
    d = self.data
    if ip.ctx.branch(d.card == 0, 'cache empty'):
      raise PyRaise(ExcVal('StopIteration', ()))
    k = ip.ctx.fresh(Atom, 'somekey')
    ip.ctx.assume(z3.Select(d.keys, k))
    return k


class CacheItems(Model):
  """cache.items(): consumed by counts / watermarks / MaxStrategy through their contracts; a
  comprehension over it is a comprehension over the key list with each key paired with a live view
  of its inner dict."""
  def __init__(self, data):
    self.data = data

  def py_listcomp(self, ip, node, fr):
    ks = self.data.keys_seq(ip)
    pairs = SymSeq(_TItemRef(self.data), ks.term, 'items')
    pairs.birth = ip.ctx.counter
    out = pairs.py_listcomp(ip, node, fr)
    out.keys_of_items = ks
    return out


class _TItemRef(Ty):
  """element type of cache.items(): a key, decoded as the pair (key, view of data[key])"""
  sort = Atom

  def __init__(self, data):
    self.data = data

  def dec(self, term):
    return (term, InnerProxy(self.data, term))

  def enc(self, ip, v):
    return v[0] if isinstance(v, tuple) else v


class InnerProxy(Model):
  """The dict object stored at data[m] (reference semantics: writes go through to the cache)."""
  def __init__(self, data, m):
    self.data = data
    self.m = m

  def im(self):
    return z3.Select(self.data.inner, self.m)

  def py___contains__(self, ip, ts):
    return z3.Select(IM.ikeys(self.im()), TReal.enc(ip, ts))

  def py___len__(self, ip):
    return IM.icard(self.im())

  def py___bool__(self, ip):
    return IM.icard(self.im()) > 0

  def py___getitem__(self, ip, ts):
    ts = TReal.enc(ip, ts)
    if ip.ctx.branch(z3.Select(IM.ikeys(self.im()), ts), 'ts present'):
      return z3.Select(IM.ivals(self.im()), ts)
    raise PyRaise(ExcVal('KeyError', (ts,)))

  def py_get(self, ip, ts, default=None):
    ts = TReal.enc(ip, ts)
    if ip.ctx.branch(z3.Select(IM.ikeys(self.im()), ts), 'ts present'):
      return z3.Select(IM.ivals(self.im()), ts)
    return default

  def py___setitem__(self, ip, ts, v):
    ts = TReal.enc(ip, ts)
    v = TVal.enc(ip, v)
    im = self.im()
    present = z3.Select(IM.ikeys(im), ts)
    new = IM.mkIM(z3.Store(IM.ikeys(im), ts, z3.BoolVal(True)), z3.Store(IM.ivals(im), ts, v),
                  IM.icard(im) + z3.If(present, 0, 1))
    self.data.set_inner(ip, self.m, new)

  def detached(self, ip):
    im = self.im()
    d = SymMap(TReal, TVal, IM.ikeys(im), IM.ivals(im), IM.icard(im), 'inner')
    for f in im_wf_facts(im, ip.ctx, 'inner'):
      ip.ctx.assume(f)
    return d

  def py_items(self, ip):
    return self.detached(ip).items_seq(ip)

  def py_keys(self, ip):
    return self.detached(ip).keys_seq(ip)


def _dd(name):
  def f(ip, selfobj, *args, **kw):
    return getattr(selfobj.base, 'py_' + name)(ip, *args, **kw)
  return f


DEFAULTDICT = ModelClass('defaultdict', methods={n: _dd(n) for n in (
  '__getitem__', '__setitem__', '__contains__', '__len__', '__bool__', 'get', 'pop', '__delitem__', 'keys', 'items',
  '__iter__')})


class Harness(object):
  """Symbolic pre-state for the functions of carbon.cache (and their callers)."""

  def __init__(self, ctx, index, strategy='none', bounded=None, specs=None, loops=None):
    self.ctx = ctx
    self.index = index
    self.log = EffectLog()
    self.clock = Clock(ctx)
    self.data = CacheData(ctx)
    self.size = ctx.fresh(z3.IntSort(), 'size')
    self.new_metrics = SymSeq(TAtom, ctx.fresh(z3.SeqSort(Atom), 'new_metrics'), 'new_metrics')
    self.lock = Lock()
    # settings: MAX_CACHE_SIZE is inf or a positive number; conf.py:300-304 derives the others
    self.max_inf = ctx.fresh(z3.BoolSort(), 'MAX_is_inf')
    self.max = ctx.fresh(R, 'MAX_CACHE_SIZE')
    self.flow = ctx.fresh(z3.BoolSort(), 'USE_FLOW_CONTROL')
    ctx.assume(self.max >= 1)
    self.hard = z3.If(self.flow, self.max * z3.RealVal('1.05'), self.max)
    self.low = self.max * z3.RealVal('0.95')
    self.settings = Namespace('settings', {
      'MAX_CACHE_SIZE': PosReal(self.max_inf, self.max),
      'CACHE_SIZE_HARD_MAX': PosReal(self.max_inf, self.hard),
      'CACHE_SIZE_LOW_WATERMARK': PosReal(self.max_inf, self.low),
      'USE_FLOW_CONTROL': self.flow,
      'LOG_CACHE_QUEUE_SORTS': ctx.fresh(z3.BoolSort(), 'LOG_CACHE_QUEUE_SORTS'),
      'MIN_TIMESTAMP_LAG': ctx.fresh(R, 'MIN_TIMESTAMP_LAG'),
    }, item_access=True)
    ctx.assume(self.settings.attrs['MIN_TIMESTAMP_LAG'] >= 0)
    self.state = Namespace('state', {'cacheTooFull': ctx.fresh(z3.BoolSort(), 'cacheTooFull')},
                           shared=False)
    hs = self

    def set_flag(v):
      def ret(ip, args, kw):
        hs.state.attrs['cacheTooFull'] = z3.BoolVal(v)
        ip.note_write(hs.state, 'cacheTooFull')
      return ret
    self.events = Namespace('events', {
      'cacheOverflow': External('events.cacheOverflow', self.log),
      'cacheFull': External('events.cacheFull', self.log, ret=set_flag(True)),
      'cacheSpaceAvailable': External('events.cacheSpaceAvailable', self.log, ret=set_flag(False)),
    })
    self.strategy_kind = strategy
    self.strategy = None
    self.cache = pyobj(index, 'carbon.cache:_MetricCache', {
      'lock': self.lock, 'size': self.size, 'new_metrics': self.new_metrics, 'strategy': None,
    }, name='cache', base=self.data)
    bindings = {'carbon.cache': {
      'settings': self.settings, 'state': self.state, 'events': self.events,
      'time': self.clock.module(), 'defaultdict': DEFAULTDICT,
      'threading': Namespace('threading', {}),
    }}
    self.ip = Interp(ctx, index, bindings=bindings, specs=specs, loops=loops)
    ip = self.ip

    def sorted_hook(ip, v, kw):
      # sorted(<dict>.items(), key=by_timestamp): carried by the generic sorted-of-sequence model
      return NotImplemented
    ip.ext['sorted'] = sorted_hook

  # --- invariants -----------------------------------------------------------------------------
  def I_cache(self):
    return [('size_exact', self.cache.fields['size'] == self.data.total)]

  def assume_I(self):
    for _, f in self.I_cache():
      self.ctx.assume(f)

  def install_lock_hooks(self, prefix, on_acquire=None, on_release=None, check_release=True):
    hs = self

    def acq(ip, lock):
      hs.assume_I()
      if on_acquire:
        on_acquire(ip)

    def rel(ip, lock):
      if check_release:
        for pre in (prefix if isinstance(prefix, (list, tuple)) else [prefix]):
          for l, f in hs.I_cache():
            ip.ctx.check("%s/I_cache/%s" % (pre, l), f, kind='lock_inv', assume_after=False)
        for l, f in hs.I_cache():
          ip.ctx.assume(f)
      if on_release:
        on_release(ip)
    self.ctx.hooks['lock_acquire'] = acq
    self.ctx.hooks['lock_release'] = rel


# ------------------------------------------------------------------------------------------------
# rely / guarantee (DESIGN.md 1.4)

def enable_rely_R(hs):
  """The function under contract runs on the writer thread W.  Between its atomic steps the
  reactor thread R may run any number of store() steps.  G_R* (proved of store in the
  C02/store/* and C09/store/* obligations): metrics and datapoints are only added (values of
  existing datapoints may be overwritten: last write wins), size and the number of metrics
  only grow, cacheTooFull may only turn True and only with size >= MAX_CACHE_SIZE, new_metrics
  only grows at its right end.  Outside lock regions W may observe R in the middle of a store,
  so I_cache is NOT part of the rely; it is assumed only when the lock is acquired."""
  ctx = hs.ctx
  hs.cache.shared = True
  hs.state.shared = True
  hs.new_metrics.shared = True
  hs.rely_steps = 0

  def rely(ip, obj):
    if getattr(hs, 'quiescent', False):
      return
    hs.rely_steps += 1
    d = hs.data
    old = d.snapshot()
    size0 = hs.cache.fields['size']
    flag0 = hs.state.attrs['cacheTooFull']
    nm0 = hs.new_metrics.term
    d.fresh_state(ctx, 'data')
    size1 = ctx.fresh(z3.IntSort(), 'size')
    flag1 = ctx.fresh(z3.BoolSort(), 'cacheTooFull')
    ext = ctx.fresh(z3.SeqSort(Atom), 'nm_ext')
    m = z3.Const('m?', Atom)
    t = z3.Real('t?')
    flag0b = flag0 if z3.is_expr(flag0) else z3.BoolVal(bool(flag0))
    for f in [
      z3.ForAll([m], z3.Implies(z3.Select(old.keys, m), z3.Select(d.keys, m))),
      z3.ForAll([m, t], z3.Implies(z3.And(z3.Select(old.keys, m),
                                          z3.Select(IM.ikeys(z3.Select(old.inner, m)), t)),
                                   z3.Select(IM.ikeys(z3.Select(d.inner, m)), t))),
      z3.ForAll([m], z3.Implies(z3.Select(old.keys, m),
                                IM.icard(z3.Select(d.inner, m)) >= IM.icard(z3.Select(old.inner, m)))),
      d.card >= old.card, d.total >= old.total, size1 >= size0,
      z3.Implies(flag0b, flag1),
      z3.Implies(z3.And(flag1, z3.Not(flag0b)), z3.And(z3.Not(hs.max_inf), z3.ToReal(size1) >= hs.max)),
    ]:
      ctx.assume(f)
    hs.cache.fields['size'] = size1
    hs.state.attrs['cacheTooFull'] = flag1
    hs.new_metrics.term = z3.Concat(nm0, ext)
  ctx.hooks['yield_point'] = rely
  hs.rely = rely


def enable_rely_W(hs):
  """The function under contract runs on the reactor thread R.  Between its atomic steps the
  writer thread W may run pop() / _check_available_space() steps.  G_W* (proved of pop in the
  C02/pop/* obligations): whole metrics are removed and the metrics that remain keep their
  datapoints; size only shrinks; cacheTooFull may only turn False; new_metrics loses elements at
  its left end.  I_cache is assumed only when the lock is acquired."""
  ctx = hs.ctx
  hs.cache.shared = True
  hs.state.shared = True
  hs.new_metrics.shared = True

  def rely(ip, obj):
    d = hs.data
    old = d.snapshot()
    size0 = hs.cache.fields['size']
    flag0 = hs.state.attrs['cacheTooFull']
    nm0 = hs.new_metrics.term
    d.fresh_state(ctx, 'data')
    size1 = ctx.fresh(z3.IntSort(), 'size')
    flag1 = ctx.fresh(z3.BoolSort(), 'cacheTooFull')
    drop = ctx.fresh(z3.IntSort(), 'nm_dropped')
    m = z3.Const('m?', Atom)
    flag0b = flag0 if z3.is_expr(flag0) else z3.BoolVal(bool(flag0))
    for f in [
      z3.ForAll([m], z3.Implies(z3.Select(d.keys, m),
                                z3.And(z3.Select(old.keys, m), z3.Select(d.inner, m) == z3.Select(old.inner, m)))),
      d.card <= old.card, d.total <= old.total, size1 <= size0,
      z3.Implies(flag1, flag0b),
      z3.And(0 <= drop, drop <= z3.Length(nm0)),
    ]:
      ctx.assume(f)
    hs.cache.fields['size'] = size1
    hs.state.attrs['cacheTooFull'] = flag1
    hs.new_metrics.term = z3.SubSeq(nm0, drop, z3.Length(nm0) - drop)
  ctx.hooks['yield_point'] = rely
  hs.rely = rely
