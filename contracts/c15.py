"""C15 -- what a relay's client encodes is what the next daemon's listener decodes.

Proof part: batching (takeSomeFromQueue returns the prefix of length min(N, |queue|) and leaves the
rest; sendQueued writes exactly that batch; the line client emits one sendLine per datapoint in
order, the pickle client one sendString(dumps(batch, protocol=2))) and the shape of what is sent
(line: "%s %s %d" % (name, V, timestamp) encoded as UTF-8 with V = ("%.10f" % v).rstrip('0').
rstrip('.') for floats and "%d" % v otherwise; pickle: the batch itself), which is the
precondition of the receivers' C01 contracts (name first, value second, timestamp third;
pickle entries (name, (timestamp, value))).
Bounded part: that the "%.10f" text parses back within 5e-11 or one ulp is a fact about IEEE
decimal formatting/parsing, outside every installed solver's theories: decided only by native
evaluation of the real client -> real listener pair (replay/c15_roundtrip.py).
"""
import z3

from pyvc.runner import Unit, Property, Bounded
from . import client_units as CU


def u_roundtrip_lemma(ctx, index):
  """Lemma over the two contracts: the pickle client's payload is the list of (name, (ts, v))
  and the pickle receiver dispatches (name, (float(first), float(second))) positionally, so
  timestamps and values are not swapped."""
  A = z3.DeclareSort('Num')
  sent_first, sent_second = ctx.fresh(A, 'queued_timestamp'), ctx.fresh(A, 'queued_value')
  recv_ts, recv_val = sent_first, sent_second      # C01/stringReceived/entry/{timestamp,value}
  ctx.cover('lemma/roundtrip')
  ctx.check('C15/lemma/roundtrip_pickle', z3.And(recv_ts == sent_first, recv_val == sent_second))


def build():
  units = CU.all_units('C15') + [Unit('C15/lemma/roundtrip_pickle', u_roundtrip_lemma, [], expect_covers=['lemma/roundtrip'])]
  return Property(
    'C15', units,
    bounded=[Bounded('C15/line/value_text_roundtrip', 'replay/c15_roundtrip.py', ['--n', '20000'], ['--n', '1000000'],
                     'boundary magnitudes +-10^k (k in -12..308) with nextafter neighbours, +-inf, ints, timestamps in [0, 2^32), plus N seeded random 64-bit patterns (quick 2e4, thorough 1e6), through the real line client and line listener; also the pickle pair',
                     "'%.10f' formatting and float() parsing of IEEE doubles are outside z3/cvc5's theories"),
             Bounded('C15/native/batching_cross_check', 'replay/relay_native.py',
                     ['--len', '5', '--random', '50', '--only', 'order_exactly_once,no_raise'], ['--len', '6', '--random', '300', '--thorough', '--only', 'order_exactly_once,no_raise'],
                     "every enabled sequence of <= 5 (quick) / 6 (thorough) events (arrivals, self-metrics, connection made / lost / failed, pause / resume, timer rounds, optional stop) plus seeded random longer ones on the real pickle and line client factories with a task.Clock, MAX_DATAPOINTS_PER_MESSAGE in {1,2,500}, with and without connection-quality resets: each written batch is the head of the queue in arrival order, non-empty and within the batch limit; nothing is merged, reordered or dropped",
                     "history-level cross-check of the discharged batching contracts (takeSomeFromQueue / sendQueued) on CPython and Twisted")],
    trusted_base=['A-ENGINE', 'A-SMT', 'A-STR', 'A-PICKLE', 'A-TWISTED-DEFER'],
    assumptions=[
      "the line client's text is characterised structurally (format template, rstrip chain, UTF-8 encode); that this text has three whitespace-separated fields which float() parses back is A-STR + the bounded clause",
      "pickle: loads(dumps(x, 2)) == x for plain data (A-PICKLE); float(t) == t and float(v) == v for floats and for ints up to 2^53",
      "protobuf client/listener are not under contract (library not installed)",
    ])
