"""Helpers shared by the per-property contract files."""
import z3

from pyvc.core import EngineError
from pyvc.interp import Interp, LoopSpec, Spec
from pyvc.models import (Namespace, External, EffectLog, Lock, SymSeq, SymMap, SymSet, PyList,
                         TInt, TReal, TBool, TAtom, TVal, TTuple, TSort)
from pyvc.values import (Atom, Val, Model, PyObj, ExcVal, SymExc, PyRaise, Builtin, INF, Inf,
                         ModelClass)


class Clock(Model):
  """A-CLOCK: time.time() is non-decreasing; time.sleep(d) returns after at least d."""
  def __init__(self, ctx, log=None, name='clock'):
    self.now = ctx.fresh(z3.RealSort(), 'now')
    self.log = log
    self.sleeps = []
    self.reads = []
    self.ghost = True

  def advance(self, ip):
    t = ip.ctx.fresh(z3.RealSort(), 'now')
    ip.ctx.assume(t >= self.now)
    self.now = t
    return t

  def time(self, ip, *a, **k):
    t = self.advance(ip)
    self.reads.append(t)
    if self.log is not None:
      self.log.add('time.time', (), 'ret', t)
    return t

  def sleep(self, ip, d, *a, **k):
    from pyvc.values import znum
    d = znum(d)
    if z3.is_int(d):
      d = z3.ToReal(d)
    self.sleeps.append((d, self.now))
    t = ip.ctx.fresh(z3.RealSort(), 'now')
    ip.ctx.assume(t >= self.now + d)
    ip.ctx.assume(t >= self.now)
    self.now = t
    if self.log is not None:
      self.log.add('time.sleep', (d,), 'ret', None)
    return None

  def builtin_time(self):
    return Builtin('time', lambda ip, args, kw: self.time(ip))

  def builtin_sleep(self):
    return Builtin('sleep', lambda ip, args, kw: self.sleep(ip, *args))

  def module(self):
    return Namespace('time', {'time': self.builtin_time(), 'sleep': self.builtin_sleep()})


def pyobj(index, cls_spec, fields, name=None, base=None):
  ci = index.cls(cls_spec)
  o = PyObj(ci, dict(fields), base=base, name=name or ci.name)
  return o


def labelled(prefix, pairs):
  return [("%s/%s" % (prefix, l), f) for (l, f) in pairs]


def model_real(model, name, default=None):
  """parse a z3 model value (sexpr string) for a Real/Int constant into a Fraction"""
  import fractions
  import re
  v = model.get(name)
  if v is None:
    return default
  v = v.strip()

  def parse(s):
    s = s.strip()
    m = re.match(r'^\(-\s+(.*)\)$', s)
    if m:
      return -parse(m.group(1))
    m = re.match(r'^\(/\s+(\S+)\s+(\S+)\)$', s)
    if m:
      return fractions.Fraction(parse(m.group(1))) / fractions.Fraction(parse(m.group(2)))
    return fractions.Fraction(s)
  try:
    return parse(v)
  except Exception:
    return default


# ------------------------------------------------------------------------------------------------
# IEEE floats with the non-finite values (tagged reals, DESIGN.md 1.3)

class FloatVal(Model):
  """kind: 0 finite (value r), 1 nan, 2 +inf, 3 -inf"""
  def __init__(self, kind, r):
    self.kind = kind
    self.r = r

  @staticmethod
  def fresh(ctx, hint='f', finite=False):
    k = ctx.fresh(z3.IntSort(), hint + '.kind')
    r = ctx.fresh(z3.RealSort(), hint)
    ctx.assume(z3.And(k >= 0, k <= 3))
    if finite:
      ctx.assume(k == 0)
    return FloatVal(k, r)

  @staticmethod
  def of(v):
    from pyvc.values import znum, Inf
    if isinstance(v, FloatVal):
      return v
    if isinstance(v, Inf):
      return FloatVal(z3.IntVal(2 if v.sign > 0 else 3), z3.RealVal(0))
    v = znum(v)
    if z3.is_int(v):
      v = z3.ToReal(v)
    return FloatVal(z3.IntVal(0), v)

  def is_nan(self):
    return self.kind == 1

  def is_finite(self):
    return self.kind == 0

  def py_isnan(self, ip):
    return self.kind == 1

  def py_isinf(self, ip):
    return z3.Or(self.kind == 2, self.kind == 3)

  def py_isfinite(self, ip):
    return self.kind == 0

  def same(self, o):
    """bit-for-bit identity as far as the tagged encoding distinguishes (nan == nan here)"""
    o = FloatVal.of(o)
    return z3.And(self.kind == o.kind, z3.Implies(self.kind == 0, self.r == o.r))

  def py___eq__(self, ip, o):
    try:
      o = FloatVal.of(o)
    except Exception:
      return False
    return z3.Or(z3.And(self.kind == 0, o.kind == 0, self.r == o.r),
                 z3.And(self.kind == 2, o.kind == 2), z3.And(self.kind == 3, o.kind == 3))

  def py___float__(self, ip):
    return self

  def is_float(self, ip):
    return True

  def py___int__(self, ip):
    if ip.ctx.branch(self.kind == 1, 'int(nan)'):
      raise PyRaise(ExcVal('ValueError', ('cannot convert float NaN to integer',)))
    if ip.ctx.branch(self.kind >= 2, 'int(inf)'):
      raise PyRaise(ExcVal('OverflowError', ('cannot convert float infinity to integer',)))
    return z3.If(self.r >= 0, z3.ToInt(self.r), -z3.ToInt(-self.r))

  def py_binop(self, ip, op, other, reflected):
    import ast
    o = other
    okind = o.kind if isinstance(o, FloatVal) else z3.IntVal(0)
    if ip.ctx.branch(z3.And(self.kind == 0, okind == 0), 'floats finite'):
      a, b = (other, self.r) if reflected else (self.r, other)
      if isinstance(a, FloatVal):
        a = a.r
      if isinstance(b, FloatVal):
        b = b.r
      from pyvc.values import znum
      a, b = znum(a), znum(b)
      if z3.is_int(a):
        a = z3.ToReal(a)
      if z3.is_int(b):
        b = z3.ToReal(b)
      return FloatVal(z3.IntVal(0), ip.binop(op, a, b))
    # a non-finite operand: // and % give nan; + - * give some non-finite value
    if isinstance(op, (ast.FloorDiv, ast.Mod)):
      return FloatVal(z3.IntVal(1), z3.RealVal(0))
    k = ip.ctx.fresh(z3.IntSort(), 'nonfinite.kind')
    ip.ctx.assume(z3.And(k >= 1, k <= 3))
    return FloatVal(k, z3.RealVal(0))

  def py_compare(self, ip, op, other, reflected):
    import ast
    o = FloatVal.of(other)
    a, b = (o, self) if reflected else (self, o)
    fin = z3.And(a.kind == 0, b.kind == 0)
    t = type(op)
    # ordering with nan is False; inf handled by rank
    def rank(x):
      return z3.If(x.kind == 3, z3.RealVal(-1), z3.If(x.kind == 2, z3.RealVal(1), z3.RealVal(0)))
    nonan = z3.And(a.kind != 1, b.kind != 1)
    lt = z3.And(nonan, z3.Or(z3.And(fin, a.r < b.r), z3.And(z3.Not(fin), rank(a) < rank(b))))
    eq = z3.And(nonan, z3.Or(z3.And(fin, a.r == b.r), z3.And(z3.Not(fin), a.kind == b.kind)))
    if t is ast.Lt:
      return lt
    if t is ast.LtE:
      return z3.Or(lt, eq)
    if t is ast.Gt:
      return z3.And(nonan, z3.Not(lt), z3.Not(eq))
    if t is ast.GtE:
      return z3.And(nonan, z3.Not(lt))
    from pyvc.core import EngineError
    raise EngineError("float compare")
