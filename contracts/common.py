"""Helpers shared by the per-property contract files."""
import z3

from pyvc.core import EngineError
from pyvc.interp import Interp, LoopSpec, Spec
from pyvc.models import (Namespace, External, EffectLog, Lock, SymSeq, SymMap, SymSet, PyList,
                         TInt, TReal, TBool, TAtom, TVal, TTuple, TSort)
from pyvc.values import (Atom, Val, Model, PyObj, ExcVal, SymExc, PyRaise, Builtin, INF, Inf,
                         ModelClass)


class Clock(Model):
  """A-CLOCK: time.time() is non-decreasing; time.sleep(d) returns after at least d."""
  def __init__(self, ctx, log=None, name='clock'):
    self.now = ctx.fresh(z3.RealSort(), 'now')
    self.log = log
    self.sleeps = []
    self.reads = []
    self.ghost = True

  def advance(self, ip):
    t = ip.ctx.fresh(z3.RealSort(), 'now')
    ip.ctx.assume(t >= self.now)
    self.now = t
    return t

  def time(self, ip, *a, **k):
    t = self.advance(ip)
    self.reads.append(t)
    if self.log is not None:
      self.log.add('time.time', (), 'ret', t)
    return t

  def sleep(self, ip, d, *a, **k):
    from pyvc.values import znum
    d = znum(d)
    if z3.is_int(d):
      d = z3.ToReal(d)
    self.sleeps.append((d, self.now))
    t = ip.ctx.fresh(z3.RealSort(), 'now')
    ip.ctx.assume(t >= self.now + d)
    ip.ctx.assume(t >= self.now)
    self.now = t
    if self.log is not None:
      self.log.add('time.sleep', (d,), 'ret', None)
    return None

  def builtin_time(self):
    return Builtin('time', lambda ip, args, kw: self.time(ip))

  def builtin_sleep(self):
    return Builtin('sleep', lambda ip, args, kw: self.sleep(ip, *args))

  def module(self):
    return Namespace('time', {'time': self.builtin_time(), 'sleep': self.builtin_sleep()})


def pyobj(index, cls_spec, fields, name=None, base=None):
  ci = index.cls(cls_spec)
  o = PyObj(ci, dict(fields), base=base, name=name or ci.name)
  return o


def labelled(prefix, pairs):
  return [("%s/%s" % (prefix, l), f) for (l, f) in pairs]


def model_real(model, name, default=None):
  """parse a z3 model value (sexpr string) for a Real/Int constant into a Fraction"""
  import fractions
  import re
  v = model.get(name)
  if v is None:
    return default
  v = v.strip()

  def parse(s):
    s = s.strip()
    m = re.match(r'^\(-\s+(.*)\)$', s)
    if m:
      return -parse(m.group(1))
    m = re.match(r'^\(/\s+(\S+)\s+(\S+)\)$', s)
    if m:
      return fractions.Fraction(parse(m.group(1))) / fractions.Fraction(parse(m.group(2)))
    return fractions.Fraction(s)
  try:
    return parse(v)
  except Exception:
    return default
