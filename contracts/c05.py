"""C05 -- hash routing returns a well-formed replica set for every metric.

Functions under contract: carbon.hashing:ConsistentHashRing.get_nodes (generator: ghost output
sequence; loop contracts), carbon.routers:ConsistentHashingRouter.getDestinations (both
branches) / hasDestination / countDestinations, carbon.routers:FastHashRing.get_nodes,
_update_nodes.  Views and invariants: contracts/ring_model.py, contracts/router_units.py.
"""
import z3

from pyvc.runner import Bounded, Unit, Property
from pyvc.values import PyRaise, Atom
from pyvc.models import SymSeq
from . import ring_model as RM
from . import router_units as RU


def u_get_nodes(ctx, index):
  h = RM.RingHarness(ctx, index)
  RM.install_get_nodes_loops(h, 'C05/')
  h.assume_I()
  ctx.assume(h.replica_count >= 2)
  key = ctx.fresh(Atom, 'key')
  raised = None
  try:
    out = h.ip.run(RM.CHR + '.get_nodes', [key], self_obj=h.obj)
  except PyRaise as e:
    raised = e.exc
  ctx.cover('get_nodes/returns')
  ctx.check('C05/get_nodes/no_raise', z3.BoolVal(raised is None))
  if raised is not None:
    return
  ok = isinstance(out, SymSeq)
  ctx.check('C05/get_nodes/yields_a_sequence', z3.BoolVal(ok))
  if not ok:
    return
  # ghost witness for completeness: where[n] = index of n in out (from the loop's ghost state, or
  # 0 for the single-node / empty shortcut paths)
  where = h.last_where if getattr(h, 'last_where', None) is not None else z3.K(RM.Node, z3.IntVal(0))
  for l, f in RM.get_nodes_post(h, out, where):
    ctx.check('C05/get_nodes/' + l, f)


def build():
  units = [
    Unit('hashing.ConsistentHashRing.get_nodes', u_get_nodes, [RM.CHR + '.get_nodes'],
         expect_covers=['get_nodes/returns'], replay=RU.replay_router,
         native_clauses=['C05/get_nodes/distinct', 'C05/get_nodes/member', 'C05/get_nodes/complete', 'C05/get_nodes/length']),
  ] + RU.units()
  return Property(
    'C05', units,
    bounded=[Bounded('C05/native/routing_cross_check', 'replay/routing_native.py', ['--what', 'hash', '--n', '60'], ['--what', 'hash', '--n', '600', '--thorough'],
                     'consistent-hashing, fast-hashing and (rule-less) aggregation-aware routers on the real code: destination sets of 1..8 triples from a pool with several instances per server, built in three orders and by add/remove/re-add histories, REPLICATION_FACTOR 1..4, DIVERSE_REPLICAS on/off, carbon_ch and fnv1a_ch, 60 (quick) / 600 (thorough) keys, and for the consistent-hashing router EVERY ring position (the position function pinned to the position of each ring entry, its successor, 0 and 65535 -- routing is constant in between): cardinality, distinctness, configured, diverse, deterministic, no exception',
                     'cross-check of the discharged contracts on CPython (the ring position function is uninterpreted in the proof); FastHashRing keys are sampled')],
    trusted_base=['A-ENGINE', 'A-SMT', 'A-LIB(bisect_left, set/list models, finite-set cardinality lemmas)'],
    assumptions=[
      "A-LIB: bisect_left on a list sorted by position returns the first index whose position is >= the key's; finite-set lemmas (A subset B /\\ |A| >= |B| ==> A == B, equal sets have equal cardinality) are assumed theorems",
      "ring position of a key is an uninterpreted function of the key (pinned to the published algorithm in C06): determinism of routing = the result is a function of (ring, nodes, key); no havoc'd value flows into the output",
      "I_ring (sortedness, every node has >= 2 entries, replica_count >= 2) is the invariant established by add_node/remove_node (C06 obligations)",
    ])
