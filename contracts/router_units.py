"""Routers over the hash ring (C05, C16).

ConsistentHashingRouter view: instance_ports : Map[Node, Int], ring (used through get_nodes'
contract, proved in C05/get_nodes/*), replication_factor RF >= 1, diverse_replicas.
I_router: keys(instance_ports) == ring.nodes.
"""
import z3

from pyvc.core import EngineError
from pyvc.interp import Interp, Spec, LoopSpec
from pyvc.models import Namespace, SymSeq, SymSet, SymMap, TInt, TAtom, TTuple, PyList
from pyvc.values import Atom, PyRaise, PyObj, Builtin
from pyvc.runner import Unit
from .common import pyobj
from . import ring_model as RM
from .ring_model import TNode, Node, N_SERVER, N_INSTANCE, ctx_ip

R = 'carbon.routers'
CHRouter = R + ':ConsistentHashingRouter'
TDest = TTuple(TAtom, TInt, TAtom)
D_SERVER, D_PORT, D_INSTANCE = TDest.acc


class RouterHarness(object):
  def __init__(self, ctx, index, prefix='C05/'):
    self.ctx = ctx
    ipx = ctx_ip(ctx)
    self.nodes = SymSet.fresh(ipx, TNode, 'nodes')
    self.ports = SymMap.fresh(ipx, TNode, TInt, 'instance_ports')
    self.rf = ctx.fresh(z3.IntSort(), 'REPLICATION_FACTOR')
    self.diverse = ctx.fresh(z3.BoolSort(), 'DIVERSE_REPLICAS')
    ctx.assume(self.rf >= 1)
    n = z3.Const('n?', Node)
    # I_router
    ctx.assume(z3.ForAll([n], z3.Select(self.ports.keys, n) == z3.Select(self.nodes.mem, n)))
    ctx.assume(self.ports.card == self.nodes.card)
    # ghost: the set of distinct servers among the nodes, |servers| = eligible (diverse case)
    self.servers = SymSet.fresh(ipx, TAtom, 'servers')
    s = z3.Const('s?', Atom)
    self.rep = z3.Function('server_rep', Atom, Node)
    ctx.assume(z3.ForAll([n], z3.Implies(z3.Select(self.nodes.mem, n), z3.Select(self.servers.mem, N_SERVER(n)))))
    ctx.assume(z3.ForAll([s], z3.Implies(z3.Select(self.servers.mem, s),
                                         z3.And(z3.Select(self.nodes.mem, self.rep(s)), N_SERVER(self.rep(s)) == s))))
    self.ring_obj = pyobj(index, RM.CHR, {}, name='ring')
    self.router = pyobj(index, CHRouter, {'replication_factor': self.rf, 'diverse_replicas': self.diverse,
                                          'instance_ports': self.ports, 'ring': self.ring_obj}, name='router')
    self.ip = Interp(ctx, index, bindings={R: {
      'with_metaclass': Builtin('with_metaclass', lambda ip, a, k: __import__('pyvc.interp', fromlist=['OBJECT']).OBJECT),
      'PluginRegistrar': None}})
    self.ip.label_prefix = prefix
    self.ip.ext['new_set'] = lambda ip: SymSet.empty(ip, TAtom, 'used_servers')
    self.ip.ext[('gen_out', CHRouter + '.getDestinations')] = lambda ip: SymSeq.empty(TDest, 'dests')
    self.ip.specs[RM.CHR + '.get_nodes'] = Spec(RM.CHR + '.get_nodes', self.get_nodes_spec)
    self.S = None

  def get_nodes_spec(self, ip, args, kw):
    """contract proved in C05/get_nodes/*"""
    out = SymSeq.fresh(ip, TNode, 'ring_nodes')
    where = ip.ctx.fresh(z3.ArraySort(Node, z3.IntSort()), 'where')

    class H(object):
      pass
    hh = H()
    hh.nodes = self.nodes
    for _, f in RM.get_nodes_post(hh, out, where):
      ip.ctx.assume(f)
    self.S = out
    self.where = where
    return out


def install_router_loops(h):
  ip = h.ip
  Q = CHRouter + '.getDestinations'
  ctx = h.ctx

  # ---- loop 0: diverse replicas -------------------------------------------------------------
  def inv0(fr):
    k = fr.loop_k[0]
    S = fr.ghost['seq0'].term
    used = fr['used_servers']
    out = fr.gen_out
    a, b, j = z3.Int('a?'), z3.Int('b?'), z3.Int('j?')
    s = z3.Const('s?', Atom)
    first = fr.ghost['first']       # Atom -> Int : index of the first node of that server
    src = fr.ghost['src']           # Int -> Int  : out[a] was produced from S[src[a]]
    return [
      ('seen_servers_used', z3.ForAll([j], z3.Implies(z3.And(0 <= j, j < k), z3.Select(used.mem, N_SERVER(S[j]))))),
      ('used_have_first_occurrence', z3.ForAll([s], z3.Implies(
        z3.Select(used.mem, s),
        z3.And(0 <= z3.Select(first, s), z3.Select(first, s) < k, N_SERVER(S[z3.Select(first, s)]) == s)))),
      ('out_len', z3.And(out.length() == used.card, used.card < h.rf)),
      ('out_from_nodes', z3.ForAll([a], z3.Implies(
        z3.And(0 <= a, a < out.length()),
        z3.And(0 <= z3.Select(src, a), z3.Select(src, a) < k,
               D_SERVER(out.term[a]) == N_SERVER(S[z3.Select(src, a)]),
               D_INSTANCE(out.term[a]) == N_INSTANCE(S[z3.Select(src, a)]),
               z3.Select(h.ports.keys, S[z3.Select(src, a)]),
               D_PORT(out.term[a]) == z3.Select(h.ports.vals, S[z3.Select(src, a)]),
               z3.Select(used.mem, D_SERVER(out.term[a])))))),
      ('out_servers_distinct', z3.ForAll([a, b], z3.Implies(z3.And(0 <= a, a < b, b < out.length()),
                                                            D_SERVER(out.term[a]) != D_SERVER(out.term[b])))),
      ('used_are_out_servers', z3.ForAll([s], z3.Implies(
        z3.Select(used.mem, s),
        z3.And(0 <= z3.Select(fr.ghost['opos'], s), z3.Select(fr.ghost['opos'], s) < out.length(),
               D_SERVER(out.term[z3.Select(fr.ghost['opos'], s)]) == s)))),
    ]

  def pre0(fr):
    fr.ghost['first'] = z3.K(Atom, z3.IntVal(0))
    fr.ghost['src'] = z3.K(z3.IntSort(), z3.IntVal(0))
    fr.ghost['opos'] = z3.K(Atom, z3.IntVal(0))

  def havoc0(fr):
    fr['used_servers'].havoc(ip, 'used_servers')
    fr.gen_out.havoc(ip, 'dests')
    fr.ghost['first'] = ctx.fresh(z3.ArraySort(Atom, z3.IntSort()), 'first')
    fr.ghost['src'] = ctx.fresh(z3.ArraySort(z3.IntSort(), z3.IntSort()), 'src')
    fr.ghost['opos'] = ctx.fresh(z3.ArraySort(Atom, z3.IntSort()), 'opos')
    fr.ghost['out_at_head'] = fr.gen_out.term
    RM.set_lemmas(ctx, fr['used_servers'], h.servers)
    h.last = dict(used=fr['used_servers'], out=fr.gen_out, frame=fr)

  def step0(fr):
    out = fr.gen_out.term
    before = fr.ghost['out_at_head']
    n0 = z3.Length(before)
    k = fr.loop_k[0] - 1          # the index just processed (k was advanced by the loop step)
    grew = z3.Length(out) > n0
    srv = N_SERVER(fr.ghost['seq0'].term[k])
    fr.ghost['src'] = z3.If(grew, z3.Store(fr.ghost['src'], n0, k), fr.ghost['src'])
    fr.ghost['first'] = z3.If(grew, z3.Store(fr.ghost['first'], srv, k), fr.ghost['first'])
    fr.ghost['opos'] = z3.If(grew, z3.Store(fr.ghost['opos'], srv, n0), fr.ghost['opos'])
  ip.loops[(Q, 0)] = LoopSpec('for (server, instance) in self.ring.get_nodes(key)', inv0, havoc0,
                              ghost_pre=pre0, ghost_step=step0,
                              locals_modified=[])

  # ---- loop 1: plain replication -------------------------------------------------------------
  def inv1(fr):
    k = fr.loop_k[1]
    out = fr.gen_out
    a = z3.Int('a?')
    S = h.S.term
    return [
      ('one_per_node_so_far', z3.And(out.length() == k, k <= h.rf)),
      ('out_from_nodes', z3.ForAll([a], z3.Implies(
        z3.And(0 <= a, a < out.length()),
        z3.And(D_SERVER(out.term[a]) == N_SERVER(S[a]), D_INSTANCE(out.term[a]) == N_INSTANCE(S[a]),
               D_PORT(out.term[a]) == z3.Select(h.ports.vals, S[a]))))),
    ]

  def havoc1(fr):
    fr.gen_out.havoc(ip, 'dests')
    h.last = dict(out=fr.gen_out, frame=fr)
  ip.loops[(Q, 1)] = LoopSpec('for (count, node) in enumerate(self.ring.get_nodes(key))', inv1, havoc1,
                              locals_modified=[])


def u_get_destinations(ctx, index):
  h = RouterHarness(ctx, index)
  install_router_loops(h)
  metric = ctx.fresh(Atom, 'metric')
  raised = None
  try:
    out = h.ip.run(CHRouter + '.getDestinations', [metric], self_obj=h.router)
  except PyRaise as e:
    raised = e.exc
  ctx.cover('getDestinations/returns')
  ctx.check('C05/getDestinations/no_raise', z3.BoolVal(raised is None))
  if raised is not None:
    return
  ok = isinstance(out, SymSeq) and h.S is not None
  ctx.check('C05/getDestinations/yields_a_sequence', z3.BoolVal(ok))
  if not ok:
    return
  a, b = z3.Int('a?'), z3.Int('b?')
  n = z3.Const('n?', Node)
  o = out.term
  L = out.length()
  # configured: every element is (server, instance_ports[(server, instance)], instance) of a configured node
  ctx.check('C05/getDestinations/configured', z3.ForAll([a], z3.Implies(
    z3.And(0 <= a, a < L),
    z3.And(z3.Select(h.ports.keys, TNode.mk(D_SERVER(o[a]), D_INSTANCE(o[a]))),
           D_PORT(o[a]) == z3.Select(h.ports.vals, TNode.mk(D_SERVER(o[a]), D_INSTANCE(o[a])))))))
  ctx.check('C05/getDestinations/distinct', z3.ForAll([a, b], z3.Implies(z3.And(0 <= a, a < b, b < L), o[a] != o[b])))
  ctx.check('C05/getDestinations/diverse', z3.Implies(
    h.diverse, z3.ForAll([a, b], z3.Implies(z3.And(0 <= a, a < b, b < L), D_SERVER(o[a]) != D_SERVER(o[b])))))
  RM.set_lemmas(ctx, h.servers, h.servers)
  eligible = z3.If(h.diverse, h.servers.card, h.nodes.card)
  ctx.check('C05/getDestinations/card', L == z3.If(h.rf <= eligible, h.rf, eligible))


def units():
  return [Unit('routers.ConsistentHashingRouter.getDestinations', u_get_destinations,
               [CHRouter + '.getDestinations', CHRouter + '.getKey'],
               expect_covers=['getDestinations/returns'], replay=replay_router,
               native_clauses=['C05/getDestinations/card', 'C05/getDestinations/distinct',
                               'C05/getDestinations/configured', 'C05/getDestinations/diverse',
                               'C05/getDestinations/no_raise'])]


def replay_router(model, ob):
  import json
  from pyvc.runner import run_native
  rc, out, err = run_native('replay/router_native.py', [json.dumps({'clause': ob.label})], timeout=900)
  for line in out.splitlines():
    if line.startswith('REPLAY-RESULT '):
      return json.loads(line[len('REPLAY-RESULT '):])
  return {'replay_error': (err or out)[-600:]}


# ------------------------------------------------------------------------------------------------
# FastHashRing

FHR = R + ':FastHashRing'
TSorted = TTuple(TInt, TNode)
S_HASH, S_NODE = TSorted.acc
HASH = z3.Function('carbonHash', Atom, Atom, z3.IntSort())
STR = z3.Function('str_of_node', Node, Atom)


class FastHarness(object):
  def __init__(self, ctx, index):
    self.ctx = ctx
    ipx = ctx_ip(ctx)
    self.nodes = SymSet.fresh(ipx, TNode, 'nodes')
    self.sorted_nodes = SymSeq(TSorted, ctx.fresh(z3.SeqSort(TSorted.sort), 'sorted_nodes'), 'sorted_nodes')
    self.hash_type = ctx.fresh(Atom, 'hash_type')
    self.pidx = z3.Function('pidx', Node, z3.IntSort())
    self.obj = pyobj(index, FHR, {'nodes': self.nodes, 'sorted_nodes': self.sorted_nodes,
                                  'hash_type': self.hash_type}, name='fastring')
    self.ip = Interp(ctx, index, bindings={R: {
      'carbonHash': Builtin('carbonHash', lambda ip, a, k: HASH(TAtom.enc(ip, a[0]), TAtom.enc(ip, a[1]))),
      'xrange': None}})
    self.ip.module_bindings[R]['xrange'] = self.ip.builtins['range']
    self.ip.label_prefix = 'C05/'
    self.ip.ext['str_of'] = lambda ip, v: STR(TNode.enc(ip, v))
    self.ip.ext[('gen_out', FHR + '.get_nodes')] = lambda ip: SymSeq.empty(TNode, 'out')

  def I_fast(self, sn=None):
    sn = sn if sn is not None else self.sorted_nodes.term
    a, b = z3.Int('a?'), z3.Int('b?')
    n = z3.Const('n?', Node)
    N = z3.Length(sn)
    return [
      ('one_entry_per_node', N == self.nodes.card),
      ('entries_are_nodes', z3.ForAll([a], z3.Implies(z3.And(0 <= a, a < N), z3.Select(self.nodes.mem, S_NODE(sn[a]))))),
      ('entries_distinct', z3.ForAll([a, b], z3.Implies(z3.And(0 <= a, a < b, b < N), S_NODE(sn[a]) != S_NODE(sn[b])))),
      ('every_node_has_an_entry', z3.ForAll([n], z3.Implies(
        z3.Select(self.nodes.mem, n),
        z3.And(0 <= self.pidx(n), self.pidx(n) < N, S_NODE(sn[self.pidx(n)]) == n)))),
    ]


def u_fast_get_nodes(ctx, index):
  h = FastHarness(ctx, index)
  for _, f in h.I_fast():
    ctx.assume(f)
  sn = h.sorted_nodes.term
  N = z3.Length(sn)

  def inv(fr):
    k = fr.loop_k[0]
    out = fr.gen_out
    a = z3.Int('a?')
    seed = fr['seed']
    return [('seed_in_range', z3.And(0 <= seed, seed < N)),
            ('one_per_step', out.length() == k),
            ('out_is_rotation', z3.ForAll([a], z3.Implies(
              z3.And(0 <= a, a < out.length()),
              out.term[a] == S_NODE(sn[z3.If(seed + a < N, seed + a, seed + a - N)]))))]

  def havoc(fr):
    fr.gen_out.havoc(h.ip, 'out')
  h.ip.loops[(FHR + '.get_nodes', 0)] = LoopSpec('for n in xrange(seed', inv, havoc,
                                                locals_modified=[])
  key = ctx.fresh(Atom, 'key')
  raised = None
  try:
    out = h.ip.run(FHR + '.get_nodes', [key], self_obj=h.obj)
  except PyRaise as e:
    raised = e.exc
  ctx.cover('fast_get_nodes/returns')
  ctx.check('C05/FastHashRing.get_nodes/no_raise', z3.BoolVal(raised is None))
  if raised is not None or not isinstance(out, SymSeq):
    return
  n = z3.Const('n?', Node)
  seed = z3.Int('seed?')
  # witness for completeness: node n sits at rotation offset (pidx(n) - seed) mod N
  hh = type('H', (), {})()
  hh.nodes = h.nodes
  a, b = z3.Int('a?'), z3.Int('b?')
  ctx.check('C05/FastHashRing.get_nodes/distinct',
            z3.ForAll([a, b], z3.Implies(z3.And(0 <= a, a < b, b < out.length()), out.term[a] != out.term[b])))
  ctx.check('C05/FastHashRing.get_nodes/member',
            z3.ForAll([a], z3.Implies(z3.And(0 <= a, a < out.length()), z3.Select(h.nodes.mem, out.term[a]))))
  ctx.check('C05/FastHashRing.get_nodes/length', out.length() == h.nodes.card)
  # witness for completeness: node n sits at rotation offset (pidx(n) - seed) mod N
  seed_t = HASH(key, h.hash_type) % h.nodes.card
  w = z3.If(h.pidx(n) >= seed_t, h.pidx(n) - seed_t, h.pidx(n) - seed_t + N)
  ctx.check('C05/FastHashRing.get_nodes/complete',
            z3.ForAll([n], z3.Implies(z3.Select(h.nodes.mem, n),
                                      z3.And(0 <= w, w < out.length(), out.term[w] == n))))


def u_fast_update_nodes(ctx, index):
  h = FastHarness(ctx, index)
  h.ip.run(FHR + '._update_nodes', [], self_obj=h.obj)
  ctx.cover('update_nodes/returns')
  sn = h.obj.fields['sorted_nodes']
  ok = isinstance(sn, SymSeq)
  ctx.check('C05/FastHashRing._update_nodes/is_list', z3.BoolVal(ok))
  if not ok:
    return
  # completeness witness: through the sorted permutation of the element sequence of the set
  for l, f in h.I_fast(sn.term)[:3]:
    ctx.check('C05/FastHashRing._update_nodes/I_fast/' + l, f)
  n = z3.Const('n?', Node)
  a = z3.Int('a?')
  # witness: sorted_nodes = sorted(comp), comp[i] = (hash(e[i]), e[i]), e = elements of the set
  w = None
  so = getattr(sn, 'sorted_of', None)
  if so is not None and getattr(so[0], 'map_of', None) is not None and getattr(so[0].map_of[0], 'idx_fn', None) is not None:
    w = so[2](so[0].map_of[0].idx_fn(n))
  ctx.check('C05/FastHashRing._update_nodes/result_is_sorted_of_the_node_set', z3.BoolVal(w is not None))
  if w is not None:
    ctx.check('C05/FastHashRing._update_nodes/I_fast/every_node_has_an_entry',
              z3.ForAll([n], z3.Implies(z3.Select(h.nodes.mem, n),
                                        z3.And(0 <= w, w < sn.length(), S_NODE(sn.term[w]) == n))))
  ctx.check('C05/FastHashRing._update_nodes/sorted_by_hash',
            z3.ForAll([a], z3.Implies(z3.And(0 <= a, a + 1 < sn.length()), S_HASH(sn.term[a]) <= S_HASH(sn.term[a + 1]))))
  ctx.check('C05/FastHashRing._update_nodes/hash_is_of_the_node',
            z3.ForAll([a], z3.Implies(z3.And(0 <= a, a < sn.length()),
                                      S_HASH(sn.term[a]) == HASH(STR(S_NODE(sn.term[a])), h.hash_type))))


_units0 = units


def units():
  return _units0() + [
    Unit('routers.FastHashRing.get_nodes', u_fast_get_nodes, [FHR + '.get_nodes', FHR + '._hash'],
         expect_covers=['fast_get_nodes/returns'], replay=replay_router),
    Unit('routers.FastHashRing._update_nodes', u_fast_update_nodes, [FHR + '._update_nodes', FHR + '._hash'],
         expect_covers=['update_nodes/returns'], replay=replay_router),
  ]
