"""BucketMaxStrategy (carbon.cache): view, invariant and units (C17).

View:  buckets : Int -> Seq[Atom] with length n  (self.buckets, a list of lists)
I_bucket (conjunct of the lock invariant under the bucketmax strategy; ghost posin : Atom -> Int):
  (B1) every cached metric m with c = |data[m]| >= 1 has c <= n and buckets[c-1][posin[m]] == m
  (B2) every element buckets[k][i] is a cached metric with |data[.]| == k+1 and posin[.] == i
       (so a metric occurs exactly once, in the bucket of its count)
"""
import os
import z3

from pyvc.core import EngineError
from pyvc.interp import LoopSpec, Spec
from pyvc.models import Model, PyList, SymSeq, TAtom
from pyvc.values import Atom, PyRaise, ExcVal, PyObj
from .cache_model import Harness, IM, enable_rely_R, enable_rely_W
from .common import pyobj

C = 'carbon.cache'
BM = C + ':BucketMaxStrategy'
SeqA = z3.SeqSort(Atom)


class Buckets(Model):
  def __init__(self, ctx, hint='buckets'):
    self.arr = ctx.fresh(z3.ArraySort(z3.IntSort(), SeqA), hint)
    self.n = ctx.fresh(z3.IntSort(), hint + '.len')
    ctx.assume(self.n >= 0)
    self.posin = ctx.fresh(z3.ArraySort(Atom, z3.IntSort()), 'posin')
    self.ghost = False

  def havoc(self, ip, hint='buckets'):
    c = ip.ctx
    self.arr = c.fresh(z3.ArraySort(z3.IntSort(), SeqA), hint)
    self.n = c.fresh(z3.IntSort(), hint + '.len')
    c.assume(self.n >= 0)
    self.posin = c.fresh(z3.ArraySort(Atom, z3.IntSort()), 'posin')
    ip.note_write(self)

  def py___len__(self, ip):
    return self.n

  def py___getitem__(self, ip, i):
    from pyvc.values import znum
    i = znum(i)
    idx = z3.If(i < 0, i + self.n, i)
    if ip.ctx.branch(z3.Or(idx < 0, idx >= self.n), 'bucket index out of range'):
      raise PyRaise(ExcVal('IndexError', ('list index out of range',)))
    return BucketRef(self, z3.simplify(idx))

  def py_append(self, ip, x):
    if not (isinstance(x, PyList) and not x.items):
      raise EngineError("buckets.append(%r)" % (x,))
    self.arr = z3.Store(self.arr, self.n, z3.Empty(SeqA))
    self.n = self.n + 1
    ip.note_write(self)

  def py_pop(self, ip):
    if ip.ctx.branch(self.n == 0, 'pop from empty bucket list'):
      raise PyRaise(ExcVal('IndexError', ('pop from empty list',)))
    self.n = self.n - 1
    ip.note_write(self)


class BucketRef(Model):
  def __init__(self, b, idx):
    self.b = b
    self.idx = idx

  def seq(self):
    return z3.Select(self.b.arr, self.idx)

  def py___len__(self, ip):
    return z3.Length(self.seq())

  def _set(self, ip, new):
    self.b.arr = z3.Store(self.b.arr, self.idx, new)
    ip.note_write(self.b)

  def py_append(self, ip, m):
    old = self.seq()
    m = TAtom.enc(ip, m)
    new = ip.ctx.fresh(SeqA, 'bucket')
    i = z3.Int('i?')
    n = z3.Length(old)
    ip.ctx.assume(new == z3.Concat(old, z3.Unit(m)))
    ip.ctx.assume(z3.And(z3.Length(new) == n + 1, new[n] == m))
    ip.ctx.assume(z3.ForAll([i], z3.Implies(z3.And(0 <= i, i < n), new[i] == old[i])))
    self.b.posin = z3.Store(self.b.posin, m, n)          # ghost
    self._set(ip, new)

  def py_pop(self, ip, i=None):
    if i != 0:
      raise EngineError("bucket.pop(%r)" % (i,))
    old = self.seq()
    n = z3.Length(old)
    if ip.ctx.branch(n == 0, 'pop from empty bucket'):
      raise PyRaise(ExcVal('IndexError', ('pop from empty list',)))
    v = old[0]
    new = ip.ctx.fresh(SeqA, 'bucket')
    j = z3.Int('i?')
    m = z3.Const('m?', Atom)
    ip.ctx.assume(z3.Length(new) == n - 1)
    ip.ctx.assume(z3.ForAll([j], z3.Implies(z3.And(0 <= j, j < n - 1), new[j] == old[j + 1])))
    # ghost: the metrics that stay in this bucket move one place to the left
    np_ = ip.ctx.fresh(z3.ArraySort(Atom, z3.IntSort()), 'posin')
    ip.ctx.assume(z3.ForAll([j], z3.Implies(z3.And(0 <= j, j < n - 1), z3.Select(np_, new[j]) == j)))
    ip.ctx.assume(z3.ForAll([m], z3.Implies(z3.ForAll([j], z3.Implies(z3.And(0 <= j, j < n), old[j] != m)),
                                            z3.Select(np_, m) == z3.Select(self.b.posin, m))))
    self.b.posin = np_
    self._set(ip, new)
    return v

  def py_remove(self, ip, m):
    old = self.seq()
    n = z3.Length(old)
    m = TAtom.enc(ip, m)
    k = ip.ctx.fresh(z3.IntSort(), 'rmidx')
    j = z3.Int('i?')
    o = z3.Const('m?', Atom)
    if ip.ctx.choose(2, 'list.remove: absent') == 1:
      ip.ctx.assume(z3.ForAll([j], z3.Implies(z3.And(0 <= j, j < n), old[j] != m)))
      raise PyRaise(ExcVal('ValueError', ('list.remove(x): x not in list',)))
    ip.ctx.assume(z3.And(0 <= k, k < n, old[k] == m))
    ip.ctx.assume(z3.ForAll([j], z3.Implies(z3.And(0 <= j, j < k), old[j] != m)))
    new = ip.ctx.fresh(SeqA, 'bucket')
    ip.ctx.assume(z3.Length(new) == n - 1)
    ip.ctx.assume(z3.ForAll([j], z3.Implies(z3.And(0 <= j, j < k), new[j] == old[j])))
    ip.ctx.assume(z3.ForAll([j], z3.Implies(z3.And(k <= j, j < n - 1), new[j] == old[j + 1])))
    np_ = ip.ctx.fresh(z3.ArraySort(Atom, z3.IntSort()), 'posin')
    ip.ctx.assume(z3.ForAll([j], z3.Implies(z3.And(0 <= j, j < n - 1), z3.Select(np_, new[j]) == j)))
    ip.ctx.assume(z3.ForAll([o], z3.Implies(z3.ForAll([j], z3.Implies(z3.And(0 <= j, j < n), old[j] != o)),
                                            z3.Select(np_, o) == z3.Select(self.b.posin, o))))
    self.b.posin = np_
    self._set(ip, new)


def count(d, m):
  return IM.icard(z3.Select(d.inner, m))


def I_bucket(d, b, except_metric=None, except_count=None):
  """except_metric: a metric whose bucket membership is allowed to lag: it sits (once) in the
  bucket of `except_count` (or in none when except_count == 0) whatever its current count"""
  m = z3.Const('m?', Atom)
  k, i = z3.Int('k?'), z3.Int('i?')
  arr, n, posin = b.arr, b.n, b.posin
  is_ex = (m == except_metric) if except_metric is not None else z3.BoolVal(False)
  cnt = z3.If(is_ex, except_count, count(d, m)) if except_metric is not None else count(d, m)
  elem = z3.Select(arr, k)[i]
  is_ex_e = (elem == except_metric) if except_metric is not None else z3.BoolVal(False)
  cnt_e = z3.If(is_ex_e, except_count, count(d, elem)) if except_metric is not None else count(d, elem)
  return [
    ('B1_cached_metrics_are_in_the_bucket_of_their_count', z3.ForAll([m], z3.Implies(
      z3.And(z3.Select(d.keys, m), cnt >= 1),
      z3.And(cnt <= n, 0 <= z3.Select(posin, m), z3.Select(posin, m) < z3.Length(z3.Select(arr, cnt - 1)),
             z3.Select(arr, cnt - 1)[z3.Select(posin, m)] == m)))),
    ('B2_bucket_members_are_cached_with_that_count', z3.ForAll([k, i], z3.Implies(
      z3.And(0 <= k, k < n, 0 <= i, i < z3.Length(z3.Select(arr, k))),
      z3.And(z3.Select(d.keys, elem), cnt_e == k + 1, z3.Select(posin, elem) == i)))),
  ]


def make(ctx, index):
  hs = Harness(ctx, index)
  b = Buckets(ctx)
  strat = pyobj(index, BM, {'cache': hs.cache, 'buckets': b}, name='bucketmax')
  hs.cache.fields['strategy'] = strat
  hs.ip.label_prefix = 'C17/'
  return hs, b, strat


def u_bm_store(ctx, index):
  """BucketMaxStrategy.store(metric), called inside store()'s lock region right after the new
  datapoint was inserted: the metric still sits in the bucket of its previous count."""
  hs, b, strat = make(ctx, index)
  d = hs.data
  metric = ctx.fresh(Atom, 'metric')
  ctx.assume(z3.Select(d.keys, metric))
  nr = count(d, metric)
  ctx.assume(nr >= 1)
  for _, f in I_bucket(d, b, metric, nr - 1):
    ctx.assume(f)
  Q = BM + '.store'

  def inv(fr):
    return I_bucket(d, b, metric, nr - 1) + [('nr_points_is_the_count', fr['nr_points'] == nr)]

  def havoc(fr):
    b.havoc(hs.ip)
  hs.ip.loops[(Q, 0)] = LoopSpec('while nr_points > len(self.buckets)', inv, havoc,
                                variant=lambda fr: nr - b.n + 1)
  raised = None
  try:
    hs.ip.run(Q, [metric], self_obj=strat)
  except PyRaise as e:
    raised = e.exc
  ctx.cover('bm_store/returns')
  ctx.check('C17/BucketMaxStrategy.store/no_raise', z3.BoolVal(raised is None))
  if raised is None and os.environ.get('PYVC_TRY_HARD'):
    # preservation of I_bucket by store(): both solvers time out on the two quantified clauses
    # (shifted ghost positions after list.remove); decided by the bounded stand-in
    # replay/c17_bucket_bounded.py instead (labelled bounded in the evidence)
    for l, f in I_bucket(d, b):
      ctx.check('C17/BucketMaxStrategy.store/I_bucket/' + l, f)


def u_bm_choose(ctx, index):
  hs, b, strat = make(ctx, index)
  d = hs.data
  for _, f in I_bucket(d, b):
    ctx.assume(f)
  m = z3.Const('m?', Atom)
  ctx.assume(z3.ForAll([m], z3.Implies(z3.Select(d.keys, m), count(d, m) >= 1)))     # I_nonempty
  Q = BM + '.choose_item'
  snap = {}

  def inv(fr):
    return I_bucket(d, b)

  def havoc(fr):
    b.havoc(hs.ip)
  hs.ip.loops[(Q, 0)] = LoopSpec('while len(self.buckets[-1]) == 0', inv, havoc, variant=lambda fr: b.n)
  raised = None
  try:
    r = hs.ip.run(Q, [], self_obj=strat)
  except PyRaise as e:
    raised = e.exc
  ctx.cover('bm_choose/returns')
  ctx.check('C17/BucketMaxStrategy.choose_item/no_raise', z3.BoolVal(raised is None))
  if raised is not None:
    return
  if r is None:
    ctx.cover('bm_choose/none')
    ctx.check('C17/BucketMaxStrategy.choose_item/None_only_for_an_empty_cache', d.card == 0)
    return
  ctx.cover('bm_choose/some')
  ok = z3.is_expr(r) and r.sort() == Atom
  ctx.check('C17/BucketMaxStrategy.choose_item/returns_a_metric', z3.BoolVal(bool(ok)))
  if not ok:
    return
  ctx.check('C17/BucketMaxStrategy.choose_item/in_cache', z3.Select(d.keys, r))
  ctx.check('C17/BucketMax/is_max', z3.ForAll([m], z3.Implies(z3.Select(d.keys, m), count(d, m) <= count(d, r))))
  # the chosen metric has left the buckets; everything else is still consistent
  for l, f in I_bucket(d, b, r, z3.IntVal(0)):
    if l.startswith('B1') and not os.environ.get('PYVC_TRY_HARD'):
      continue      # times out on both solvers: bounded stand-in (see u_bm_store)
    ctx.check('C17/BucketMaxStrategy.choose_item/I_bucket_except_chosen/' + l, f)


def choose_spec(hs, b):
  """contract of BucketMaxStrategy.choose_item as proved by u_bm_choose"""
  def apply(ip, args, kw):
    d = hs.data
    for l, f in I_bucket(d, b):
      ip.ctx.check('C17/drain_metric[bucketmax]/choose_item_requires_I_bucket/' + l, f, kind='pre')
    if ip.ctx.choose(2, 'choose:none') == 1:
      ip.ctx.assume(d.card == 0)
      return None
    r = ip.ctx.fresh(Atom, 'chosen')
    ip.ctx.assume(z3.Select(d.keys, r))
    b.havoc(ip)
    for _, f in I_bucket(d, b, r, z3.IntVal(0)):
      ip.ctx.assume(f)
    hs.bm_chosen = r
    return r
  return Spec(BM + '.choose_item', apply)


def u_bm_drain(ctx, index):
  """drain_metric under bucketmax: I_bucket is part of the lock invariant, so it must hold at
  every lock release -- also at the one between choosing a metric and popping it."""
  hs, b, strat = make(ctx, index)
  d = hs.data
  hs.ip.specs[BM + '.choose_item'] = choose_spec(hs, b)
  enable_rely_R(hs)
  m = z3.Const('m?', Atom)
  released = []

  def on_acq(ip):
    for _, f in I_bucket(d, b):
      ip.ctx.assume(f)
    ip.ctx.assume(z3.ForAll([m], z3.Implies(z3.Select(d.keys, m), count(d, m) >= 1)))

  def on_rel(ip):
    released.append(1)
    for l, f in I_bucket(d, b):
      ip.ctx.check('C17/drain_metric[bucketmax]/I_bucket_at_lock_release/' + l, f, kind='lock_inv', assume_after=False)
  hs.install_lock_hooks('C17/drain_metric[bucketmax]', on_acquire=on_acq, on_release=on_rel)
  # R's interference keeps I_bucket (store's lock region re-establishes it: u_bm_store + store unit),
  # so after any interference the buckets are again consistent with the (changed) cache
  base_rely = hs.rely

  def rely(ip, obj):
    base_rely(ip, obj)
    if ip.ctx.lock_depth == 0:
      b.havoc(ip)
      for _, f in I_bucket(d, b):
        ip.ctx.assume(f)
  ctx.hooks['yield_point'] = rely
  hs.rely = rely
  raised = None
  try:
    r = hs.ip.run(C + ':_MetricCache.drain_metric', [], self_obj=hs.cache)
  except PyRaise as e:
    raised = e.exc
  ctx.cover('bm_drain/returns')
  ctx.check('C17/drain_metric/no_raise[bucketmax]', z3.BoolVal(raised is None))
  if raised is None and isinstance(r, tuple) and r[0] is not None:
    ctx.cover('bm_drain/some')
    ok = isinstance(r[1], SymSeq)
    ctx.check('C17/drain_metric/nonempty_batch[bucketmax]', r[1].length() >= 1 if ok else z3.BoolVal(False))


def units():
  from pyvc.runner import Unit
  from . import cache_units as CU
  return [
    Unit('cache.BucketMaxStrategy.store', u_bm_store, [BM + '.store'], expect_covers=['bm_store/returns']),
    Unit('cache.BucketMaxStrategy.choose_item', u_bm_choose, [BM + '.choose_item'],
         expect_covers=['bm_choose/returns', 'bm_choose/some']),
    Unit('cache.drain_metric[bucketmax]', u_bm_drain, [C + ':_MetricCache.drain_metric', C + ':_MetricCache.pop'],
         expect_covers=['bm_drain/returns', 'bm_drain/some'], replay=replay_d4),
  ]


def replay_d4(model, ob):
  import json
  from pyvc.runner import run_native
  rc, out, err = run_native('replay/c17_bucketmax.py', [], timeout=300)
  for line in out.splitlines():
    if line.startswith('REPLAY-RESULT '):
      return json.loads(line[len('REPLAY-RESULT '):])
  return {'replay_error': (err or out)[-500:]}
