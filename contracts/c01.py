"""C01 -- well-formed datapoints are ingested exactly, however the byte stream is cut.

What carbon owns (DESIGN.md 5/C01): each handler decodes one complete frame into the right
dispatches, keeps no state between frames, and dispatches once.  Obligations C01/* of the units
in contracts/proto_units.py: a well-formed line / datagram line / pickle entry yields exactly one
events.metricReceived(name, (float(timestamp), float(value))) (positional for pickle), the handler
object gains no attribute (frame condition), Event.__call__ calls every handler once with the same
arguments.  Independence of TCP segmentation is implemented in Twisted (LineOnlyReceiver,
Int32StringReceiver): assumed contract A-TWISTED-FRAMING, validated by a bounded stand-in.
"""
import z3

from pyvc.runner import Unit, Property, Bounded, Syntactic
from . import c11


def u_concat_lemma(ctx, index):
  """Lemma over the contracts: if each frame's effect log is a function of that frame alone
  (statelessness) then the log of a concatenation of frames is the concatenation of the logs."""
  Frame = z3.DeclareSort('FrameS')
  Ev = z3.DeclareSort('EvS')
  per = z3.Function('effect_of_frame', Frame, z3.SeqSort(Ev))
  f1, f2 = ctx.fresh(Frame, 'f1'), ctx.fresh(Frame, 'f2')
  log12 = z3.Concat(per(f1), per(f2))
  ctx.cover('lemma/stated')
  ctx.check('C01/lemma/concat', z3.And(z3.SubSeq(log12, 0, z3.Length(per(f1))) == per(f1),
                                       z3.SubSeq(log12, z3.Length(per(f1)), z3.Length(per(f2))) == per(f2)))


def delimiter_pinned(index):
  import ast
  mi = index.module('carbon.protocols')
  ci = mi.classes['MetricLineReceiver'][0]
  d = ci.attrs.get('delimiter')
  ok = d is not None and ast.unparse(d) == "b'\\n'"
  bases = [ast.unparse(b) for b in ci.node.bases]
  ok = ok and bases == ['MetricReceiver', 'LineOnlyReceiver']
  pc = mi.classes['MetricPickleReceiver'][0]
  ok = ok and [ast.unparse(b) for b in pc.node.bases] == ['MetricReceiver', 'Int32StringReceiver']
  overrides = [m for m in ('dataReceived', 'lineLengthExceeded', 'lengthLimitExceeded') if m in ci.methods or m in pc.methods]
  return ok and not overrides, "delimiter=%s bases=%s overrides=%s" % (ast.unparse(d) if d is not None else None, bases, overrides)


def build():
  units = c11.units() + [Unit('C01/lemma/concat', u_concat_lemma, [], expect_covers=['lemma/stated'])]
  native = {'protocols.MetricLineReceiver.lineReceived': ['C01/lineReceived/decode/name'],
            'protocols.MetricDatagramReceiver.datagramReceived': ['C01/datagramReceived/line/name'],
            'protocols.MetricPickleReceiver.stringReceived': ['C01/stringReceived/entry/name']}
  for u in units:
    if u.name in native:
      u.native_clauses = native[u.name]
      u.replay = replay_c01
  return Property(
    'C01', units,
    syntactic=[Syntactic('C01/framing/delimiter_and_bases_pinned', delimiter_pinned,
                         "MetricLineReceiver is a LineOnlyReceiver with delimiter b'\\n', MetricPickleReceiver an Int32StringReceiver; neither overrides dataReceived")],
    bounded=[Bounded('C01/A-TWISTED-FRAMING/segmentations', 'replay/c01_framing.py', ['--tier', 'quick'], ['--tier', 'thorough'],
                     'all 2^(n-1) segmentations of line and pickle streams up to 13 bytes (quick) / 20 bytes (thorough), <= 3 datapoints, incl. a 2-byte UTF-8 character and the 4-byte length prefix; longer streams: every 1- and 2-cut segmentation',
                     "stream re-assembly is implemented in Twisted, not in /repo: this validates the assumed contract A-TWISTED-FRAMING"),
             Bounded('C01/native/listeners_cross_check', 'replay/receivers_native.py', ['--what', 'c01', '--n', '500'], ['--what', 'c01', '--n', '30000'],
                     "500 (quick) / 30000 (thorough) seeded random sequences of 1..6 well-formed datapoints (names over printable ASCII and one character per UTF-8 lead byte C2..F4, values incl. +-inf / integers / 2**53, integer and fractional timestamps) x random batching x random segmentation x (half of the runs) a flow-control pause raised while a random datapoint is handled, the transport being resumed before the next read and at the end (single segment, fixed 1..6-byte chunks, random cut sets) through the real plaintext TCP, UDP and pickle (protocols 0-4) listeners on a StringTransport: delivered exactly once, in order, unchanged",
                     "end-to-end cross-check of the discharged per-handler contracts together with Twisted's framing and CPython's str/float/pickle on real bytes (A-STR, A-PICKLE are assumptions of the proof)")],
    trusted_base=['A-ENGINE', 'A-SMT', 'A-STR', 'A-PICKLE', 'A-TWISTED-FRAMING'],
    assumptions=[
      "A-TWISTED-FRAMING: LineOnlyReceiver / Int32StringReceiver call the handler once per complete frame, in order, whatever the segmentation (bounded validation above)",
      "A-STR: for a well-formed line `name SP value SP timestamp` (name without whitespace) strip().split() returns those three fields and float() their values; stated as the precondition 'the decoded text has three fields with float syntax'",
      "A-PICKLE: loads(dumps(x, 2)) == x for plain data; the receiver contract is stated over the unpickled object",
      "well-formed = finite timestamp >= 0, value not NaN, name a str; no black/white list, MIN_TIMESTAMP_RESOLUTION = 0 (the admission rules are C12)",
    ])


def replay_c01(model, ob):
  import json
  from pyvc.runner import run_native
  rc, out, err = run_native('replay/c01_native.py', [json.dumps({'clause': ob.label})], timeout=600)
  for line in out.splitlines():
    if line.startswith('REPLAY-RESULT '):
      return json.loads(line[len('REPLAY-RESULT '):])
  return {'replay_error': (err or out)[-600:]}
