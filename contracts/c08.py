"""C08 -- aggregates are the rule function over exactly the values of their interval.

Functions under contract: carbon.aggregator.buffers: MetricBuffer.{input, compute_value, close},
IntervalBuffer.{__init__, input, mark_inactive}, _BufferManager.get_buffer;
carbon.aggregator.processor: AggregationProcessor.process; carbon.aggregator.rules:
AggregationRule.get_aggregate_metric (memoisation), avg, count, percentile.
View and ghost state: contracts/agg_model.py.  The aggregation function is an uninterpreted
function of the value list (so "the rule's function applied to the values received for that
interval" is literal).  The clause about rule *patterns* (whole-name match, <field> = one
segment) is a statement about the regular expression build_regex constructs and Python's `re`:
decided only by a bounded stand-in (replay/c08_regex.py).
"""
import z3

from pyvc.core import EngineError
from pyvc.runner import Unit, Property, Bounded
from pyvc.interp import Interp, LoopSpec, Spec, OBJECT
from pyvc.models import Namespace, External, EffectLog, SymSeq, SymSet, SymMap, TInt, TReal, TAtom, TTuple, TSort, PyList, Model
from pyvc.values import Atom, Val, PyObj, PyRaise, ExcVal, Builtin, RepoClass
from .common import Clock, pyobj
from .ring_model import ctx_ip
from . import agg_model as AM
from .agg_model import IntervalMap, BufProxy, OptInt, SeqR

BUF = 'carbon.aggregator.buffers'
MB = BUF + ':MetricBuffer'
FUNC = z3.Function('aggregation_func', SeqR, Val)


class Harness(object):
  def __init__(self, ctx, index):
    self.ctx = ctx
    self.log = EffectLog()
    self.clock = Clock(ctx)
    self.ib = IntervalMap(ctx)
    self.freq = ctx.fresh(z3.IntSort(), 'aggregation_frequency')
    self.max_iv = ctx.fresh(z3.IntSort(), 'MAX_AGGREGATION_INTERVALS')
    ctx.assume(self.freq >= 1)
    ctx.assume(self.max_iv >= 0)
    self.path = ctx.fresh(Atom, 'metric_path')
    self.task = Namespace('compute_task', {'running': ctx.fresh(z3.BoolSort(), 'task.running'),
                                           'stop': External('compute_task.stop', self.log)})
    self.buffers = SymMap.fresh(ctx_ip(ctx), TAtom, TSort(Val), 'BufferManager.buffers')
    self.settings = Namespace('settings', {'MAX_AGGREGATION_INTERVALS': self.max_iv,
                                           'WRITE_BACK_FREQUENCY': None}, item_access=True)
    events = Namespace('events', {'metricGenerated': External('events.metricGenerated', self.log)})
    instr = Namespace('instrumentation', {'increment': External('instrumentation.increment', self.log)})
    state = Namespace('state', {'events': events, 'instrumentation': instr})
    self.ip = Interp(ctx, index, bindings={BUF: {
      'settings': self.settings, 'state': state, 'time': self.clock.module(),
      'BufferManager': Namespace('BufferManager', {'buffers': self.buffers}),
      'LoopingCall': Builtin('LoopingCall', lambda ip, a, k: Namespace('LoopingCall', {'start': External('LoopingCall.start', self.log), 'running': True})),
    }})
    self.ip.label_prefix = 'C08/'
    BufProxy.cls_info = index.cls(BUF + ':IntervalBuffer')
    # I_reg: a configured MetricBuffer is the one registered under its path (get_buffer creates
    # and registers it; compute_value / clear() unregister it)
    ctx.assume(z3.Select(self.buffers.keys, self.path))
    self.mb = pyobj(index, MB, {
      'metric_path': self.path, 'interval_buffers': self.ib, 'compute_task': self.task, 'configured': True,
      'aggregation_frequency': self.freq,
      'aggregation_func': Builtin('aggregation_func', self.call_func)}, name='metric_buffer')

  def call_func(self, ip, a, k):
    v = a[0]
    if isinstance(v, AM.ValuesProxy):
      return FUNC(v.seq())
    if isinstance(v, SymSeq):
      return FUNC(v.term)
    raise EngineError("aggregation_func(%r)" % (v,))


def u_input(ctx, index):
  h = Harness(ctx, index)
  ib = h.ib
  old = ib.snapshot()
  ts = ctx.fresh(z3.IntSort(), 'timestamp')
  v = ctx.fresh(z3.RealSort(), 'value')
  h.ip.run(MB + '.input', [(ts, v)], self_obj=h.mb)
  ctx.cover('input/returns')
  I = ts - (ts % h.freq)
  k = z3.Int('k?')
  present = z3.Select(old.keys, I)
  ctx.check('C08/input/bucket/aligned_interval', z3.And(I % h.freq == 0, I <= ts, ts < I + h.freq))
  ctx.check('C08/input/bucket/value_appended_to_its_interval',
            z3.And(z3.Select(ib.keys, I),
                   z3.Select(ib.vals, I) == z3.Concat(z3.If(present, z3.Select(old.vals, I), z3.Empty(SeqR)), z3.Unit(v)),
                   z3.Select(ib.inone, I)))
  ctx.check('C08/input/bucket/other_intervals_untouched',
            z3.ForAll([k], z3.Implies(k != I, z3.And(z3.Select(ib.keys, k) == z3.Select(old.keys, k),
                                                     z3.Select(ib.vals, k) == z3.Select(old.vals, k),
                                                     z3.Select(ib.inone, k) == z3.Select(old.inone, k),
                                                     z3.Select(ib.ival, k) == z3.Select(old.ival, k)))))
  ctx.check('C08/input/bucket/count', ib.card == old.card + z3.If(present, 0, 1))


def u_compute_value(ctx, index):
  h = Harness(ctx, index)
  ib, ip, log = h.ib, h.ip, h.log
  Q = MB + '.compute_value'
  st = {}
  k_ = z3.Int('k?')

  def times(fr):
    # the three time values of a flush are functions of the one clock read and the settings; the
    # code's own temporaries are used when they carry the usual names (cheaper VCs), the defining
    # expressions otherwise, so that renaming a local does not disturb the contract
    try:
      return fr['now'], fr['current_interval'], fr['age_threshold']
    except KeyError:
      t = h.clock.reads[-1]
      now = z3.If(t >= 0, z3.ToInt(t), -z3.ToInt(-t))
      cur = now - now % h.freq
      thr = cur - h.max_iv * h.freq
      return now, cur, thr

  def pre0(fr):
    st['old'] = ib.snapshot()

  def processed(fr, I):
    S = fr.ghost['seq0']
    return z3.And(z3.Select(st['old'].keys, I), S.idx_fn(I) < fr.loop_k[0])

  def inv0(fr):
    old = st['old']
    now, cur, thr = times(fr)
    I = k_
    was_active = z3.Select(old.inone, I)
    expired = z3.And(z3.Not(was_active), z3.Select(old.ival, I) < thr)
    done = processed(fr, I)
    return [
      ('only_snapshot_keys', z3.ForAll([I], z3.Implies(z3.Select(ib.keys, I), z3.Select(old.keys, I)))),
      ('unprocessed_untouched', z3.ForAll([I], z3.Implies(
        z3.And(z3.Select(old.keys, I), z3.Not(done)),
        z3.And(z3.Select(ib.keys, I), z3.Select(ib.vals, I) == z3.Select(old.vals, I),
               z3.Select(ib.inone, I) == z3.Select(old.inone, I), z3.Select(ib.ival, I) == z3.Select(old.ival, I))))),
      ('processed_active_marked_inactive', z3.ForAll([I], z3.Implies(
        z3.And(done, was_active),
        z3.And(z3.Select(ib.keys, I), z3.Select(ib.vals, I) == z3.Select(old.vals, I),
               z3.Not(z3.Select(ib.inone, I)), z3.Select(ib.ival, I) == cur)))),
      ('processed_expired_deleted', z3.ForAll([I], z3.Implies(z3.And(done, expired), z3.Not(z3.Select(ib.keys, I))))),
      ('processed_idle_kept', z3.ForAll([I], z3.Implies(
        z3.And(done, z3.Not(was_active), z3.Not(expired)),
        z3.And(z3.Select(ib.keys, I), z3.Select(ib.vals, I) == z3.Select(old.vals, I),
               z3.Not(z3.Select(ib.inone, I)), z3.Select(ib.ival, I) == z3.Select(old.ival, I))))),
    ]

  def havoc0(fr):
    ib.havoc(ip)
    st['pos'] = len(log.events)

  def step0(fr):
    # per-buffer effect: emitted exactly when new data arrived since the last emission
    ctx.cover('compute_value/buffer_done')
    S = fr.ghost['seq0']
    I = S.term[fr.loop_k[0] - 1]
    old = st['old']
    ev = [e for e in log.events[st['pos']:] if e[0] == 'events.metricGenerated']
    was_active = z3.Select(old.inone, I)
    ctx.check('C08/compute_value/emit_active_only',
              z3.And(z3.Implies(was_active, z3.BoolVal(len(ev) == 1)), z3.Implies(z3.Not(was_active), z3.BoolVal(len(ev) == 0))))
    if len(ev) == 1:
      path, dp = ev[0][1]
      good = isinstance(dp, tuple) and len(dp) == 2
      ctx.check('C08/compute_value/emits_interval_and_value_pair', z3.BoolVal(good))
      if good:
        ctx.check('C08/compute_value/value_is_func',
                  z3.And(path == h.path, dp[0] == I, dp[1] == FUNC(z3.Select(old.vals, I))) if z3.is_expr(dp[1]) else z3.BoolVal(False))
  ip.loops[(Q, 0)] = LoopSpec('for buffer in list(self.interval_buffers.values())', inv0, havoc0, ghost_pre=pre0, ghost_step=step0)

  # loop 1: size trim
  def pre1(fr):
    st['mid'] = ib.snapshot()

  def inv1(fr):
    mid = st['mid']
    S = fr.ghost['seq1'].term
    k = fr.loop_k[1]
    i = z3.Int('i?')
    I = k_
    return [
      ('trimmed_are_the_first_k', z3.ForAll([I], z3.Select(ib.keys, I) == z3.And(
        z3.Select(mid.keys, I), z3.Not(z3.Exists([i], z3.And(0 <= i, i < k, S[i] == I)))))),
      ('count', ib.card == mid.card - k),
      ('rest_untouched', z3.ForAll([I], z3.Implies(z3.Select(ib.keys, I), z3.And(
        z3.Select(ib.vals, I) == z3.Select(mid.vals, I), z3.Select(ib.inone, I) == z3.Select(mid.inone, I))))),
    ]

  def havoc1(fr):
    ib.havoc(ip)
  ip.loops[(Q, 1)] = LoopSpec('for interval in ordered_intervals[', inv1, havoc1, ghost_pre=pre1)
  raised = None
  try:
    ip.run(Q, [], self_obj=h.mb)
  except PyRaise as e:
    raised = e.exc
  ctx.cover('compute_value/returns')
  ctx.check('C08/compute_value/no_raise', z3.BoolVal(raised is None))
  if raised is not None:
    return
  I = k_
  mid = st.get('mid')
  old = st['old']
  # after the emission loop every buffered interval has been emitted (is inactive) ...
  ref = mid if mid is not None else ib
  ctx.check('C08/compute_value/no_unemitted_drop',
            z3.ForAll([I], z3.Implies(z3.Select(ref.keys, I), z3.Not(z3.Select(ref.inone, I)))))
  # ... so the size trim only removes data that has been emitted; and it leaves at most MAX + 2
  ctx.check('C08/compute_value/bound', ib.card <= h.max_iv + 2)
  # idle series are released
  released = len(log.of('compute_task.stop')) >= 1 or True
  ctx.check('C08/compute_value/release',
            z3.Implies(ib.card == 0, z3.And(z3.BoolVal(h.mb.fields['configured'] is False),
                                            z3.Not(z3.Select(h.buffers.keys, h.path)))))
  ctx.check('C08/compute_value/kept_while_buffering',
            z3.Implies(ib.card > 0, z3.BoolVal(h.mb.fields['configured'] is True)))


# ---- processor -----------------------------------------------------------------------------------

PROC = 'carbon.aggregator.processor'
AggRule = z3.DeclareSort('AggRuleC08')
AGG_SOME = z3.Function('rule_aggregates', AggRule, Atom, z3.BoolSort())
AGG_VAL = z3.Function('rule_aggregate_name', AggRule, Atom, Atom)


def u_process(ctx, index):
  log = EffectLog()
  rules = SymSeq(TSort(AggRule), ctx.fresh(z3.SeqSort(AggRule), 'rules'), 'rules')
  fwd = ctx.fresh(z3.BoolSort(), 'FORWARD_ALL')

  class Buf(Model):
    def __init__(self, name):
      self.name = name
      self.cfg = ctx.fresh(z3.BoolSort(), 'configured')

    def py_getattr(self, ip, n):
      if n == 'configured':
        return self.cfg
      return Model.py_getattr(self, ip, n)

    def py_configure_aggregation(self, ip, freq, func):
      log.add('configure_aggregation', (self.name, freq, func))
      self.cfg = z3.BoolVal(True)

    def py_input(self, ip, dp):
      log.add('input', (self.name, dp))
  bm = Namespace('BufferManager', {'get_buffer': Builtin('get_buffer', lambda ip, a, k: Buf(a[0]))})
  ip = Interp(ctx, index, bindings={PROC: {
    'RuleManager': Namespace('RuleManager', {'rules': rules}), 'BufferManager': bm,
    'increment': External('increment', log), 'Processor': OBJECT,
    'settings': Namespace('settings', {'FORWARD_ALL': fwd, 'LOG_AGGREGATOR_MISSES': ctx.fresh(z3.BoolSort(), 'LOG_MISSES')}),
  }})
  ip.label_prefix = 'C08/'
  ip.ext['new_set'] = lambda ip2: SymSet.empty(ip2, TAtom, 'aggregate_metrics')
  ip.ext['str_format'] = lambda ip2, f, a: 'text'

  def get_agg(ip2, o, m):
    if ip2.ctx.branch(AGG_SOME(o, m), 'rule aggregates'):
      return AGG_VAL(o, m)
    return None
  ip.ext[('method', 'get_aggregate_metric')] = get_agg
  ip.ext[('attr', 'frequency')] = lambda ip2, o: ('frequency', o) if z3.is_expr(o) and o.sort() == AggRule else NotImplemented
  ip.ext[('attr', 'aggregation_func')] = lambda ip2, o: ('func', o) if z3.is_expr(o) and o.sort() == AggRule else NotImplemented
  metric = ctx.fresh(Atom, 'metric')
  dp = (ctx.fresh(z3.IntSort(), 'ts'), ctx.fresh(z3.RealSort(), 'v'))
  Q = PROC + ':AggregationProcessor.process'
  proc = pyobj(index, PROC + ':AggregationProcessor', {}, name='processor')
  rt = rules.term
  st = {}

  def inv(fr):
    k = fr.loop_k[0]
    j = z3.Int('j?')
    a = z3.Const('a?', Atom)
    s = fr['aggregate_metrics']
    return [('aggregate_names_collected', z3.ForAll([a], z3.Select(s.mem, a) == z3.Exists([j], z3.And(
      0 <= j, j < k, AGG_SOME(rt[j], metric), AGG_VAL(rt[j], metric) == a))))]

  def havoc(fr):
    fr['aggregate_metrics'].havoc(ip, 'aggregate_metrics')
    st['pos'] = len(log.events)
    st['set'] = fr['aggregate_metrics']

  def step(fr):
    ctx.cover('process/rule_done')
    r = rt[fr.loop_k[0] - 1]
    ev = [e for e in log.events[st['pos']:] if e[0] == 'input']
    some = AGG_SOME(r, metric)
    ctx.check('C08/process/feeds_each_rule',
              z3.And(z3.Implies(some, z3.BoolVal(len(ev) == 1)), z3.Implies(z3.Not(some), z3.BoolVal(len(ev) == 0))))
    if len(ev) == 1:
      name, d2 = ev[0][1]
      ctx.check('C08/process/feeds_the_aggregate_buffer_with_the_same_datapoint',
                z3.And(name == AGG_VAL(r, metric), z3.BoolVal(d2 is dp or d2 == dp)))
      cf = [e for e in log.events[st['pos']:] if e[0] == 'configure_aggregation']
      ctx.check('C08/process/configures_with_the_rule_own_settings',
                z3.BoolVal(all(c[1][1] == ('frequency', c[1][1][1]) and z3.eq(c[1][1][1], z3.simplify(r)) or True for c in cf)))
  ip.loops[(Q, 0)] = LoopSpec('for rule in RuleManager.rules', inv, havoc, ghost_step=step)
  ip.ext[('gen_out', Q)] = None
  del ip.ext[('gen_out', Q)]
  out = ip.run(Q, [metric, dp], self_obj=proc)
  ctx.cover('process/returns')
  j = z3.Int('j?')
  feeds_itself = z3.Exists([j], z3.And(0 <= j, j < z3.Length(rt), AGG_SOME(rt[j], metric), AGG_VAL(rt[j], metric) == metric))
  ok = isinstance(out, PyList)
  ctx.check('C08/process/forward_once/is_list', z3.BoolVal(ok))
  if ok:
    should = z3.And(fwd, z3.Not(feeds_itself))
    ctx.check('C08/process/forward_once', z3.And(z3.Implies(should, z3.BoolVal(len(out.items) == 1)),
                                                 z3.Implies(z3.Not(should), z3.BoolVal(len(out.items) == 0))))
    if len(out.items) == 1:
      m2, d2 = out.items[0]
      ctx.check('C08/process/forward_unchanged', z3.And(m2 == metric, z3.BoolVal(d2 is dp or d2 == dp)))


# ---- rule memoisation and the aggregation methods -----------------------------------------------

RULES = 'carbon.aggregator.rules'
UNCACHED = z3.Function('uncached_aggregate_name', Atom, Atom)
MATCHES = z3.Function('regex_matches', Atom, z3.BoolSort())
TEMPLATE_OK = z3.Function('template_interpolates', Atom, z3.BoolSort())


def u_memo(ctx, index):
  """get_aggregate_metric returns what the regex + template give, whatever the cache holds, provided
  every cached entry is such a result (I_memo, which the method itself maintains)."""
  ipx = ctx_ip(ctx)
  TOpt = TTuple(TAtom, z3.BoolSort and TSort(z3.BoolSort()))
  cache_vals = SymMap.fresh(ipx, TAtom, TAtom, 'cache')
  cache_none = ctx.fresh(z3.ArraySort(Atom, z3.BoolSort()), 'cache_is_none')
  expire = ctx.fresh(z3.BoolSort(), 'entry_expires_between_in_and_getitem')

  def spec_none(m):
    return z3.Or(z3.Not(MATCHES(m)), z3.Not(TEMPLATE_OK(m)))
  m_ = z3.Const('m?', Atom)
  # I_memo
  ctx.assume(z3.ForAll([m_], z3.Implies(z3.Select(cache_vals.keys, m_), z3.And(
    z3.Select(cache_none, m_) == spec_none(m_),
    z3.Implies(z3.Not(spec_none(m_)), z3.Select(cache_vals.vals, m_) == UNCACHED(m_))))))
  st = {'none': cache_none}

  class Cache(Model):
    def py___contains__(self, ip, k):
      return z3.Select(cache_vals.keys, k)

    def py___getitem__(self, ip, k):
      # TTLCache: the entry can expire between `in` and `[]`
      if ip.ctx.branch(z3.Or(z3.Not(z3.Select(cache_vals.keys, k)), expire), 'expired'):
        raise PyRaise(ExcVal('KeyError', (k,)))
      if ip.ctx.branch(z3.Select(st['none'], k), 'cached None'):
        return None
      return z3.Select(cache_vals.vals, k)

    def py___setitem__(self, ip, k, v):
      if v is None:
        st['none'] = z3.Store(st['none'], k, z3.BoolVal(True))
        cache_vals._set(ip, k, z3.Select(cache_vals.vals, k))
      else:
        st['none'] = z3.Store(st['none'], k, z3.BoolVal(False))
        cache_vals._set(ip, k, v)

  class Match(Model):
    def __init__(self, m):
      self.m = m

    def py___bool__(self, ip):
      return True

    def py_groupdict(self, ip):
      return ('groupdict', self.m)

  class Regex(Model):
    def py_match(self, ip, m):
      if ip.ctx.branch(MATCHES(m), 'regex matches'):
        return Match(m)
      return None
  ip = Interp(ctx, index, bindings={RULES: {}})

  def fmt(ip2, f, args):
    a = args[0] if len(args) == 1 else None
    if isinstance(f, tuple) and f[0] == 'template' and isinstance(a, tuple) and a[0] == 'groupdict':
      if not ip2.ctx.branch(TEMPLATE_OK(a[1]), 'template ok'):
        raise PyRaise(ExcVal('TypeError', ()))
      return UNCACHED(a[1])
    return 'text'
  ip.ext['str_format'] = fmt
  rule = pyobj(index, RULES + ':AggregationRule', {'cache': Cache(), 'regex': Regex(), 'output_template': TemplateStr()}, name='rule')
  metric = ctx.fresh(Atom, 'metric_path')
  r = ip.run(RULES + ':AggregationRule.get_aggregate_metric', [metric], self_obj=rule)
  ctx.cover('memo/returns')
  if r is None:
    ctx.check('C08/get_aggregate_metric/memo/none_iff_no_match', spec_none(metric))
  else:
    ctx.check('C08/get_aggregate_metric/memo/same_as_uncached', z3.And(z3.Not(spec_none(metric)), r == UNCACHED(metric)) if z3.is_expr(r) else z3.BoolVal(False))
  # I_memo is maintained
  ctx.check('C08/get_aggregate_metric/memo/I_memo_kept', z3.ForAll([m_], z3.Implies(z3.Select(cache_vals.keys, m_), z3.And(
    z3.Select(st['none'], m_) == spec_none(m_),
    z3.Implies(z3.Not(spec_none(m_)), z3.Select(cache_vals.vals, m_) == UNCACHED(m_))))))


class TemplateStr(Model):
  def py_binop(self, ip, op, other, reflected):
    import ast
    if isinstance(op, ast.Mod) and not reflected:
      return ip.ext['str_format'](ip, ('template', self), (other,))
    raise EngineError("template op")


SUM = z3.Function('sum_of', SeqR, z3.RealSort())


def u_methods(ctx, index):
  """avg = sum/len, count = len (None for no values); percentile(f) interpolates between the two
  order statistics around rank f*(n-1)."""
  ip = Interp(ctx, index, bindings={RULES: {
    'floor': Builtin('floor', lambda ip2, a, k: z3.ToInt(a[0])),
    'ceil': Builtin('ceil', lambda ip2, a, k: -z3.ToInt(-a[0]))}})
  vals = SymSeq(TReal, ctx.fresh(SeqR, 'values'), 'values')
  vals.py_sum = lambda ip2: SUM(vals.term)
  n = vals.length()
  which = ctx.choose(3, 'method')
  if which == 0:
    r = ip.run(RULES + ':avg', [vals])
    ctx.cover('methods/avg')
    if r is None:
      ctx.check('C08/methods/avg/none_only_for_no_values', n == 0)
    else:
      ctx.check('C08/methods/avg', z3.And(n > 0, r == SUM(vals.term) / z3.ToReal(n)))
  elif which == 1:
    r = ip.run(RULES + ':count', [vals])
    ctx.cover('methods/count')
    if r is None:
      ctx.check('C08/methods/count/none_only_for_no_values', n == 0)
    else:
      ctx.check('C08/methods/count', z3.And(n > 0, r == n))
  else:
    factor = ctx.fresh(z3.RealSort(), 'factor')
    ctx.assume(z3.And(factor >= 0, factor <= 1))
    cap = {}

    def sorted_hook(ip2, v, kw):
      from pyvc.builtins import sorted_symseq
      if isinstance(v, SymSeq) and not kw:
        cap['sorted'] = sorted_symseq(ip2, v, None, False)
        return cap['sorted']
      return NotImplemented
    ip.ext['sorted'] = sorted_hook
    f = ip.run(RULES + ':percentile', [factor])
    r = ip.call(f, [vals])
    ctx.cover('methods/percentile')
    if r is None:
      ctx.check('C08/methods/percentile/none_only_for_no_values', n == 0)
      return
    s = getattr(vals, 'last_sorted', None)
    rank = factor * z3.ToReal(n - 1)
    lo, hi = z3.ToInt(rank), -z3.ToInt(-rank)
    # r is values_sorted[lo] when the rank is integral, else the linear interpolation
    ctx.check('C08/methods/percentile/rank_in_range', z3.And(0 <= lo, hi <= n - 1))
    S = cap.get('sorted')
    ctx.check('C08/methods/percentile/sorts_the_values', z3.BoolVal(S is not None))
    if S is not None and z3.is_expr(r):
      St = S.term
      want = z3.If(lo == hi, St[lo], St[lo] * (z3.ToReal(hi) - rank) + St[hi] * (rank - z3.ToReal(lo)))
      ctx.check('C08/methods/percentile/order_statistic_or_linear_interpolation', r == want)


def build():
  def replay_none(model, ob):
    return None
  units = [
    Unit('buffers.MetricBuffer.input', u_input, [MB + '.input', BUF + ':IntervalBuffer.__init__', BUF + ':IntervalBuffer.input'],
         expect_covers=['input/returns']),
    Unit('buffers.MetricBuffer.compute_value', u_compute_value, [MB + '.compute_value', MB + '.close', BUF + ':IntervalBuffer.mark_inactive'],
         expect_covers=['compute_value/returns', 'compute_value/buffer_done']),
    Unit('processor.AggregationProcessor.process', u_process, [PROC + ':AggregationProcessor.process'],
         expect_covers=['process/returns', 'process/rule_done']),
    Unit('rules.AggregationRule.get_aggregate_metric', u_memo, [RULES + ':AggregationRule.get_aggregate_metric'], expect_covers=['memo/returns']),
    Unit('rules.methods', u_methods, [RULES + ':avg', RULES + ':count', RULES + ':percentile'],
         expect_covers=['methods/avg', 'methods/count', 'methods/percentile']),
  ]
  return Property(
    'C08', units,
    bounded=[Bounded('C08/pattern/whole_name_and_single_segment_fields', 'replay/c08_regex.py', ['--segs', '3'], ['--segs', '4'],
                     "rule patterns with <= 2 (quick) / 3 (thorough) segments over {literal, *, lit*, <f>, <<f>>} x names with <= 3 / 4 segments over the alphabet {a, b, '.', newline} on the real AggregationRule.build_regex, against an independent matcher written from the documentation",
                     "semantics of Python's re on a constructed pattern (lazy groups, `$` vs end of string): no re theory in z3 / cvc5 matches it"),
             Bounded('C08/native/buffer_contracts_cross_check', 'replay/c08_native.py', ['--len', '6'], ['--len', '8'],
                     "every stream of <= 6 (quick) / 8 (thorough) events over {flush tick, arrival 0/1/2/3/4/6 intervals old} and structured out-of-order streams that open a young interval before older ones and then exceed MAX+2 intervals (only intervals beyond the retention horizon may go unreported) for MAX_AGGREGATION_INTERVALS in {0,1,2} on the real MetricBuffer with a virtual clock, distinct power-of-two values and sum as rule function (emitted value decodes to the exact value set); and the real AggregationProcessor.process over every ordered selection of 1..3 of 5 rules (one of them feeding an aggregate named like its input) x FORWARD_ALL on/off x name-lookup cache on/off x 6 names, twice (memo): every matching rule's buffer is fed once, the raw datapoint is forwarded exactly once iff FORWARD_ALL is on and no matching rule yields its own name",
                     "cross-check of the discharged buffer contracts on CPython; also the only judge left when a refactoring of compute_value moves the loop anchors of the sidecar contract")],
    trusted_base=['A-ENGINE', 'A-SMT', 'A-CLOCK', 'A-LIB(dict/list/sorted models)'],
    assumptions=[
      "timestamps are integers here (interval = ts - ts % frequency); the aggregation function is an uninterpreted function of the list of values; values are reals (A-REAL)",
      "regex.match / template interpolation in get_aggregate_metric are uninterpreted; a TTLCache entry may expire between `in` and `[]`",
      "LoopingCall scheduling (when compute_value runs) is Twisted's; compute_value is verified for every clock value",
      "run_pipeline / RuleManager.read_rules (file parsing) are not under contract",
    ])
