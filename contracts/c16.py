"""C16 -- rule-based and aggregation-aware routing follow their rule files.

Functions under contract: carbon.routers:RelayRulesRouter.getDestinations (nested loops),
carbon.relayrules:loadRelayRules, RelayRule.matches,
carbon.routers:AggregatedConsistentHashingRouter.getDestinations (four loops).

`rule.matches(key)` / `rule.get_aggregate_metric(key)` are uninterpreted functions of (rule, key)
(regex semantics are not needed: the property is about which rules' destinations are returned
given which rules match; get_aggregate_metric's memoisation is C08's contract).
hash_router.getDestinations(name) is used through C05's contract as an uninterpreted function of
the name (determinism), HR(name).
"""
import ast
import z3

from pyvc.core import EngineError
from pyvc.values import Closure
from pyvc.runner import Bounded, Unit, Property
from pyvc.interp import Interp, LoopSpec, Spec, OBJECT
from pyvc.models import Namespace, SymSeq, SymSet, TSort, TAtom, TInt, TBool, TTuple, PyList, Ty
from pyvc.values import Atom, Model, PyObj, PyRaise, ExcVal, ExcClass, Builtin
from .common import pyobj
from .ring_model import ctx_ip
from .router_units import TDest
from . import config_model as CM
from .config_model import Section, HAS, OPT, OPTBOOL

R = 'carbon.routers'
RR = R + ':RelayRulesRouter'
ACH = R + ':AggregatedConsistentHashingRouter'
RL = 'carbon.relayrules'
Rule = z3.DeclareSort('Rule')
TRule = TSort(Rule)
Dest = TDest.sort
M = z3.Function('rule_matches', Rule, Atom, z3.BoolSort())
CONT = z3.Function('rule_continue', Rule, z3.BoolSort())
DESTS = z3.Function('rule_destinations', Rule, z3.SeqSort(Dest))


def obj_bindings():
  return {'with_metaclass': Builtin('with_metaclass', lambda ip, a, k: OBJECT), 'PluginRegistrar': None}


# ---- RelayRulesRouter.getDestinations -----------------------------------------------------------

def u_rules_get_destinations(ctx, index):
  ipx = ctx_ip(ctx)
  rules = SymSeq(TRule, ctx.fresh(z3.SeqSort(Rule), 'rules'), 'rules')
  configured = SymSet.fresh(ipx, TDest, 'destinations')
  router = pyobj(index, RR, {'rules': rules, 'destinations': configured}, name='router')
  ip = Interp(ctx, index, bindings={R: obj_bindings()})
  ip.label_prefix = 'C16/'
  ip.ext[('method', 'matches')] = lambda ip2, o, key: M(o, key)
  ip.ext[('attr', 'destinations')] = lambda ip2, o: (SymSeq(TDest, DESTS(o), 'rule.destinations')
                                                      if z3.is_expr(o) and o.sort() == Rule else NotImplemented)
  ip.ext[('attr', 'continue_matching')] = lambda ip2, o: (CONT(o) if z3.is_expr(o) and o.sort() == Rule else NotImplemented)
  ip.ext[('gen_out', RR + '.getDestinations')] = lambda ip2: SymSeq.empty(TDest, 'out')
  key = ctx.fresh(Atom, 'key')
  rt = rules.term
  I = z3.IntSort()
  G = {}

  def conf(d):
    return z3.Select(configured.mem, d)

  def common(out, ri, pi, dst, k, pmax):
    """out is the ordered list of configured destinations of the matching rules among rules[:k]
    (all of their destinations) plus, for rule k, its destinations at positions < pmax"""
    a, b, j, p = z3.Int('a?'), z3.Int('b?'), z3.Int('j?'), z3.Int('p?')
    n = z3.Length(out)
    RI = lambda x: z3.Select(ri, x)
    PI = lambda x: z3.Select(pi, x)
    DST = lambda x, y: z3.Select(z3.Select(dst, x), y)
    done = lambda jj, pp: z3.Or(jj < k, z3.And(jj == k, pp < pmax))
    return [
      ('yielded_come_from_matching_rules', z3.ForAll([a], z3.Implies(
        z3.And(0 <= a, a < n),
        z3.And(0 <= RI(a), RI(a) < z3.Length(rt), done(RI(a), PI(a)), M(rt[RI(a)], key),
               0 <= PI(a), PI(a) < z3.Length(DESTS(rt[RI(a)])),
               out[a] == DESTS(rt[RI(a)])[PI(a)], conf(out[a]))))),
      ('file_order_kept', z3.ForAll([a, b], z3.Implies(
        z3.And(0 <= a, a < b, b < n),
        z3.Or(RI(a) < RI(b), z3.And(RI(a) == RI(b), PI(a) < PI(b)))))),
      ('every_configured_destination_of_a_matching_rule_yielded', z3.ForAll([j, p], z3.Implies(
        z3.And(0 <= j, j < z3.Length(rt), M(rt[j], key), 0 <= p, p < z3.Length(DESTS(rt[j])), done(j, p),
               conf(DESTS(rt[j])[p])),
        z3.And(0 <= DST(j, p), DST(j, p) < n, RI(DST(j, p)) == j, PI(DST(j, p)) == p)))),
    ]

  def reached(k):
    j = z3.Int('j?')
    return z3.ForAll([j], z3.Implies(z3.And(0 <= j, j < k, M(rt[j], key)), CONT(rt[j])))

  def fresh_ghost():
    G['ri'] = ctx.fresh(z3.ArraySort(I, I), 'ri')
    G['pi'] = ctx.fresh(z3.ArraySort(I, I), 'pi')
    G['dst'] = ctx.fresh(z3.ArraySort(I, z3.ArraySort(I, I)), 'dst')

  def pre0(fr):
    G['ri'] = z3.K(I, z3.IntVal(0))
    G['pi'] = z3.K(I, z3.IntVal(0))
    G['dst'] = z3.K(I, z3.K(I, z3.IntVal(0)))

  def inv0(fr):
    k = fr.loop_k[0]
    return [('earlier_matches_all_continue', reached(k))] + common(fr.gen_out.term, G['ri'], G['pi'], G['dst'], k, z3.IntVal(0))

  def havoc0(fr):
    fr.gen_out.havoc(ip, 'out')
    fresh_ghost()
    G['exit_out'] = fr.gen_out

  def inv1(fr):
    k = fr.loop_k[0]
    p = fr.loop_k[1]
    return [('earlier_matches_all_continue', reached(k)), ('this_rule_matches', M(rt[k], key))] + \
        common(fr.gen_out.term, G['ri'], G['pi'], G['dst'], k, p)

  def havoc1(fr):
    fr.gen_out.havoc(ip, 'out')
    fresh_ghost()
    G['before'] = fr.gen_out.term

  def step1(fr):
    out = fr.gen_out.term
    n0 = z3.Length(G['before'])
    grew = z3.Length(out) > n0
    k = fr.loop_k[0]
    p = fr.loop_k[1] - 1
    G['ri'] = z3.If(grew, z3.Store(G['ri'], n0, k), G['ri'])
    G['pi'] = z3.If(grew, z3.Store(G['pi'], n0, p), G['pi'])
    G['dst'] = z3.If(grew, z3.Store(G['dst'], k, z3.Store(z3.Select(G['dst'], k), p, n0)), G['dst'])
  Q = RR + '.getDestinations'
  ip.loops[(Q, 0)] = LoopSpec('for rule in self.rules', inv0, havoc0, ghost_pre=pre0, locals_modified=[])
  ip.loops[(Q, 1)] = LoopSpec('for destination in rule.destinations', inv1, havoc1, ghost_step=step1,
                              locals_modified=[])
  raised = None
  try:
    out = ip.run(Q, [key], self_obj=router)
  except PyRaise as e:
    raised = e.exc
  ctx.cover('rules.getDestinations/returns')
  ctx.check('C16/RelayRulesRouter.getDestinations/no_raise', z3.BoolVal(raised is None))
  if raised is not None or not isinstance(out, SymSeq):
    return
  # s = index of the first matching rule that is not marked continue (or len(rules) if none)
  s = ctx.fresh(I, 'stop')
  j = z3.Int('j?')
  L = z3.Length(rt)
  ctx.assume(z3.And(0 <= s, s <= L, reached(s),
                    z3.Implies(s < L, z3.And(M(rt[s], key), z3.Not(CONT(rt[s]))))))
  a = z3.Int('a?')
  o = out.term
  ri, pi, dst = G['ri'], G['pi'], G['dst']
  ctx.check('C16/RelayRulesRouter.getDestinations/configured_only',
            z3.ForAll([a], z3.Implies(z3.And(0 <= a, a < z3.Length(o)), conf(o[a]))))
  ctx.check('C16/RelayRulesRouter.getDestinations/first_match',
            z3.ForAll([a], z3.Implies(z3.And(0 <= a, a < z3.Length(o)),
                                      z3.And(z3.Select(ri, a) <= s, M(rt[z3.Select(ri, a)], key),
                                             o[a] == DESTS(rt[z3.Select(ri, a)])[z3.Select(pi, a)],
                                             0 <= z3.Select(pi, a), z3.Select(pi, a) < z3.Length(DESTS(rt[z3.Select(ri, a)]))))))
  p = z3.Int('p?')
  ctx.check('C16/RelayRulesRouter.getDestinations/continue',
            z3.ForAll([j, p], z3.Implies(
              z3.And(0 <= j, j <= s, j < L, M(rt[j], key), 0 <= p, p < z3.Length(DESTS(rt[j])), conf(DESTS(rt[j])[p])),
              z3.And(0 <= z3.Select(z3.Select(dst, j), p), z3.Select(z3.Select(dst, j), p) < z3.Length(o),
                     o[z3.Select(z3.Select(dst, j), p)] == DESTS(rt[j])[p]))))
  b = z3.Int('b?')
  ctx.check('C16/RelayRulesRouter.getDestinations/file_order',
            z3.ForAll([a, b], z3.Implies(z3.And(0 <= a, a < b, b < z3.Length(o)),
                                         z3.Or(z3.Select(ri, a) < z3.Select(ri, b),
                                               z3.And(z3.Select(ri, a) == z3.Select(ri, b), z3.Select(pi, a) < z3.Select(pi, b))))))


# ---- RelayRule.matches ---------------------------------------------------------------------------

def u_rule_matches(ctx, index):
  COND = z3.Function('condition_result_truthy', Atom, z3.BoolSort())
  ip = Interp(ctx, index, bindings={RL: {}})
  rule = pyobj(index, RL + ':RelayRule', {'condition': Builtin('condition', lambda ip2, a, k: COND(a[0]))}, name='rule')
  m = ctx.fresh(Atom, 'metric')
  r = ip.run(RL + ':RelayRule.matches', [m], self_obj=rule)
  ctx.cover('matches/returns')
  ctx.check('C16/RelayRule.matches/is_condition_of_the_metric', (r if z3.is_expr(r) else z3.BoolVal(bool(r))) == COND(m))


# ---- loadRelayRules ------------------------------------------------------------------------------

TRuleRec = TTuple(TAtom, TAtom, TBool)       # (pattern text, destinations text, continue)
RuleRec = TRuleRec.sort
DEFAULT_RULE = z3.Const('default_rule', RuleRec)


class DestStrings(Model):
  def __init__(self, text):
    self.text = text


class DestsTok(Model):
  def __init__(self, text):
    self.text = text


class TRuleObj(Ty):
  sort = RuleRec

  def __init__(self, made):
    self.made = made

  def enc(self, ip, v):
    if isinstance(v, PyObj) and v.cls is not None and v.cls.name == 'RelayRule':
      self.made.append(v)
      c = v.fields.get('condition')
      d = v.fields.get('destinations')
      if isinstance(c, tuple) and c[0] == 'search' and isinstance(d, DestsTok):
        cm = v.fields.get('continue_matching')
        return TRuleRec.mk(c[1], d.text, cm if z3.is_expr(cm) else z3.BoolVal(bool(cm)))
      always = (isinstance(c, tuple) and c[0] == 'always') or \
          (isinstance(c, Closure) and isinstance(c.node.body, ast.Constant) and c.node.body.value is True)
      if always and isinstance(d, DestsTok):
        return DEFAULT_MK(d.text)
    raise EngineError("rule list element %r" % (v,))


DEFAULT_MK = z3.Function('default_rule_with_destinations', Atom, RuleRec)


def u_load_relay_rules(ctx, index):
  made = []
  ty = TRuleObj(made)
  config = CM.Config(ctx)
  ip = Interp(ctx, index, bindings={RL: {
    'OrderedConfigParser': Builtin('OrderedConfigParser', lambda ip2, a, k: config),
    'CarbonConfigException': ExcClass('CarbonConfigException'),
    'parseDestinations': Builtin('parseDestinations',
                                 lambda ip2, a, k: DestsTok(a[0].text) if isinstance(a[0], DestStrings) else (_ for _ in ()).throw(EngineError('parseDestinations'))),
    're': Namespace('re', {'compile': Builtin('re.compile', lambda ip2, a, k: RegexObj(a[0], a[1:])), 'I': 're.I'}),
  }})
  ip.label_prefix = 'C16/'
  ip.ext['str_format'] = lambda ip2, fmt, args: 'text'
  ip.ext[('method', 'split')] = lambda ip2, o, sep: DestStrings(o)
  secs = config.sections.term
  patt, dflt, dests, cont = ip.atom('pattern'), ip.atom('default'), ip.atom('destinations'), ip.atom('continue')
  path = ctx.fresh(Atom, 'path')

  def accepted(sec):
    return HAS(sec, patt)

  def same(elem, sec):
    return elem == TRuleRec.mk(OPT(sec, patt), OPT(sec, dests), z3.If(HAS(sec, cont), OPTBOOL(sec, cont), z3.BoolVal(False)))

  def lst(fr):
    v = fr['rules']
    if isinstance(v, PyList):
      v = v.to_symseq(ip, ty)
      v.name = 'rules'
      fr.locals['rules'] = v
    return v
  G = {}

  def is_default(sec):
    return z3.And(z3.Not(HAS(sec, patt)), HAS(sec, dflt), OPTBOOL(sec, dflt))

  def inv(fr):
    k = fr.loop_k[0]
    j = z3.Int('j?')
    dr = fr.locals.get('defaultRule')
    have_default = dr is not None
    base = CM.ordered_filter_inv(lst(fr).term, secs, k, fr.ghost['of_src'], fr.ghost['of_dst'], accepted, same)
    base.append(('every_section_so_far_has_destinations',
                 z3.ForAll([j], z3.Implies(z3.And(0 <= j, j < k), HAS(secs[j], dests)))))
    base.append(('no_section_with_pattern_and_default',
                 z3.ForAll([j], z3.Implies(z3.And(0 <= j, j < k), z3.Not(z3.And(HAS(secs[j], patt), HAS(secs[j], dflt)))))))
    if have_default:
      w = fr.ghost['default_at']
      base.append(('default_rule_comes_from_the_one_default_section',
                   z3.And(0 <= w, w < k, is_default(secs[w]),
                          z3.ForAll([j], z3.Implies(z3.And(0 <= j, j < k, j != w), z3.Not(is_default(secs[j])))),
                          z3.BoolVal(isinstance(dr.fields.get('destinations'), DestsTok)),
                          (dr.fields['destinations'].text == OPT(secs[w], dests))
                          if isinstance(dr.fields.get('destinations'), DestsTok) else z3.BoolVal(False))))
    else:
      base.append(('no_default_section_yet',
                   z3.ForAll([j], z3.Implies(z3.And(0 <= j, j < k), z3.Not(is_default(secs[j]))))))
    return base

  def pre(fr):
    lst(fr)
    fr.ghost['of_src'] = z3.K(z3.IntSort(), z3.IntVal(0))
    fr.ghost['of_dst'] = z3.K(z3.IntSort(), z3.IntVal(0))
    fr.ghost['default_at'] = z3.IntVal(0)

  def havoc(fr):
    lst(fr).havoc(ip, 'rules')
    CM.ordered_filter_ghost(ctx, fr)
    fr.ghost['before'] = lst(fr).term
    fr.ghost['default_at'] = ctx.fresh(z3.IntSort(), 'default_at')
    # the loop may be entered with or without a default rule already seen
    if ctx.choose(2, 'defaultRule seen') == 1:
      txt = ctx.fresh(Atom, 'default_dests')
      fr.locals['defaultRule'] = PyObj(index.cls(RL + ':RelayRule'),
                                       {'condition': ('always',), 'destinations': DestsTok(txt), 'continue_matching': False})
    else:
      fr.locals['defaultRule'] = None
    fr.ghost['had_default'] = fr.locals['defaultRule'] is not None
    made[:] = []
    G['exit'] = (fr.ghost['of_src'], fr.ghost['of_dst'], fr)

  def step(fr):
    k_done = fr.loop_k[0] - 1
    CM.ordered_filter_step(fr, lst(fr).term, fr.ghost['before'], k_done)
    if fr.locals.get('defaultRule') is not None and not fr.ghost['had_default']:
      fr.ghost['default_at'] = k_done
  Q = RL + ':loadRelayRules'
  ip.loops[(Q, 0)] = LoopSpec('for section in parser.sections()', inv, havoc, ghost_pre=pre, ghost_step=step,
                              locals_modified=['defaultRule'])
  ip.ext[('new', RL + ':RelayRule')] = None
  del ip.ext[('new', RL + ':RelayRule')]
  raised, r = None, None
  try:
    r = ip.run(Q, [path])
  except PyRaise as e:
    raised = e.exc
  ctx.cover('loadRelayRules/ends')
  if raised is not None:
    ctx.cover('loadRelayRules/aborts')
    ctx.check('aux/loadRelayRules/aborts_only_with_config_errors',
              z3.BoolVal(raised.cls_name in ('CarbonConfigException', 'ValueError', 're.error', 'Exception')))
    return
  ctx.cover('loadRelayRules/returns')
  if not isinstance(r, SymSeq):
    ctx.check('C16/loadRelayRules/returns_a_list', z3.BoolVal(False))
    return
  src, dst, fr = G['exit']
  n = r.length()
  w = fr.ghost['default_at']
  L = z3.Length(secs)
  j = z3.Int('j?')
  ctx.check('C16/loadRelayRules/default_last',
            z3.And(n >= 1, 0 <= w, w < L, is_default(secs[w]), r.term[n - 1] == DEFAULT_MK(OPT(secs[w], dests)),
                   z3.ForAll([j], z3.Implies(z3.And(0 <= j, j < L, j != w), z3.Not(is_default(secs[j]))))))
  body = z3.SubSeq(r.term, 0, n - 1)
  for l, f in CM.ordered_filter_inv(body, secs, L, src, dst, accepted, same):
    ctx.check('C16/loadRelayRules/order/' + l, f)


class RegexObj(Model):
  def __init__(self, pat, flags):
    self.pat = pat
    self.flags = flags

  def py_getattr(self, ip, name):
    if name == 'search':
      if tuple(self.flags) != ('re.I',):
        # not the case-insensitive search the rule file format promises: a different condition
        return ('search', z3.Function('pattern_with_other_flags', Atom, Atom)(self.pat))
      return ('search', self.pat)
    return Model.py_getattr(self, ip, name)


# ---- AggregatedConsistentHashingRouter.getDestinations -----------------------------------------

AggRule = z3.DeclareSort('AggRule')
TAggRule = TSort(AggRule)
AGG_SOME = z3.Function('aggregate_metric_is_some', AggRule, Atom, z3.BoolSort())
AGG_VAL = z3.Function('aggregate_metric', AggRule, Atom, Atom)
HR = z3.Function('hash_router_destinations', Atom, z3.SeqSort(Dest))


def u_agg_get_destinations(ctx, index):
  rules = SymSeq(TAggRule, ctx.fresh(z3.SeqSort(AggRule), 'agg_rules'), 'agg_rules')
  mgr = Namespace('RuleManager', {'rules': rules})

  class HashRouter(Model):
    def py_getDestinations(self, ip2, name):
      return SymSeq(TDest, HR(TAtom.enc(ip2, name)), 'hr')
  router = pyobj(index, ACH, {'hash_router': HashRouter(), 'agg_rules_manager': mgr}, name='agg_router')
  ip = Interp(ctx, index, bindings={R: obj_bindings()})
  ip.label_prefix = 'C16/'

  def get_agg(ip2, o, key):
    if ip2.ctx.branch(AGG_SOME(o, key), 'rule aggregates'):
      return AGG_VAL(o, key)
    return None
  ip.ext[('method', 'get_aggregate_metric')] = get_agg
  ip.ext['new_set'] = lambda ip2: SymSet.empty(ip2, TDest, 'destinations')
  ip.ext[('gen_out', ACH + '.getDestinations')] = lambda ip2: SymSeq.empty(TDest, 'out')
  key = ctx.fresh(Atom, 'key')
  rt = rules.term
  I = z3.IntSort()
  Q = ACH + '.getDestinations'
  G = {}

  def resolved(fr):
    v = fr['resolved_metrics']
    if isinstance(v, PyList):
      v = v.to_symseq(ip, TAtom)
      v.name = 'resolved_metrics'
      fr.locals['resolved_metrics'] = v
    return v

  def accepted(rule):
    return AGG_SOME(rule, key)

  def same(elem, rule):
    return elem == AGG_VAL(rule, key)

  def pre0(fr):
    resolved(fr)
    fr.ghost['of_src'] = z3.K(I, z3.IntVal(0))
    fr.ghost['of_dst'] = z3.K(I, z3.IntVal(0))

  def inv0(fr):
    return CM.ordered_filter_inv(resolved(fr).term, rt, fr.loop_k[0], fr.ghost['of_src'], fr.ghost['of_dst'], accepted, same)

  def havoc0(fr):
    resolved(fr).havoc(ip, 'resolved_metrics')
    CM.ordered_filter_ghost(ctx, fr)
    fr.ghost['before'] = resolved(fr).term
    G['res_ghost'] = (fr.ghost['of_src'], fr.ghost['of_dst'])

  def step0(fr):
    CM.ordered_filter_step(fr, resolved(fr).term, fr.ghost['before'], fr.loop_k[0] - 1)
  ip.loops[(Q, 0)] = LoopSpec('for rule in self.agg_rules_manager.rules', inv0, havoc0, ghost_pre=pre0, ghost_step=step0,
                              locals_modified=[])

  # loops 1/2: destinations == union of HR(resolved[i]) for i < k1 (plus positions < k2 of resolved[k1])
  def union_inv(fr, k1, k2):
    res = resolved(fr).term
    dset = fr['destinations']
    d = z3.Const('d?', Dest)
    i, p = z3.Int('i?'), z3.Int('p?')
    wi, wp = G['wi'], G['wp']
    done = lambda ii, pp: z3.Or(ii < k1, z3.And(ii == k1, pp < k2))
    return [
      ('collected_come_from_resolved_names', z3.ForAll([d], z3.Implies(
        z3.Select(dset.mem, d),
        z3.And(0 <= z3.Select(wi, d), z3.Select(wi, d) < z3.Length(res), 0 <= z3.Select(wp, d),
               z3.Select(wp, d) < z3.Length(HR(res[z3.Select(wi, d)])), done(z3.Select(wi, d), z3.Select(wp, d)),
               HR(res[z3.Select(wi, d)])[z3.Select(wp, d)] == d)))),
      ('all_destinations_of_resolved_names_collected', z3.ForAll([i, p], z3.Implies(
        z3.And(0 <= i, i < z3.Length(res), 0 <= p, p < z3.Length(HR(res[i])), done(i, p)),
        z3.Select(dset.mem, HR(res[i])[p])))),
    ]

  def pre1(fr):
    G['wi'] = z3.K(Dest, z3.IntVal(0))
    G['wp'] = z3.K(Dest, z3.IntVal(0))

  def inv1(fr):
    return union_inv(fr, fr.loop_k[1], z3.IntVal(0))

  def havoc12(fr):
    fr['destinations'].havoc(ip, 'destinations')
    G['wi'] = ctx.fresh(z3.ArraySort(Dest, I), 'wi')
    G['wp'] = ctx.fresh(z3.ArraySort(Dest, I), 'wp')
    G['dset_before'] = fr['destinations'].snapshot()
  ip.loops[(Q, 1)] = LoopSpec('for resolved_metric in resolved_metrics', inv1, havoc12, ghost_pre=pre1,
                              locals_modified=[])

  def inv2(fr):
    return union_inv(fr, fr.loop_k[1], fr.loop_k[2])

  def step2(fr):
    # the destination just added (if it was new) is witnessed by (k1, k2-1)
    d = fr['destination']
    from .router_units import TDest as TD
    dz = TD.enc(ip, d)
    was = z3.Select(G['dset_before'].mem, dz)
    G['wi'] = z3.If(was, G['wi'], z3.Store(G['wi'], dz, fr.loop_k[1]))
    G['wp'] = z3.If(was, G['wp'], z3.Store(G['wp'], dz, fr.loop_k[2] - 1))
  ip.loops[(Q, 2)] = LoopSpec('for destination in self.hash_router.getDestinations(', inv2, havoc12,
                              ghost_step=step2, locals_modified=[])

  def inv3(fr):
    k = fr.loop_k[3]
    return [('out_is_prefix_of_the_set_elements', fr.gen_out.term == z3.SubSeq(fr.ghost['seq3'].term, 0, k))]

  def havoc3(fr):
    fr.gen_out.havoc(ip, 'out')
    G['elems'] = fr.ghost['seq3']
  ip.loops[(Q, 3)] = LoopSpec('for destination in destinations', inv3, havoc3, locals_modified=[])
  raised = None
  try:
    out = ip.run(Q, [key], self_obj=router)
  except PyRaise as e:
    raised = e.exc
  ctx.cover('agg.getDestinations/returns')
  ctx.check('C16/Aggregated.getDestinations/no_raise', z3.BoolVal(raised is None))
  if raised is not None or not isinstance(out, SymSeq):
    return
  # spec: names = [agg(r, key) | r in rules, agg is some] or [key];  set(out) == U set(HR(name))
  j, p, a = z3.Int('j?'), z3.Int('p?'), z3.Int('a?')
  d = z3.Const('d?', Dest)
  L = z3.Length(rt)
  none_agg = z3.ForAll([j], z3.Implies(z3.And(0 <= j, j < L), z3.Not(AGG_SOME(rt[j], key))))
  o = out.term
  # (superset) every destination of every aggregate name is returned  -- co-location
  elems = G.get('elems')
  idx = getattr(elems, 'idx_fn', None) if elems is not None else None
  ctx.check('C16/Aggregated.getDestinations/result_enumerates_the_collected_set', z3.BoolVal(idx is not None))
  if idx is None:
    return
  ctx.check('C16/Aggregated.getDestinations/union/covers_every_aggregate_name',
            z3.ForAll([j, p], z3.Implies(
              z3.And(0 <= j, j < L, AGG_SOME(rt[j], key), 0 <= p, p < z3.Length(HR(AGG_VAL(rt[j], key)))),
              z3.And(0 <= idx(HR(AGG_VAL(rt[j], key))[p]), idx(HR(AGG_VAL(rt[j], key))[p]) < z3.Length(o),
                     o[idx(HR(AGG_VAL(rt[j], key))[p])] == HR(AGG_VAL(rt[j], key))[p]))))
  ctx.check('C16/Aggregated.getDestinations/union/unmatched_routed_by_own_name',
            z3.Implies(none_agg, z3.ForAll([p], z3.Implies(
              z3.And(0 <= p, p < z3.Length(HR(key))),
              z3.And(0 <= idx(HR(key)[p]), idx(HR(key)[p]) < z3.Length(o), o[idx(HR(key)[p])] == HR(key)[p])))))
  # (subset) nothing else is returned
  wi, wp = G['wi'], G['wp']
  src = G['res_ghost'][0]
  ctx.check('C16/Aggregated.getDestinations/union/only_destinations_of_the_resolved_names',
            z3.ForAll([a], z3.Implies(
              z3.And(0 <= a, a < z3.Length(o)),
              z3.Or(z3.And(none_agg, HR(key)[z3.Select(wp, o[a])] == o[a], 0 <= z3.Select(wp, o[a]),
                           z3.Select(wp, o[a]) < z3.Length(HR(key))),
                    z3.Exists([j], z3.And(0 <= j, j < L, AGG_SOME(rt[j], key),
                                          0 <= z3.Select(wp, o[a]), z3.Select(wp, o[a]) < z3.Length(HR(AGG_VAL(rt[j], key))),
                                          HR(AGG_VAL(rt[j], key))[z3.Select(wp, o[a])] == o[a]))))))
  ctx.check('C16/Aggregated.getDestinations/no_duplicates',
            z3.ForAll([a, p], z3.Implies(z3.And(0 <= a, a < p, p < z3.Length(o)), o[a] != o[p])))


def u_colocation(ctx, index):
  """Lemma over the contract above + determinism of the hash router (C05): two metrics that the
  same rule maps to the same aggregate name both contain HR(name) in their destination sets."""
  m1, m2 = ctx.fresh(Atom, 'm1'), ctx.fresh(Atom, 'm2')
  r = ctx.fresh(AggRule, 'rule')
  out1 = ctx.fresh(z3.SeqSort(Dest), 'out1')
  out2 = ctx.fresh(z3.SeqSort(Dest), 'out2')
  p = z3.Int('p?')
  name = AGG_VAL(r, m1)
  ctx.assume(z3.And(AGG_SOME(r, m1), AGG_SOME(r, m2), AGG_VAL(r, m2) == name))
  for o in (out1, out2):
    ctx.assume(z3.ForAll([p], z3.Implies(z3.And(0 <= p, p < z3.Length(HR(name))), z3.Contains(o, z3.Unit(HR(name)[p])))))
  ctx.cover('colocation/stated')
  q = ctx.fresh(z3.IntSort(), 'q')
  ctx.assume(z3.And(0 <= q, q < z3.Length(HR(name))))
  ctx.check('C16/lemma/colocation', z3.And(z3.Contains(out1, z3.Unit(HR(name)[q])), z3.Contains(out2, z3.Unit(HR(name)[q]))))


def build():
  units = [
    Unit('routers.RelayRulesRouter.getDestinations', u_rules_get_destinations, [RR + '.getDestinations'],
         expect_covers=['rules.getDestinations/returns']),
    Unit('relayrules.RelayRule.matches', u_rule_matches, [RL + ':RelayRule.matches'], expect_covers=['matches/returns']),
    Unit('relayrules.loadRelayRules', u_load_relay_rules, [RL + ':loadRelayRules', RL + ':RelayRule.__init__'],
         expect_covers=['loadRelayRules/returns', 'loadRelayRules/aborts']),
    Unit('routers.AggregatedConsistentHashingRouter.getDestinations', u_agg_get_destinations, [ACH + '.getDestinations'],
         expect_covers=['agg.getDestinations/returns']),
    Unit('C16/lemma/colocation', u_colocation, [], expect_covers=['colocation/stated']),
  ]
  return Property(
    'C16', units,
    bounded=[Bounded('C16/native/routing_cross_check', 'replay/routing_native.py', ['--what', 'rules', '--n', '100'], ['--what', 'rules', '--n', '3000', '--thorough'],
                     '100 (quick) / 3000 (thorough) generated relay-rules files (1..6 sections from a pattern pool, continue flags in several spellings, default placement, ignored `default = false` sections, destination subsets) x 4 configured subsets x 10 metric names against an independent reading of the file; generated aggregation-rules files x 12 names on both aggregation-aware routers: destinations are the hash destinations of the aggregate names (own name when none), inputs of one aggregate meet',
                     "loadRelayRules' file parsing is under A-CONF and regex matching is uninterpreted in the proof; this runs parser, regex and router together on CPython")],
    trusted_base=['A-ENGINE', 'A-SMT', 'A-CONF', 'A-LIB(set/list models)'],
    assumptions=[
      "rule.matches(key) and rule.get_aggregate_metric(key) are uninterpreted functions of (rule, key); get_aggregate_metric's memoisation is C08's contract",
      "hash_router.getDestinations(name) is a function of the name while the destination set is unchanged (C05 determinism), written HR(name)",
      "A-CONF for loadRelayRules; parseDestinations and the regex are opaque functions of the section's text; the rule's condition is regex.search compiled with re.I",
      "FastAggregatedHashingRouter shares getDestinations with the class verified here",
    ])
