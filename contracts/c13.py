"""C13 -- the default unpickler cannot be made to load or call arbitrary globals.

Functions under contract: carbon.util:SafeUnpickler.find_class (both definitions: the cPickle
variant #0 and the pickle.Unpickler subclass #1 that is live on Python 3), SafeUnpickler.loads
(#1), get_unpickler; call sites in carbon/protocols.py (syntactic obligations).

find_class(module, name): returns normally  ==>  (module, name) in ALLOW, where ALLOW is pinned
here (so widening PICKLE_SAFE fails an obligation); __import__ runs only for allow-listed modules;
everything else raises UnpicklingError without importing or looking anything up.
The step from "find_class is safe" to "no byte string reaches a global" is A-PICKLE: CPython's
Unpickler obtains every global through self.find_class (assumed contract on a dependency,
cross-checked by the bounded opcode-route sweep replay/c13_pickle_sweep.py).
"""
import ast
import z3

from pyvc.runner import Unit, Property, Syntactic, Bounded
from pyvc.interp import Interp, OBJECT
from pyvc.models import Namespace, External, EffectLog, TAtom
from pyvc.values import Atom, Model, ModelClass, PyObj, PyRaise, ExcClass, Builtin, RepoClass
from .common import pyobj

ALLOW = {('copy_reg', '_reconstructor'), ('__builtin__', 'object')}
U = 'carbon.util'


class Modules(Model):
  def __init__(self, log):
    self.log = log

  def py___getitem__(self, ip, k):
    self.log.add('sys.modules[]', (k,))
    return ('module', k)


def setup(ctx, index, ordinal):
  log = EffectLog()
  made = []

  def new_unpickler(ip, ci, args, kwargs):
    o = PyObj(ci, {'$args': tuple(args), '$kwargs': dict(kwargs)}, name='unpickler')
    made.append(o)
    return o
  def load(ip, selfobj):
    log.add('Unpickler.load', (selfobj,))
    # load() may raise any exception (A-PICKLE)
    if ip.ctx.choose(2, 'load raises') == 1:
      from pyvc.values import ExcVal, SymExc
      raise PyRaise(ExcVal(None, (), sym=SymExc('load')))
    return 'LOADED'
  def stock_find_class(ip, selfobj, module, name):
    # the unrestricted lookup of pickle.Unpickler: resolves any global (with the py2 -> py3 renames)
    log.add('pickle.Unpickler.find_class(unrestricted)', (module, name))
    return ('global', module, name)
  unpickler_base = ModelClass('pickle.Unpickler', methods={'load': load, 'find_class': stock_find_class})
  pickle_ns = Namespace('pickle', {'UnpicklingError': ExcClass('pickle.UnpicklingError'),
                                   'Unpickler': unpickler_base,
                                   'loads': External('pickle.loads(unrestricted)', log, ret=lambda ip, a, k: 'UNSAFE'),
                                   'load': External('pickle.load(unrestricted)', log, ret=lambda ip, a, k: 'UNSAFE')})
  b = {U: {'pickle': pickle_ns, 'sys': Namespace('sys', {'modules': Modules(log)}),
           'StringIO': Builtin('StringIO', lambda ip, a, k: ('StringIO', a[0]))}}
  ip = Interp(ctx, index, bindings=b)
  ip.class_ordinals[(U, 'SafeUnpickler')] = ordinal
  def imp(ip2, name, *a):
    log.add('__import__', (name,))
    # importing may fail (the allow-listed modules are Python 2 names that do not exist on Python 3)
    if ip2.ctx.choose(2, '__import__ fails') == 1:
      from pyvc.values import ExcVal
      raise PyRaise(ExcVal('ImportError', (name,)))
  ip.ext['__import__'] = imp
  ip.ext['getattr'] = lambda ip2, o, name, *a: (log.add('getattr', (o, name)), ('global', o, name))[1]
  ip.ext['str_format'] = lambda ip2, fmt, args: 'msg'
  ip.ext[('new', U + ':SafeUnpickler')] = new_unpickler
  return ip, log, made, pickle_ns


def u_find_class(ordinal):
  def run(ctx, index):
    ip, log, made, pickle_ns = setup(ctx, index, ordinal)
    module = ctx.fresh(Atom, 'module')
    name = ctx.fresh(Atom, 'name')
    ci = index.cls('%s:SafeUnpickler#%d' % (U, ordinal))
    raised, result = None, None
    try:
      if ordinal == 0:
        result = ip.call(ip.getattr(RepoClass(ci), 'find_class'), [module, name])
        index.mark_used(ci.methods['find_class'])
      else:
        result = ip.run('%s:SafeUnpickler#1.find_class' % U, [module, name], self_obj=PyObj(ci, {}))
    except PyRaise as e:
      raised = e.exc
    ctx.cover('find_class/done')
    allowed = z3.Or([z3.And(module == ip.atom(m), name == ip.atom(n)) for (m, n) in sorted(ALLOW)])
    mod_ok = z3.Or([module == ip.atom(m) for m in sorted(set(m for m, _ in ALLOW))])
    pre = 'C13/find_class#%d' % ordinal
    ctx.check(pre + '/only_allowlisted', z3.Implies(z3.BoolVal(raised is None), allowed))
    import_failed = raised is not None and raised.cls_name == 'ImportError'
    # (that the allow-listed globals do load is informative: C13 is about everything else not loading)
    ctx.check('aux/find_class#%d/allowlist_pinned' % ordinal, z3.Implies(allowed, z3.BoolVal(raised is None or import_failed)))
    ctx.check(pre + '/never_delegates_to_the_unrestricted_lookup', z3.BoolVal(not [e for e in log.events if 'unrestricted' in e[0]]))
    imports = log.of('__import__')
    ctx.check(pre + '/no_import_off_list', z3.Implies(z3.Not(mod_ok), z3.BoolVal(len(imports) == 0)))
    ctx.check(pre + '/imports_only_the_named_module',
              z3.And([z3.BoolVal(z3.is_expr(e[1][0]) and z3.eq(e[1][0], module)) for e in imports] + [z3.BoolVal(len(imports) <= 1)]))
    ctx.check(pre + '/no_lookup_off_list', z3.Implies(z3.Not(allowed), z3.BoolVal(len(log.of('getattr')) == 0)))
    if raised is not None:
      ctx.cover('find_class/rejects')
      ctx.check(pre + '/rejects_with_UnpicklingError', z3.BoolVal(raised.cls_name == 'pickle.UnpicklingError' or import_failed))
    else:
      ctx.cover('find_class/accepts')
      ctx.check(pre + '/returns_the_named_global',
                z3.BoolVal(isinstance(result, tuple) and result[0] == 'global' and z3.is_expr(result[2]) and z3.eq(result[2], name)))
  return run


def u_loads(ctx, index):
  ip, log, made, pickle_ns = setup(ctx, index, 1)
  ci = index.cls(U + ':SafeUnpickler#1')
  data = ctx.fresh(Atom, 'pickle_string')
  raised = None
  r = None
  try:
    r = ip.call(ip.getattr(RepoClass(ci), 'loads'), [data])
  except PyRaise as e:
    raised = e.exc
  index.mark_used(ci.methods['loads'])
  ctx.cover('loads/returns')
  unsafe = [e for e in log.events if 'unrestricted' in e[0]]
  ctx.check('C13/loads/never_falls_back_to_the_unrestricted_loader', z3.BoolVal(not unsafe))
  if raised is not None:
    ctx.check('C13/loads/failure_of_load_propagates_unchanged', z3.BoolVal(raised.sym is not None))
    return
  loads = log.of('Unpickler.load')
  ok = len(made) >= 1 and len(loads) >= 1 and all(l[1][0] in made for l in loads) and all(m.cls is ci for m in made)
  ctx.check('C13/loads/load_runs_on_the_restricted_subclass', z3.BoolVal(ok))
  if ok:
    a = made[0].fields['$args']
    ctx.check('C13/loads/reads_the_given_bytes',
              z3.BoolVal(len(a) == 1 and isinstance(a[0], tuple) and a[0][0] == 'StringIO' and z3.eq(a[0][1], data)))
    # the override must be the one verified above: SafeUnpickler#1 defines find_class itself
    ctx.check('C13/loads/subclass_overrides_find_class', z3.BoolVal('find_class' in ci.methods))
  ctx.check('C13/loads/returns_load_result', z3.BoolVal(r == 'LOADED'))


def u_get_unpickler(ctx, index):
  ip, log, made, pickle_ns = setup(ctx, index, 1)
  insecure = ctx.fresh(z3.BoolSort(), 'insecure')
  r = ip.run(U + ':get_unpickler', [], kwargs={'insecure': insecure})
  ctx.cover('get_unpickler/returns')
  is_safe = isinstance(r, RepoClass) and r.info.name == 'SafeUnpickler'
  ctx.check('C13/get_unpickler/secure_by_default', z3.Implies(z3.Not(insecure), z3.BoolVal(is_safe)))
  r2 = ip.call(ip.env(U).lookup('get_unpickler'), [])
  ctx.check('C13/get_unpickler/default_argument_is_secure',
            z3.BoolVal(isinstance(r2, RepoClass) and r2.info.name == 'SafeUnpickler'))


def callsites(index):
  """carbon/protocols.py: get_unpickler is called only with insecure=settings.USE_INSECURE_UNPICKLER;
  every loads() on network data goes through self.unpickler; nothing else in carbon (outside util)
  unpickles."""
  import glob
  import os
  from pyvc.source import LIB
  problems = []
  mi = index.module('carbon.protocols')
  n_get = 0
  for n in ast.walk(mi.tree):
    if isinstance(n, ast.Call):
      f = ast.unparse(n.func)
      if f == 'get_unpickler':
        n_get += 1
        if ast.unparse(n) != 'get_unpickler(insecure=settings.USE_INSECURE_UNPICKLER)':
          problems.append('line %d: %s' % (n.lineno, ast.unparse(n)))
      if f.endswith('.loads') or f.endswith('.load') or f.endswith('Unpickler'):
        if f != 'self.unpickler.loads':
          problems.append('line %d: %s' % (n.lineno, ast.unparse(n)[:60]))
    if isinstance(n, ast.Assign) and any(ast.unparse(t) == 'self.unpickler' for t in n.targets):
      if ast.unparse(n.value) != 'get_unpickler(insecure=settings.USE_INSECURE_UNPICKLER)':
        problems.append('line %d: self.unpickler = %s' % (n.lineno, ast.unparse(n.value)[:60]))
  if n_get != 2:
    problems.append('expected 2 get_unpickler call sites, found %d' % n_get)
  ut = index.module('carbon.util')
  for n in ast.walk(ut.tree):
    if isinstance(n, ast.Call) and ast.unparse(n.func) in ('pickle.loads', 'pickle.load', 'cPickle.loads'):
      problems.append('util.py line %d: %s (unrestricted loader)' % (n.lineno, ast.unparse(n.func)))
  for path in sorted(glob.glob(os.path.join(LIB, 'carbon', '*.py')) + glob.glob(os.path.join(LIB, 'carbon', 'aggregator', '*.py'))):
    base = os.path.basename(path)
    if base in ('util.py', 'protocols.py'):
      continue
    tree = ast.parse(open(path).read())
    for n in ast.walk(tree):
      if isinstance(n, ast.Call):
        f = ast.unparse(n.func)
        if f in ('pickle.loads', 'pickle.load', 'pickle.Unpickler', 'cPickle.loads', 'marshal.loads') or f.endswith('unpickler.loads'):
          problems.append('%s line %d: %s' % (base, n.lineno, f))
  return (not problems), '; '.join(problems) or 'ok'


def default_setting(index):
  mi = index.module('carbon.conf')
  src = mi.text
  ok = 'USE_INSECURE_UNPICKLER=False' in src.replace(' ', '')
  return ok, 'defaults: USE_INSECURE_UNPICKLER=False %s' % ('present' if ok else 'MISSING')


def build():
  units = [
    Unit('C13/find_class#0', u_find_class(0), [U + ':SafeUnpickler#0.find_class'],
         expect_covers=['find_class/done', 'find_class/rejects', 'find_class/accepts'], replay=replay_fc),
    Unit('C13/find_class#1', u_find_class(1), [U + ':SafeUnpickler#1.find_class'],
         expect_covers=['find_class/done', 'find_class/rejects', 'find_class/accepts'], replay=replay_fc),
    Unit('C13/loads', u_loads, [U + ':SafeUnpickler#1.loads'], expect_covers=['loads/returns']),
    Unit('C13/get_unpickler', u_get_unpickler, [U + ':get_unpickler'], expect_covers=['get_unpickler/returns']),
  ]
  return Property(
    'C13', units,
    syntactic=[Syntactic('C13/callsites/flag_and_only_safe_loads', callsites,
                         'protocols.py passes only settings.USE_INSECURE_UNPICKLER and unpickles only through self.unpickler; no other module unpickles'),
               Syntactic('C13/conf/default_off', default_setting, 'USE_INSECURE_UNPICKLER defaults to False')],
    bounded=[Bounded('C13/A-PICKLE/opcode_routes', 'replay/c13_pickle_sweep.py', ['--tier', 'quick'], ['--tier', 'thorough'],
                     'every global-producing opcode route (GLOBAL, STACK_GLOBAL, INST, OBJ, NEWOBJ, NEWOBJ_EX, REDUCE, BUILD) x (module, attribute) pairs of the loaded modules (quick: 40 per module; thorough: all), canary planted',
                     "CPython's _pickle is C code outside /repo: this validates the assumed contract A-PICKLE, it is not a clause of carbon proved by contract")],
    trusted_base=['A-ENGINE', 'A-SMT', 'A-PICKLE'],
    assumptions=[
      "A-PICKLE: CPython's Unpickler obtains every global through self.find_class and, with no global, builds only plain built-in data (bounded cross-check: replay/c13_pickle_sweep.py)",
      "strings are opaque atoms compared with the literals in PICKLE_SAFE (exact str equality)",
      "__import__, sys.modules[], getattr are externals recorded in the effect log",
    ])


def replay_fc(model, ob):
  import json
  from pyvc.runner import run_native
  rc, out, err = run_native('replay/c13_pickle_sweep.py', ['--tier', 'replay'])
  for line in out.splitlines():
    if line.startswith('BOUNDED-RESULT '):
      r = json.loads(line[len('BOUNDED-RESULT '):])
      return {'native_confirms': bool(r.get('failures')), 'sweep': r}
  return {'replay_error': (err or out)[-500:]}
