"""Harness for carbon.protocols (receivers) shared by C01, C11, C12."""
import z3
from pyvc.core import EngineError

from pyvc.interp import Interp, Spec, LoopSpec, OBJECT
from pyvc.models import Namespace, External, EffectLog, SymSeq, TSort, TAtom, PyList
from pyvc.values import Atom, Model, ModelClass, PyObj, Builtin, ExcClass
from .common import Clock, pyobj, FloatVal
from pyvc.models import TTuple
from pyvc.values import PyRaise, ExcVal

Regex = z3.DeclareSort('Regex')
TRegex = TSort(Regex)
# re semantics are not needed for C12: `r.search(name)` is an uninterpreted predicate
SEARCH = z3.Function('re_search', Regex, Atom, z3.BoolSort())

MR = 'carbon.protocols:MetricReceiver'
RL = 'carbon.regexlist:RegexList'


def regex_search_method(ip, regex, value):
  return z3.Select  # placeholder never used


class ProtoHarness(object):
  def __init__(self, ctx, index, receiver_cls=MR):
    self.ctx = ctx
    self.index = index
    self.log = EffectLog()
    self.clock = Clock(ctx, log=self.log)
    self.res = ctx.fresh(z3.IntSort(), 'MIN_TIMESTAMP_RESOLUTION')
    ctx.assume(self.res >= 0)
    self.settings = Namespace('settings', {'MIN_TIMESTAMP_RESOLUTION': self.res}, item_access=True)
    self.bl = pyobj(index, RL, {'regex_list': SymSeq(TRegex, ctx.fresh(z3.SeqSort(Regex), 'blacklist'), 'blacklist')}, name='BlackList')
    self.wl = pyobj(index, RL, {'regex_list': SymSeq(TRegex, ctx.fresh(z3.SeqSort(Regex), 'whitelist'), 'whitelist')}, name='WhiteList')
    self.events = Namespace('events', {'metricReceived': External('events.metricReceived', self.log)})
    self.instr = Namespace('instrumentation', {'increment': External('instrumentation.increment', self.log)})
    timeout = ModelClass('TimeoutMixin', methods={
      'resetTimeout': lambda ip, selfobj: self.log.add('resetTimeout'),
      'setTimeout': lambda ip, selfobj, t: None})
    line_only = ModelClass('LineOnlyReceiver', methods={})
    int32 = ModelClass('Int32StringReceiver', methods={})
    dgram = ModelClass('DatagramProtocol', methods={})
    self.bindings = {
      'carbon.protocols': {
        'settings': self.settings, 'BlackList': self.bl, 'WhiteList': self.wl, 'events': self.events,
        'instrumentation': self.instr, 'time': self.clock.module(), 'TimeoutMixin': timeout,
        'LineOnlyReceiver': line_only, 'Int32StringReceiver': int32, 'DatagramProtocol': dgram,
        'with_metaclass': Builtin('with_metaclass', lambda ip, a, k: OBJECT),
        'PluginRegistrar': OBJECT, 'state': Namespace('state', {}),
        'sys': Namespace('sys', {'version_info': (3, 12, 1)}),
      },
      'carbon.regexlist': {},
    }
    self.ip = Interp(ctx, index, bindings=self.bindings)
    self.ip.ext[('method', 'search')] = self.method_search
    self.receiver = pyobj(index, receiver_cls, {'peerName': 'peer'}, name='receiver')
    # loop contract of RegexList.__contains__: result so far == some earlier regex matched
    self.install_regexlist_loop()

  def method_search(self, ip, obj, value):
    if z3.is_expr(obj) and obj.sort() == Regex:
      if isinstance(value, PyAny):
        value = AS_ATOM(value.term)
      if isinstance(value, Text):
        value = value.atom
      return SEARCH(obj, TAtom.enc(ip, value))
    from pyvc.core import EngineError
    raise EngineError(".search on %r" % (obj,))

  def matches(self, lst, value):
    """exists i. search(lst[i], value)"""
    i = z3.Int('i?')
    return z3.Exists([i], z3.And(0 <= i, i < z3.Length(lst), SEARCH(lst[i], value)))

  def install_regexlist_loop(self):
    def inv(fr):
      k = fr.loop_k[0]
      seq = fr.ghost['seq0']
      i = z3.Int('i?')
      v = fr['value']
      return [('no_earlier_match', z3.ForAll([i], z3.Implies(z3.And(0 <= i, i < k),
                                                             z3.Not(SEARCH(seq.term[i], v)))))]

    def havoc(fr):
      pass
    self.ip.loops[(RL + '.__contains__', 0)] = LoopSpec('for regex in self.regex_list', inv, havoc,
                                                          locals_modified=[])


# ------------------------------------------------------------------------------------------------
# byte / text / arbitrary-object models for the three receivers (C01, C11)

Bytes = z3.DeclareSort('Bytes')
PyObjS = z3.DeclareSort('PyObjS')
VALID_UTF8 = z3.Function('valid_utf8', Bytes, z3.BoolSort())
DECODE = z3.Function('utf8_decode', Bytes, Atom)
NFIELDS = z3.Function('whitespace_field_count', Atom, z3.IntSort())        # len(s.strip().split())
FIELD = z3.Function('whitespace_field', Atom, z3.IntSort(), Atom)
FLOAT_OK = z3.Function('float_syntax', Atom, z3.BoolSort())
FLOAT_KIND = z3.Function('float_kind', Atom, z3.IntSort())
FLOAT_VAL = z3.Function('float_value', Atom, z3.RealSort())
# text lines of a datagram
NLINES = z3.Function('splitlines_count', Atom, z3.IntSort())
LINE = z3.Function('splitlines_item', Atom, z3.IntSort(), Atom)
BNLINES = z3.Function('bytes_splitlines_count', Bytes, z3.IntSort())
BLINE = z3.Function('bytes_splitlines_item', Bytes, z3.IntSort(), Bytes)
# arbitrary unpickled objects
IS_PAIR = z3.Function('is_2_sequence', PyObjS, z3.BoolSort())
FST = z3.Function('item0', PyObjS, PyObjS)
SND = z3.Function('item1', PyObjS, PyObjS)
IS_STR = z3.Function('is_str', PyObjS, z3.BoolSort())
AS_ATOM = z3.Function('str_value', PyObjS, Atom)
OBJ_FLOAT_OK = z3.Function('float_accepts', PyObjS, z3.BoolSort())
OBJ_FLOAT_KIND = z3.Function('float_of_kind', PyObjS, z3.IntSort())
OBJ_FLOAT_VAL = z3.Function('float_of_value', PyObjS, z3.RealSort())
OBJ_EQ_NUM = z3.Function('equals_number', PyObjS, z3.RealSort(), z3.BoolSort())
ITERABLE = z3.Function('is_iterable', PyObjS, z3.BoolSort())
IS_TUPLE = z3.Function('is_tuple', PyObjS, z3.BoolSort())
TUPLE_LEN = z3.Function('tuple_len', PyObjS, z3.IntSort())
ITEMS = z3.Function('iter_items', PyObjS, z3.SeqSort(PyObjS))


class Text(Model):
  """a str obtained from the wire: strip()/split()/splitlines()/float() are uninterpreted
  functions of the text (A-STR)"""
  def __init__(self, atom, stripped=False):
    self.atom = atom
    self.stripped = stripped

  def py_strip(self, ip):
    return Text(self.atom, True)

  def py_split(self, ip):
    return Fields(self.atom)

  def py_splitlines(self, ip):
    return TextLines(self.atom)

  def py___len__(self, ip):
    return z3.Function('str_len', Atom, z3.IntSort())(self.atom)

  def py_slice(self, ip, lo, hi):
    return Text(z3.Function('str_slice', Atom, Atom)(self.atom))

  def py_binop(self, ip, op, other, reflected):
    return Text(z3.Function('str_concat_any', Atom, Atom)(self.atom))


class Fields(Model):
  def __init__(self, atom):
    self.atom = atom

  def py_unpack(self, ip, n):
    if not ip.ctx.branch(NFIELDS(self.atom) == n, 'field count'):
      raise PyRaise(ExcVal('ValueError', ('unpack',)))
    return [FIELD(self.atom, z3.IntVal(i)) for i in range(n)]


class TextLines(Model):
  def __init__(self, atom):
    self.atom = atom

  def as_symseq(self, ip):
    s = SymSeq.fresh(ip, TTextLine, 'lines')
    i = z3.Int('i?')
    ip.ctx.assume(s.length() == NLINES(self.atom))
    ip.ctx.assume(NLINES(self.atom) >= 0)
    ip.ctx.assume(z3.ForAll([i], z3.Implies(z3.And(0 <= i, i < s.length()), s.term[i] == LINE(self.atom, i))))
    return s


class _TTextLine(TSort):
  def __init__(self):
    TSort.__init__(self, Atom)

  def dec(self, term):
    return Text(term)

  def enc(self, ip, v):
    return v.atom if isinstance(v, Text) else v


TTextLine = _TTextLine()


class BytesVal(Model):
  def __init__(self, term):
    self.term = term

  def py_decode(self, ip, encoding='utf-8'):
    if encoding not in ('utf-8', 'utf8'):
      from pyvc.core import EngineError
      raise EngineError("decode(%r)" % (encoding,))
    if not ip.ctx.branch(VALID_UTF8(self.term), 'valid utf-8'):
      raise PyRaise(ExcVal('UnicodeDecodeError', ()))
    return Text(DECODE(self.term))

  def py_splitlines(self, ip):
    return BytesLines(self.term)

  def py___len__(self, ip):
    return z3.Function('bytes_len', Bytes, z3.IntSort())(self.term)

  def py_slice(self, ip, lo, hi):
    return BytesVal(z3.Function('bytes_slice', Bytes, Bytes)(self.term))

  def py_binop(self, ip, op, other, reflected):
    if isinstance(other, str) or isinstance(other, Text):
      raise PyRaise(ExcVal('TypeError', ("can't concat str to bytes",)))
    return BytesVal(z3.Function('bytes_concat_any', Bytes, Bytes)(self.term))

  def py_strip(self, ip):
    return BytesVal(z3.Function('bytes_strip', Bytes, Bytes)(self.term))


class BytesLines(Model):
  def __init__(self, term):
    self.term = term

  def as_symseq(self, ip):
    s = SymSeq.fresh(ip, TBytesLine, 'blines')
    i = z3.Int('i?')
    ip.ctx.assume(s.length() == BNLINES(self.term))
    ip.ctx.assume(BNLINES(self.term) >= 0)
    ip.ctx.assume(z3.ForAll([i], z3.Implies(z3.And(0 <= i, i < s.length()), s.term[i] == BLINE(self.term, i))))
    return s


class _TBytesLine(TSort):
  def __init__(self):
    TSort.__init__(self, Bytes)

  def dec(self, term):
    return BytesVal(term)

  def enc(self, ip, v):
    return v.term if isinstance(v, BytesVal) else v


TBytesLine = _TBytesLine()


def float_of_atom(ip, a):
  """float(text): ValueError unless float syntax; may be nan / +-inf (A-STR)"""
  if not ip.ctx.branch(FLOAT_OK(a), 'float syntax'):
    raise PyRaise(ExcVal('ValueError', ('could not convert string to float',)))
  ip.ctx.assume(z3.And(FLOAT_KIND(a) >= 0, FLOAT_KIND(a) <= 3))
  return FloatVal(FLOAT_KIND(a), FLOAT_VAL(a))


class PyAny(Model):
  """an arbitrary object produced by the (safe) unpickler: plain built-in data of unknown shape"""
  def __init__(self, term):
    self.term = term

  def py_unpack(self, ip, n):
    if n == 2 and ip.ctx.branch(IS_PAIR(self.term), 'is a 2-sequence'):
      return [PyAny(FST(self.term)), PyAny(SND(self.term))]
    k = ip.ctx.choose(2, 'unpack error kind')
    raise PyRaise(ExcVal('TypeError' if k == 0 else 'ValueError', ('cannot unpack',)))

  def py___float__(self, ip):
    if ip.ctx.branch(OBJ_FLOAT_OK(self.term), 'float() accepts'):
      ip.ctx.assume(z3.And(OBJ_FLOAT_KIND(self.term) >= 0, OBJ_FLOAT_KIND(self.term) <= 3))
      return FloatVal(OBJ_FLOAT_KIND(self.term), OBJ_FLOAT_VAL(self.term))
    k = ip.ctx.choose(3, 'float() error kind')
    raise PyRaise(ExcVal(('TypeError', 'ValueError', 'OverflowError')[k], ()))

  def py___eq__(self, ip, other):
    # comparison of an unpickled object with a number: some predicate of the object; when it holds
    # the object is that number, so float() accepts it and yields it (kind 0 = finite)
    if isinstance(other, bool) or not isinstance(other, (int, float)):
      raise EngineError("== between an unpickled object and %r" % (other,))
    r = OBJ_EQ_NUM(self.term, z3.RealVal(other))
    ip.ctx.assume(z3.Implies(r, z3.And(OBJ_FLOAT_OK(self.term), OBJ_FLOAT_KIND(self.term) == 0,
                                       OBJ_FLOAT_VAL(self.term) == z3.RealVal(other))))
    return r

  def py_getattr(self, ip, name):
    # plain data other than str has no .encode (bytes, numbers, None, containers)
    raise PyRaise(ExcVal('AttributeError', (name,)))

  def tuple_len_other_than(self, ip, n):
    return z3.And(IS_TUPLE(self.term), TUPLE_LEN(self.term) != n)

  def as_symseq(self, ip):
    if not ip.ctx.branch(ITERABLE(self.term), 'payload iterable'):
      raise PyRaise(ExcVal('TypeError', ('object is not iterable',)))
    return SymSeq(TPyAny, ITEMS(self.term), 'payload_items')

  def py___iter__(self, ip):
    return self.as_symseq(ip)


class _TPyAny(TSort):
  def __init__(self):
    TSort.__init__(self, PyObjS)

  def dec(self, term):
    return PyAny(term)

  def enc(self, ip, v):
    return v.term if isinstance(v, PyAny) else v


TPyAny = _TPyAny()
