"""Harness for carbon.protocols (receivers) shared by C01, C11, C12."""
import z3

from pyvc.interp import Interp, Spec, LoopSpec, OBJECT
from pyvc.models import Namespace, External, EffectLog, SymSeq, TSort, TAtom, PyList
from pyvc.values import Atom, Model, ModelClass, PyObj, Builtin, ExcClass
from .common import Clock, pyobj, FloatVal

Regex = z3.DeclareSort('Regex')
TRegex = TSort(Regex)
# re semantics are not needed for C12: `r.search(name)` is an uninterpreted predicate
SEARCH = z3.Function('re_search', Regex, Atom, z3.BoolSort())

MR = 'carbon.protocols:MetricReceiver'
RL = 'carbon.regexlist:RegexList'


def regex_search_method(ip, regex, value):
  return z3.Select  # placeholder never used


class ProtoHarness(object):
  def __init__(self, ctx, index, receiver_cls=MR):
    self.ctx = ctx
    self.index = index
    self.log = EffectLog()
    self.clock = Clock(ctx, log=self.log)
    self.res = ctx.fresh(z3.IntSort(), 'MIN_TIMESTAMP_RESOLUTION')
    ctx.assume(self.res >= 0)
    self.settings = Namespace('settings', {'MIN_TIMESTAMP_RESOLUTION': self.res}, item_access=True)
    self.bl = pyobj(index, RL, {'regex_list': SymSeq(TRegex, ctx.fresh(z3.SeqSort(Regex), 'blacklist'), 'blacklist')}, name='BlackList')
    self.wl = pyobj(index, RL, {'regex_list': SymSeq(TRegex, ctx.fresh(z3.SeqSort(Regex), 'whitelist'), 'whitelist')}, name='WhiteList')
    self.events = Namespace('events', {'metricReceived': External('events.metricReceived', self.log)})
    self.instr = Namespace('instrumentation', {'increment': External('instrumentation.increment', self.log)})
    timeout = ModelClass('TimeoutMixin', methods={
      'resetTimeout': lambda ip, selfobj: self.log.add('resetTimeout'),
      'setTimeout': lambda ip, selfobj, t: None})
    line_only = ModelClass('LineOnlyReceiver', methods={})
    int32 = ModelClass('Int32StringReceiver', methods={})
    dgram = ModelClass('DatagramProtocol', methods={})
    self.bindings = {
      'carbon.protocols': {
        'settings': self.settings, 'BlackList': self.bl, 'WhiteList': self.wl, 'events': self.events,
        'instrumentation': self.instr, 'time': self.clock.module(), 'TimeoutMixin': timeout,
        'LineOnlyReceiver': line_only, 'Int32StringReceiver': int32, 'DatagramProtocol': dgram,
        'with_metaclass': Builtin('with_metaclass', lambda ip, a, k: OBJECT),
        'PluginRegistrar': OBJECT, 'state': Namespace('state', {}),
      },
      'carbon.regexlist': {},
    }
    self.ip = Interp(ctx, index, bindings=self.bindings)
    self.ip.ext[('method', 'search')] = self.method_search
    self.receiver = pyobj(index, receiver_cls, {'peerName': 'peer'}, name='receiver')
    # loop contract of RegexList.__contains__: result so far == some earlier regex matched
    self.install_regexlist_loop()

  def method_search(self, ip, obj, value):
    if z3.is_expr(obj) and obj.sort() == Regex:
      return SEARCH(obj, TAtom.enc(ip, value))
    from pyvc.core import EngineError
    raise EngineError(".search on %r" % (obj,))

  def matches(self, lst, value):
    """exists i. search(lst[i], value)"""
    i = z3.Int('i?')
    return z3.Exists([i], z3.And(0 <= i, i < z3.Length(lst), SEARCH(lst[i], value)))

  def install_regexlist_loop(self):
    def inv(fr):
      k = fr.loop_k[0]
      seq = fr.ghost['seq0']
      i = z3.Int('i?')
      v = fr['value']
      return [('no_earlier_match', z3.ForAll([i], z3.Implies(z3.And(0 <= i, i < k),
                                                             z3.Not(SEARCH(seq.term[i], v)))))]

    def havoc(fr):
      pass
    self.ip.loops[(RL + '.__contains__', 0)] = LoopSpec('for regex in self.regex_list', inv, havoc,
                                                          locals_modified=['regex'])
