"""writeForever: the catch-all (C03) and the shutdown postcondition (C04)."""
import z3

from pyvc.interp import Interp, Spec, LoopSpec
from pyvc.models import Namespace, External, EffectLog
from pyvc.values import PyRaise, ExcVal, SymExc, Builtin
from .common import Clock

W = 'carbon.writer'
WFE = W + ':writeForever'


class ForeverHarness(object):
  """Ghost state for C04:
    running : the reactor's flag.  Rely of the writer thread (A-TWISTED-DEFER): the reactor thread
              may store at any of the writer's atomic steps while `running`; it turns `running`
              False at most once and never stores afterwards (it is joining the thread pool).
    dirty   : 'a datapoint accepted by store() may still be in the cache'.
  Contract of writeCachedDataPoints as proved in C03/C04 units: a normal return means the pass
  saw the cache empty (or nothing eligible); if the reactor was already stopped when the pass
  began nothing can have been stored since, so dirty == False; otherwise new stores may have
  arrived.  An exceptional return leaves dirty as it was."""

  def __init__(self, ctx, index):
    self.ctx = ctx
    self.log = EffectLog()
    self.clock = Clock(ctx)
    B = z3.BoolSort()
    self.running = ctx.fresh(B, 'running')
    self.dirty = ctx.fresh(B, 'dirty')
    self.passes = []
    h = self

    class Reactor(Namespace):
      def py_getattr(s, ip, name):
        if name == 'running':
          h.interfere(ip)
          return h.running
        return Namespace.py_getattr(s, ip, name)
    self.reactor = Reactor('reactor', {})
    self.logns = Namespace('log', {'err': External('log.err', self.log)})

    def sleep(ip, args, kw):
      h.interfere(ip)
      self.log.add('time.sleep', tuple(args))
      h.interfere(ip)
    self.time = Namespace('time', {'sleep': Builtin('sleep', sleep), 'time': self.clock.builtin_time()})
    self.ip = Interp(ctx, index, bindings={W: {'reactor': self.reactor, 'time': self.time, 'log': self.logns}})
    self.ip.ext['keep_log'] = ('err',)
    self.ip.specs[W + ':writeCachedDataPoints'] = Spec(W + ':writeCachedDataPoints', self.pass_spec)

  def interfere(self, ip):
    """R*: while running, stores may happen (dirty may turn True) and the stop may arrive."""
    c = self.ctx
    d1 = c.fresh(z3.BoolSort(), 'dirty')
    r1 = c.fresh(z3.BoolSort(), 'running')
    c.assume(z3.Implies(z3.Not(self.running), z3.And(z3.Not(r1), d1 == self.dirty)))   # stopped: quiescent
    c.assume(z3.Implies(self.dirty, d1))        # only the writer removes datapoints
    self.dirty, self.running = d1, r1

  def pass_spec(self, ip, args, kwargs):
    self.interfere(ip)
    started_stopped = z3.Not(self.running)
    if ip.ctx.choose(2, 'pass:raises') == 1:
      self.passes.append(('raise', started_stopped))
      self.interfere(ip)
      raise PyRaise(ExcVal(None, (), sym=SymExc('backend')))
    # normal return: everything accepted before the pass ended its last look has been handed out
    d1 = self.ctx.fresh(z3.BoolSort(), 'dirty')
    self.ctx.assume(z3.Implies(started_stopped, z3.Not(d1)))
    self.dirty = d1
    self.passes.append(('ret', started_stopped))
    self.interfere(ip)
    return None


def install_loop(h):
  def inv(fr):
    return [('true', z3.BoolVal(True))]

  def havoc(fr):
    h.dirty = h.ctx.fresh(z3.BoolSort(), 'dirty')
    h.running = h.ctx.fresh(z3.BoolSort(), 'running')
    h.log.clear()
    h.passes[:] = []
    h.ip.note_write(h.reactor)
  # the writer is only started while the reactor runs; the loop head may be reached with any
  # dirty/running combination (the invariant that would be needed for C04 does not exist before
  # the fix: see DESIGN.md D5)
  h.ip.loops[(WFE, 0)] = LoopSpec('while reactor.running', inv, havoc)


def u_write_forever(ctx, index):
  h = ForeverHarness(ctx, index)
  h.ip.label_prefix = 'C03/'
  install_loop(h)

  def step(fr):
    # one loop iteration: an exception of the pass never escapes; it is logged and followed by a back-off
    ctx.cover('forever/iteration')
    if h.passes and h.passes[-1][0] == 'raise':
      ctx.check('C03/writeForever/escape_is_logged', z3.BoolVal(len(h.log.of('log.err')) == 1))
      ctx.check('aux/writeForever/backs_off_after_error', z3.BoolVal(len(h.log.of('time.sleep')) == 1))   # (not part of C03)
  h.ip.loops[(WFE, 0)].ghost_step = step
  raised = None
  try:
    h.ip.run(WFE, [])
  except PyRaise as e:
    raised = e.exc
  ctx.cover('forever/returns')
  ctx.check('C03/writeForever/nothing_escapes', z3.BoolVal(raised is None))
  if raised is not None:
    return
  # C04: when the writer thread exits, nothing accepted before the stop is left behind --
  # unless the last pass was cut short by a backend failure that was logged
  last_failed = bool(h.passes) and h.passes[-1][0] == 'raise'
  if last_failed:
    ctx.check('C04/writeForever/final_failure_is_logged', z3.BoolVal(len(h.log.of('log.err')) >= 1))
  else:
    ctx.check('C04/writeForever/drained_on_exit', z3.Not(h.dirty))
  ctx.check('C04/writeForever/exits_only_when_stopped', z3.Not(h.running))


def u_shutdown_modify(ctx, index):
  """shutdownModifyUpdateSpeed (a 'before shutdown' trigger): afterwards MIN_TIMESTAMP_LAG == 0
  (C04) and both buckets (when configured) have capacity == fill rate ==
  MAX_UPDATES_PER_SECOND_ON_SHUTDOWN (C20: "changing the limits at shutdown takes effect"; C04 itself
  holds whatever the shutdown rate is)."""
  from .writer_units import Bucket
  log = EffectLog()
  shut = ctx.fresh(z3.RealSort(), 'MAX_UPDATES_PER_SECOND_ON_SHUTDOWN')
  lag = ctx.fresh(z3.RealSort(), 'MIN_TIMESTAMP_LAG')
  settings = Namespace('settings', {'MAX_UPDATES_PER_SECOND_ON_SHUTDOWN': shut, 'MIN_TIMESTAMP_LAG': lag,
                                    'MAX_UPDATES_PER_SECOND': ctx.fresh(z3.RealSort(), 'MAX_UPDATES_PER_SECOND'),
                                    'MAX_CREATES_PER_MINUTE': ctx.fresh(z3.RealSort(), 'MAX_CREATES_PER_MINUTE')}, item_access=True)
  # MAX_UPDATES_PER_SECOND_ON_SHUTDOWN has no default: when it is not configured, reading it raises KeyError
  configured = ctx.choose(2, 'ON_SHUTDOWN configured') == 1
  if not configured:
    settings.missing = {'MAX_UPDATES_PER_SECOND_ON_SHUTDOWN'}
  ub = Bucket('UPDATE_BUCKET', log) if ctx.choose(2, 'UPDATE_BUCKET') else None
  cb = Bucket('CREATE_BUCKET', log) if ctx.choose(2, 'CREATE_BUCKET') else None
  ip = Interp(ctx, index, bindings={W: {'settings': settings, 'UPDATE_BUCKET': ub, 'CREATE_BUCKET': cb}})
  ip.ext['str_of'] = lambda ip2, v: 'text'
  raised = None
  try:
    ip.run(W + ':shutdownModifyUpdateSpeed', [])
  except PyRaise as e:
    raised = e.exc
  ctx.cover('shutdown/returns')
  ctx.check('C04/shutdownModifyUpdateSpeed/no_raise', z3.BoolVal(raised is None))
  l = settings.attrs['MIN_TIMESTAMP_LAG']
  ctx.check('C04/shutdownModifyUpdateSpeed/lag_zero', z3.BoolVal(isinstance(l, int) and l == 0) if not z3.is_expr(l) else l == 0)
  for b, name in ((ub, 'UPDATE_BUCKET'), (cb, 'CREATE_BUCKET')):
    ev = log.of(name + '.setCapacityAndFillRate')
    if b is None:
      continue
    if not configured:
      # no shutdown rate configured: the configured limits stay in force (C20's first sentence)
      # (being set again to its own configured limits would change nothing)
      mu, mc = settings.attrs['MAX_UPDATES_PER_SECOND'], settings.attrs['MAX_CREATES_PER_MINUTE']
      own = (mu, mu) if name == 'UPDATE_BUCKET' else (mc, mc / 60)
      same = [z3.And(e[1][0] == own[0], e[1][1] == own[1]) for e in ev]
      ctx.check('C20/shutdownModifyUpdateSpeed/%s_keeps_its_limits_without_a_shutdown_rate' % name,
                z3.And(*same) if same else z3.BoolVal(True))
      continue
    ok = len(ev) == 1
    ctx.check('C20/shutdownModifyUpdateSpeed/%s_limits_set_once' % name, z3.BoolVal(ok))
    if ok:
      c, r = ev[0][1]
      ctx.check('C20/shutdownModifyUpdateSpeed/%s_limits_are_shutdown_rate' % name, z3.And(c == shut, r == shut))


def shutdown_wiring(index):
  """writer.py: WriterService.startService registers shutdownModifyUpdateSpeed as a 'before'
  'shutdown' trigger and starts writeForever on exactly one pool thread."""
  import ast
  mi = index.module('carbon.writer')
  calls = [ast.unparse(n) for n in ast.walk(mi.tree) if isinstance(n, ast.Call)]
  want = ["reactor.addSystemEventTrigger('before', 'shutdown', shutdownModifyUpdateSpeed)",
          "reactor.callInThread(writeForever)"]
  cnt = {w: calls.count(w) for w in want}
  ok = all(v == 1 for v in cnt.values())
  return ok, repr(cnt)


def replay_forever(model, ob):
  import json
  from pyvc.runner import run_native
  rc, out, err = run_native('replay/c04_replay.py', [])
  for line in out.splitlines():
    if line.startswith('REPLAY-RESULT '):
      return json.loads(line[len('REPLAY-RESULT '):])
  return {'replay_error': (err or out)[-600:]}
