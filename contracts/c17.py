"""C17 -- every write strategy drains consistently, completely and without starvation.

Functions under contract (carbon.cache): _MetricCache.{store, pop, drain_metric} (shared units),
MaxStrategy.choose_item, RandomStrategy.choose_item, NaiveStrategy / SortedStrategy /
TimeSortedStrategy `_generate_queue` (verified as coroutines: the loops are cut by invariants and
every `yield` is a point where the environment -- the consumer drain_metric/pop and the storing
thread -- takes its step), MetricCache() (strategy selection).

Interface contract of choose_item (used by drain_metric in C02): returns None or a metric that is
in the cache at that (locked) instant.  Per-strategy clauses: naive/sorted/timesorted -- within a
pass no metric is handed out twice and a new snapshot is taken only when the previous one is
exhausted (so everything present when a pass began is drained before anything is drained twice);
max -- the metric returned holds the maximum number of datapoints; timesorted -- with a lag only
metrics whose oldest datapoint was older than the lag at snapshot time.
I_nonempty (no metric maps to an empty dict whenever the lock is free) gives "a drain never
returns a metric without datapoints".
"""
import z3

from pyvc.core import EngineError
from pyvc.runner import Unit, Property
from pyvc.interp import Interp, LoopSpec, Spec, Frame
from pyvc.models import Namespace, SymSeq, SymSet, TAtom, TInt, TReal, TTuple, PyList, Model
from pyvc.values import Atom, PyRaise, ExcVal, Builtin, RepoFunc, PyObj
from . import cache_units as CU
from .cache_model import Harness, IM, CacheItems, InnerProxy, enable_rely_R, R
from .common import pyobj

C = 'carbon.cache'


def bind_helpers(hs):
  b = hs.ip.module_bindings[C]

  def itemgetter(ip, a, k):
    i = a[0]
    return Builtin('itemgetter(%r)' % i, lambda ip2, a2, k2: ip2.getitem(a2[0], i))
  b['itemgetter'] = Builtin('itemgetter', itemgetter)

  def choice(ip, a, k):
    seq = ip.as_symseq(a[0]) if not isinstance(a[0], SymSeq) else a[0]
    if ip.ctx.branch(seq.length() == 0, 'choice of empty'):
      raise PyRaise(ExcVal('IndexError', ('Cannot choose from an empty sequence',)))
    w = ip.ctx.fresh(z3.IntSort(), 'choice')
    ip.ctx.assume(z3.And(0 <= w, w < seq.length()))
    return seq.at(ip, w)
  b['choice'] = Builtin('choice', choice)


def items_minmax(self, ip, is_min, key):
  """max(cache.items(), key=f): some (m, data[m]) with m in the cache and f maximal (A-LIB)"""
  d = self.data
  if ip.ctx.branch(d.card == 0, 'max of empty cache'):
    raise PyRaise(ExcVal('ValueError', ('max() arg is an empty sequence',)))
  mq = z3.Const('mq?', Atom)
  mark = len(ip.ctx.pc)
  meas = ip.call(key, [(mq, InnerProxy(d, mq))]) if key is not None else None
  if key is None or len(ip.ctx.pc) != mark or not z3.is_expr(meas):
    raise EngineError("max(cache.items()) needs a pure numeric key function")
  mm = ip.ctx.fresh(Atom, 'argmax')
  ip.ctx.assume(z3.Select(d.keys, mm))
  top = z3.substitute(meas, (mq, mm))
  ip.ctx.assume(z3.ForAll([mq], z3.Implies(z3.Select(d.keys, mq), (meas >= top) if is_min else (meas <= top))))
  return (mm, InnerProxy(d, mm))


CacheItems.py_minmax = items_minmax


def u_max_choose(ctx, index):
  hs = Harness(ctx, index)
  bind_helpers(hs)
  strat = pyobj(index, C + ':MaxStrategy', {'cache': hs.cache}, name='strategy')
  hs.assume_I()
  ctx.assume(hs.data.card > 0)      # drain_metric's `if not self` guard, stable under G_R
  d = hs.data
  raised = None
  try:
    r = hs.ip.run(C + ':MaxStrategy.choose_item', [], self_obj=strat)
  except PyRaise as e:
    raised = e.exc
  ctx.cover('max/returns')
  ctx.check('C17/MaxStrategy.choose_item/no_raise', z3.BoolVal(raised is None))
  if raised is not None:
    return
  ok = z3.is_expr(r) and r.sort() == Atom
  ctx.check('C17/MaxStrategy.choose_item/returns_a_metric', z3.BoolVal(bool(ok)))
  if ok:
    o = z3.Const('o?', Atom)
    ctx.check('C17/MaxStrategy.choose_item/in_cache', z3.Select(d.keys, r))
    ctx.check('C17/Max/is_max', z3.ForAll([o], z3.Implies(z3.Select(d.keys, o),
                                                         IM.icard(z3.Select(d.inner, o)) <= IM.icard(z3.Select(d.inner, r)))))


def u_random_choose(ctx, index):
  hs = Harness(ctx, index)
  bind_helpers(hs)
  strat = pyobj(index, C + ':RandomStrategy', {'cache': hs.cache}, name='strategy')
  hs.assume_I()
  ctx.assume(hs.data.card > 0)
  raised = None
  try:
    r = hs.ip.run(C + ':RandomStrategy.choose_item', [], self_obj=strat)
  except PyRaise as e:
    raised = e.exc
  ctx.cover('random/returns')
  ctx.check('C17/RandomStrategy.choose_item/no_raise', z3.BoolVal(raised is None))
  if raised is None:
    ctx.check('C17/RandomStrategy.choose_item/in_cache', z3.Select(hs.data.keys, r) if z3.is_expr(r) else z3.BoolVal(False))


class YieldSink(Model):
  def py_append(self, ip, v):
    pass


TCount = TTuple(TAtom, TInt)
TWater = TTuple(TAtom, TReal, TReal)


def counts_spec(hs):
  """contract of the property _MetricCache.counts: one (metric, number of datapoints) pair per
  cached metric, no metric twice (assumed here; it is a one-line comprehension over items())"""
  def apply(ip, args, kw):
    d = hs.data
    s = SymSeq.fresh(ip, TCount, 'counts')
    i, j = z3.Int('i?'), z3.Int('j?')
    n = s.length()
    m0, c0 = TCount.acc
    for f in [n == d.card,
              z3.ForAll([i], z3.Implies(z3.And(0 <= i, i < n), z3.And(z3.Select(d.keys, m0(s.term[i])),
                                                                       c0(s.term[i]) == IM.icard(z3.Select(d.inner, m0(s.term[i])))))),
              z3.ForAll([i, j], z3.Implies(z3.And(0 <= i, i < j, j < n), m0(s.term[i]) != m0(s.term[j])))]:
      ip.ctx.assume(f)

    def facts(term):
      nn = z3.Length(term)
      return [nn == d.card,
              z3.ForAll([i], z3.Implies(z3.And(0 <= i, i < nn), z3.Select(d.keys, m0(term[i])))),
              z3.ForAll([i, j], z3.Implies(z3.And(0 <= i, i < j, j < nn), m0(term[i]) != m0(term[j])))]
    s.perm_facts = [facts]
    return s
  return Spec(C + ':_MetricCache.counts', apply)


def u_counts(ctx, index):
  """the property _MetricCache.counts against the contract its callers assume (counts_spec): one
  (metric, number of datapoints) pair per cached metric, no metric twice."""
  from .cache_model import Harness
  hs = Harness(ctx, index)
  d = hs.data
  r = hs.ip.getattr(hs.cache, 'counts')
  index.mark_used(index.func(C + ':_MetricCache.counts'))
  ctx.cover('counts/returns')
  ok = isinstance(r, SymSeq)
  ctx.check('C17/counts/returns_list', z3.BoolVal(ok))
  if not ok:
    return
  i, j = z3.Int('i?'), z3.Int('j?')
  n = r.length()
  m0, c0 = TCount.acc
  t = r.term
  ctx.check('C17/counts/one_pair_per_cached_metric', n == d.card)
  ctx.check('C17/counts/pairs_are_metric_and_its_datapoint_count', z3.ForAll([i], z3.Implies(
    z3.And(0 <= i, i < n), z3.And(z3.Select(d.keys, m0(t[i])), c0(t[i]) == IM.icard(z3.Select(d.inner, m0(t[i])))))))
  ctx.check('C17/counts/no_metric_twice', z3.ForAll([i, j], z3.Implies(z3.And(0 <= i, i < j, j < n), m0(t[i]) != m0(t[j]))))


OLDEST = z3.Function('oldest_timestamp_at_snapshot', Atom, z3.RealSort())


def watermarks_spec(hs):
  """contract of _MetricCache.watermarks: one (metric, min ts, max ts) per metric that holds
  datapoints, no metric twice (assumed)"""
  def apply(ip, args, kw):
    d = hs.data
    s = SymSeq.fresh(ip, TWater, 'watermarks')
    i, j = z3.Int('i?'), z3.Int('j?')
    t = z3.Real('t?')
    m0, lo, hi = TWater.acc

    def facts(term):
      nn = z3.Length(term)
      return [z3.ForAll([i], z3.Implies(z3.And(0 <= i, i < nn),
                                        z3.And(z3.Select(d.keys, m0(term[i])), lo(term[i]) == OLDEST(m0(term[i])),
                                               z3.Select(IM.ikeys(z3.Select(d.inner, m0(term[i]))), lo(term[i])),
                                               z3.ForAll([t], z3.Implies(z3.Select(IM.ikeys(z3.Select(d.inner, m0(term[i]))), t),
                                                                         lo(term[i]) <= t))))),
              z3.ForAll([i, j], z3.Implies(z3.And(0 <= i, i < j, j < nn), m0(term[i]) != m0(term[j])))]
    keys_now = d.keys

    def complete(term):
      # ... and every metric that holds datapoints is listed (index witness; invariant under permutation)
      at = z3.Function(ip.ctx.fresh_name('watermark_index'), Atom, z3.IntSort())
      mm = z3.Const('m?', Atom)
      return [z3.ForAll([mm], z3.Implies(z3.Select(keys_now, mm),
                                         z3.And(0 <= at(mm), at(mm) < z3.Length(term), m0(term[at(mm)]) == mm)))]
    for f in facts(s.term) + complete(s.term):
      ip.ctx.assume(f)
    s.perm_facts = [facts, complete]
    return s
  return Spec(C + ':_MetricCache.watermarks', apply)


def u_generator(cls_name, kind):
  """NaiveStrategy / SortedStrategy / TimeSortedStrategy._generate_queue as a coroutine."""
  Q = '%s:%s.__init__._generate_queue' % (C, cls_name)

  def run(ctx, index):
    hs = Harness(ctx, index)
    bind_helpers(hs)
    ip = hs.ip
    ip.label_prefix = 'C17/'
    enable_rely_R(hs)
    ctx.hooks.pop('yield_point', None)        # interference happens only while suspended at a yield
    strat = pyobj(index, C + ':' + cls_name, {'cache': hs.cache}, name='strategy')
    ip.specs[C + ':_MetricCache.counts'] = counts_spec(hs)
    ip.specs[C + ':_MetricCache.watermarks'] = watermarks_spec(hs)
    ip.ext[('gen_out', Q)] = lambda ip2: YieldSink()
    d = hs.data
    G = {'seen': SymSet.empty(ip, TAtom, 'seen_this_pass'), 'produced': z3.BoolVal(False)}
    lag = hs.settings.attrs['MIN_TIMESTAMP_LAG']
    if kind == 'naive':
      listvar, elem_metric = 'metric_names', (lambda t: t)
    elif kind == 'sorted':
      listvar, elem_metric = 'metric_counts', (lambda t: TCount.acc[0](t))
    else:
      listvar, elem_metric = 'metric_lw', (lambda t: TWater.acc[0](t))

    def names(fr):
      return fr[listvar]

    def inv_inner(fr):
      s = names(fr).term
      i, j = z3.Int('i?'), z3.Int('j?')
      n = z3.Length(s)
      out = [
        ('I_snap/remaining_are_cached', z3.ForAll([i], z3.Implies(z3.And(0 <= i, i < n), z3.Select(d.keys, elem_metric(s[i]))))),
        ('I_snap/remaining_are_distinct', z3.ForAll([i, j], z3.Implies(z3.And(0 <= i, i < j, j < n), elem_metric(s[i]) != elem_metric(s[j])))),
        ('pass_fair/remaining_not_yet_handed_out', z3.ForAll([i], z3.Implies(z3.And(0 <= i, i < n),
                                                                            z3.Not(z3.Select(G['seen'].mem, elem_metric(s[i])))))),
      ]
      if kind == 'timesorted':
        t_snap = fr['t']
        out.append(('lag/remaining_were_old_enough_at_snapshot', z3.ForAll([i], z3.Implies(
          z3.And(0 <= i, i < n, lag > 0), t_snap - OLDEST(elem_metric(s[i])) > lag))))
      return out

    def havoc_inner(fr):
      names(fr).havoc(ip, listvar)
      hs.rely(ip, None)
      G['seen'].havoc(ip, 'seen_this_pass')
      G['produced'] = ctx.fresh(z3.BoolSort(), 'produced')
      ip.note_write(d)
      ip.note_write(hs.cache)
      ip.note_write(hs.state)
      ip.note_write(hs.new_metrics)

    def havoc_outer(fr):
      hs.rely(ip, None)
      ctx.assume(d.card > 0)            # the consumer resumes the generator only when the cache is not empty
      G['seen'] = SymSet.empty(ip, TAtom, 'seen_this_pass')     # a new pass begins
      G['produced'] = z3.BoolVal(False)
      ip.note_write(d)
      ip.note_write(hs.cache)
      ip.note_write(hs.state)
      ip.note_write(hs.new_metrics)
      ip.note_write(G['seen'])
    loops = {'naive': (0, 1), 'sorted': (0, 1), 'timesorted': (0, 1)}[kind]
    def step_outer(fr):
      # a pass ends (and the next snapshot is taken) only when everything it listed has been handed out
      v = fr.locals.get(listvar)
      ok = isinstance(v, SymSeq)
      ctx.check('C17/%s/pass_fair/new_snapshot_only_when_exhausted' % cls_name,
                (v.length() == 0) if ok else z3.BoolVal(False))
    ip.loops[(Q, loops[0])] = LoopSpec('while True', lambda fr: [('true', z3.BoolVal(True))], havoc_outer,
                                       ghost_step=step_outer)
    ip.loops[(Q, loops[1])] = LoopSpec('while ' + listvar, inv_inner, havoc_inner)

    def on_yield(ip2, v, fr):
      ctx.cover('%s/yield' % kind)
      if v is None:
        # "nothing to do" is only an answer for timesorted with a lag set, and only when no cached
        # metric's oldest datapoint was older than the lag when the snapshot was taken (no
        # interference since: the generator has not been suspended in between)
        if kind != 'timesorted' or 't' not in fr.locals:
          ctx.check('C17/%s/None_only_when_nothing_is_eligible' % cls_name, z3.BoolVal(False))
        else:
          anym = ctx.fresh(Atom, 'any_cached_metric')
          ctx.check('C17/%s/None_only_when_nothing_is_eligible' % cls_name,
                    z3.And(lag != 0, z3.Implies(z3.Select(d.keys, anym), z3.Not(fr['t'] - OLDEST(anym) > lag))))
        hs.rely(ip2, None)
        return
      # interface contract of choose_item
      ctx.check('C17/%s/choose_in_cache' % cls_name, z3.Select(d.keys, v))
      ctx.check('C17/%s/pass_fair/no_repeat_within_a_pass' % cls_name, z3.Not(z3.Select(G['seen'].mem, v)))
      G['seen'].py_add(ip2, v)
      G['produced'] = z3.BoolVal(True)
      # environment step while suspended: the consumer pops v (C02 pop), the storing thread runs
      ctx.assume(z3.Select(d.keys, v))
      d.remove(ip2, v)
      hs.rely(ip2, None)
      ctx.assume(d.card > 0)
    ctx.hooks['on_yield'] = on_yield
    hs.assume_I()
    ctx.assume(d.card > 0)
    fi = index.func(Q)
    clo = Frame(fi.parent, ip.env(C))
    clo.locals['self'] = strat
    try:
      ip.call_repo(RepoFunc(fi, closure=clo), [], {}, top=True)
    except PyRaise as e:
      ctx.check('C17/%s/no_raise' % cls_name, z3.BoolVal(False))
    ctx.cover('%s/ends' % kind)
  return Unit('cache.%s._generate_queue' % cls_name, run, [Q], expect_covers=['%s/yield' % kind],
              replay=CU.replay_cache('drain', [kind]),
              native_clauses=['C17/%s/None_only_when_nothing_is_eligible' % cls_name, 'C17/%s/choose_in_cache' % cls_name])


def u_select_strategy(ctx, index):
  """MetricCache(): the strategy class is the one named by CACHE_WRITE_STRATEGY"""
  made = []
  ws = ctx.fresh(Atom, 'CACHE_WRITE_STRATEGY')
  ip = Interp(ctx, index, bindings={C: {'settings': Namespace('settings', {'CACHE_WRITE_STRATEGY': ws}), '_Cache': None}})
  ip.ext[('new', C + ':_MetricCache')] = lambda ip2, ci, args, kw: made.append(args[0]) or 'CACHE'
  r = ip.run(C + ':MetricCache', [])
  ctx.cover('select/returns')
  ok = len(made) == 1
  ctx.check('aux/MetricCache/constructs_one_cache', z3.BoolVal(ok))
  if not ok:
    return
  got = made[0].info.name if hasattr(made[0], 'info') else None
  table = {'naive': 'NaiveStrategy', 'max': 'MaxStrategy', 'sorted': 'SortedStrategy', 'timesorted': 'TimeSortedStrategy',
           'random': 'RandomStrategy', 'bucketmax': 'BucketMaxStrategy'}
  for k, cls in table.items():
    ctx.check('C17/MetricCache/strategy_selected[%s]' % k, z3.Implies(ws == ip.atom(k), z3.BoolVal(got == cls)))


def build():
  units = [Unit('cache.store[%s]' % k, CU.u_store(k), [CU.CACHE + '.store'], expect_covers=['store/returns'],
                replay=CU.replay_cache('store', ['none', 'naive', 'max', 'sorted', 'timesorted', 'random', 'bucketmax']))
           for k in ('none', 'plain')]
  units += [
    Unit('cache.pop', CU.u_pop, [CU.CACHE + '.pop'], expect_covers=['pop/returns'],
         replay=CU.replay_cache('pop', ['none', 'naive', 'max', 'sorted', 'bucketmax'])),
    Unit('cache.drain_metric[none]', CU.u_drain_metric('none'), [CU.CACHE + '.drain_metric'], expect_covers=['drain_metric/returns'],
         replay=CU.replay_cache('drain', ['none'])),
    Unit('cache.drain_metric[strategy]', CU.u_drain_metric('plain'), [CU.CACHE + '.drain_metric'], expect_covers=['drain_metric/returns'],
         replay=CU.replay_cache('drain', ['naive', 'max', 'sorted', 'timesorted', 'random', 'bucketmax'])),
    Unit('cache.MaxStrategy.choose_item', u_max_choose, [C + ':MaxStrategy.choose_item'], expect_covers=['max/returns']),
    Unit('cache.RandomStrategy.choose_item', u_random_choose, [C + ':RandomStrategy.choose_item'], expect_covers=['random/returns']),
    u_generator('NaiveStrategy', 'naive'), u_generator('SortedStrategy', 'sorted'), u_generator('TimeSortedStrategy', 'timesorted'),
    Unit('cache.counts', u_counts, [C + ':_MetricCache.counts'], expect_covers=['counts/returns']),
    Unit('cache.MetricCache', u_select_strategy, [C + ':MetricCache'], expect_covers=['select/returns']),
  ]
  from . import bucket_units as BU
  units += BU.units()
  from pyvc.runner import Bounded
  return Property(
    'C17', units,
    bounded=[Bounded('C17/native/two_thread_schedules', 'replay/cache_sched_native.py', ['--depth', '2', '--only', 'sched-no_raise,sched-no_empty_entries,sched-undrainable'], ['--depth', '3', '--only', 'sched-no_raise,sched-no_empty_entries,sched-undrainable'],
                     'the real _MetricCache under deterministic two-thread schedules (sys.settrace): every history of <= 2 (quick) / 3 (thorough) store / drain_metric calls over 2 metrics x 2 timestamps, with the other thread (writer: 1, 2 or all drains; receiver: one of 4 stores) run at every line step of the traced call at which the cache lock is not held; MAX_CACHE_SIZE in {1,2,3,inf} plus pre-filled caches of 20 with flow control (where cacheFull can fire), all seven strategies',
                     'schedules at line granularity of cache.py give the concrete interleaving that the lock-invariant / rely-guarantee obligations only refute abstractly (byte-code level races inside one line stay out of reach)'),
             Bounded('C17/native/cache_contracts_cross_check', 'replay/cache_native.py',
                     ['--sweep', '3', 'no_raise,nonempty_batch,no_empty_entries,is_max,size_exact'],
                     ['--sweep', '4', 'no_raise,nonempty_batch,no_empty_entries,is_max,size_exact'],
                     'every sequential store/drain history of length <= 3 (quick) / 4 (thorough) over 2 metrics x 2 timestamps, all seven strategy settings',
                     "cross-check of the contracts' clauses on the real code by exhaustive short histories (it also stands in when the symbolic engine cannot process a changed function); the clauses themselves are discharged obligations above"),
             Bounded('C17/BucketMax/I_bucket_preserved', 'replay/c17_bucket_bounded.py', ['--len', '6'], ['--len', '8'],
                     'every history of store / drain_metric operations of length <= 6 (quick) / 8 (thorough) over 3 metrics x 3 timestamps on the real cache with BucketMaxStrategy: after each operation the buckets describe the cache exactly (each metric once, in the bucket of its count), a drain returns a metric of maximal count with a non-empty batch, nothing raises',
                     "preservation of I_bucket by BucketMaxStrategy.store / choose_item: the VCs (ghost positions shifting after list.remove / pop(0)) time out on z3 and cvc5 even at 120 s")],
    trusted_base=['A-ENGINE', 'A-SMT', 'A-GIL', 'A-THREADS', 'A-CLOCK', 'A-LIB(max/sorted/choice/dict models)'],
    assumptions=[
      "generators are verified as coroutines: at every yield the environment may pop the yielded metric (the consumer always does: drain_metric -> pop, proved in C02) and the storing thread may run (rely G_R*); the generator is resumed only when the cache is not empty (drain_metric's guard, stable under G_R*)",
      "_MetricCache.counts is used through its contract, verified by unit cache.counts; _MetricCache.watermarks through an assumed contract (one entry per metric with datapoints, minimum timestamp: min()/max() over a dict view inside a comprehension is not modelled)",
      "BucketMaxStrategy: exception-freedom of store / choose_item under I_bucket, 'returns a metric of maximal count', 'None only for an empty cache' and I_bucket at every lock release of drain_metric are discharged; that store / choose_item themselves preserve I_bucket is decided only by the bounded stand-in (solver timeouts), so choose_item's contract as used by drain_metric is partly assumed",
      "'with no new input repeated draining hands out everything': each drain removes the chosen metric entirely (C02 pop) and choose_item returns a cached metric while the cache is not empty (timesorted: while something is older than the lag), so size strictly decreases (meta-step over these contracts)",
    ])
