"""C10 -- the cache stays within its configured bound and every refusal is signalled.

Function under contract: carbon.cache:_MetricCache.store (with is_full / is_nearly_full inlined
from source), for strategy None and for a strategy whose store() is DrainStrategy.store.
The bucketmax strategy's store() is verified in contracts/c17.py.
Settings: MAX_CACHE_SIZE is +inf or any real >= 1; CACHE_SIZE_HARD_MAX and
CACHE_SIZE_LOW_WATERMARK are derived as in conf.py:300-304 (checked syntactically).
"""
import ast

from pyvc.runner import Unit, Property, Syntactic, Bounded
from . import cache_units as CU


def conf_derivation(index):
  """conf.py derives LOW = MAX*0.95, HARD = MAX*1.05 under flow control else MAX."""
  mi = index.module('carbon.conf')
  want = {
    "settings.CACHE_SIZE_LOW_WATERMARK = settings.MAX_CACHE_SIZE * 0.95": 0,
    "settings.CACHE_SIZE_HARD_MAX = settings.MAX_CACHE_SIZE * 1.05": 0,
    "settings.CACHE_SIZE_HARD_MAX = settings.MAX_CACHE_SIZE": 0,
  }
  for n in ast.walk(mi.tree):
    if isinstance(n, ast.Assign):
      t = ast.unparse(n)
      if t in want:
        want[t] += 1
    if isinstance(n, ast.If) and ast.unparse(n.test) == 'settings.USE_FLOW_CONTROL':
      body = [ast.unparse(x) for x in n.body]
      orelse = [ast.unparse(x) for x in n.orelse]
      if "settings.CACHE_SIZE_HARD_MAX = settings.MAX_CACHE_SIZE * 1.05" in body and \
         "settings.CACHE_SIZE_HARD_MAX = settings.MAX_CACHE_SIZE" in orelse:
        want['shape'] = 1
  others = [ast.unparse(n) for n in ast.walk(mi.tree) if isinstance(n, ast.Assign) and
            any(k in ast.unparse(n.targets[0]) for k in ('CACHE_SIZE_HARD_MAX', 'CACHE_SIZE_LOW_WATERMARK'))
            and ast.unparse(n) not in want]
  ok = all(v == 1 for v in want.values()) and want.get('shape') == 1 and not others
  return ok, "found %r, other assignments %r" % (want, others)


def events_wiring(index):
  """events.py: cacheOverflow feeds the cache.overflow counter; cacheFull / cacheSpaceAvailable
  set / clear state.cacheTooFull (the harness models the events by exactly these effects)."""
  mi = index.module('carbon.events')
  lines = set(ast.unparse(n) for n in mi.tree.body)
  want = ["cacheOverflow.addHandler(lambda: state.instrumentation.increment('cache.overflow'))",
          "cacheFull.addHandler(lambda: setattr(state, 'cacheTooFull', True))",
          "cacheSpaceAvailable.addHandler(lambda: setattr(state, 'cacheTooFull', False))"]
  missing = [w for w in want if w not in lines]
  return (not missing), "missing: %r" % missing


def build():
  units = [Unit('cache.store[%s]' % k, CU.u_store(k), [CU.CACHE + '.store'],
                expect_covers=['store/returns'], replay=CU.replay_cache('store'))
           for k in ('none', 'plain')]
  # the bound under interleavings also needs pop(): it only lowers size, inside its lock region
  units.append(Unit('cache.pop', CU.u_pop, [CU.CACHE + '.pop', CU.CACHE + '._check_available_space'],
                    expect_covers=['pop/returns'], replay=CU.replay_cache('pop')))
  return Property(
    'C10', units,
    syntactic=[Syntactic('C10/conf/derived_limits', conf_derivation,
                         'conf.py derives LOW/HARD from MAX_CACHE_SIZE exactly as the harness assumes'),
               Syntactic('C10/events/wiring', events_wiring,
                         'events.py default handlers are the effects the harness gives the events')],
    bounded=[Bounded('C10/native/two_thread_schedules', 'replay/cache_sched_native.py', ['--depth', '2', '--only', 'sched-bound,sched-size_exact'], ['--depth', '3', '--only', 'sched-bound,sched-size_exact'],
                     'the real _MetricCache under deterministic two-thread schedules (sys.settrace): every history of <= 2 (quick) / 3 (thorough) store / drain_metric calls over 2 metrics x 2 timestamps, with the other thread (writer: 1, 2 or all drains; receiver: one of 4 stores) run at every line step of the traced call at which the cache lock is not held; MAX_CACHE_SIZE in {1,2,3,inf} plus pre-filled caches of 20 with flow control (where cacheFull can fire), all seven strategies',
                     'schedules at line granularity of cache.py give the concrete interleaving that the lock-invariant / rely-guarantee obligations only refute abstractly (byte-code level races inside one line stay out of reach)'),
             Bounded('C10/native/cache_contracts_cross_check', 'replay/cache_native.py',
                     ['--sweep', '3', 'bound,refuse_signal,refuse_only_without_room,refuse_frame,refuse_frame_others,update_when_full'],
                     ['--sweep', '4', 'bound,refuse_signal,refuse_only_without_room,refuse_frame,refuse_frame_others,update_when_full'],
                     'every sequential store/drain history of length <= 3 (quick) / 4 (thorough) over 2 metrics x 2 timestamps, MAX_CACHE_SIZE in {1,2,3,inf}, flow control on/off, all seven strategy settings',
                     "cross-check of the contracts' clauses on the real code by exhaustive short histories (it also stands in when the symbolic engine cannot process a changed function); the clauses themselves are discharged obligations above")],
    trusted_base=['A-ENGINE', 'A-SMT', 'A-GIL', 'A-LIB(dict/defaultdict/deque models)'],
    assumptions=[
      "store() runs on the reactor thread only; its whole body after the tuple unpack is one lock region, so the bound holds whenever the lock is free and pop() (verified in C02) only lowers size",
      "events.cacheOverflow/cacheFull are modelled by their default handlers (checked syntactically); further handlers registered by service.py do not touch the cache",
      "MAX_CACHE_SIZE is +inf or a real >= 1",
    ])
