"""C19 -- new metrics get the first matching storage schema and aggregation policy.

Functions under contract: carbon.storage:loadStorageSchemas, loadAggregationSchemas,
Schema.matches, DefaultSchema.test, PatternSchema.{__init__,test}, Archive.{__init__,getTuple,
fromString}; carbon.util:parseRetentionDef, getUnitString (unit table pinned here);
carbon.writer:writeCachedDataPoints' create section (contracts/writer_units.py, C19/writer/*).

Loader contract (ordered filter): the returned list is exactly the sections, in file order, that
have 'retentions', a non-empty 'pattern' (and a backend-valid archive list), followed by the
default schema -- so a section lacking a key contributes nothing and does not disturb the others.
The writer's two `for ... if schema.matches(metric): ...; break` loops pick the first match.
Together: create() receives the retentions / (xff, method) of the first section in file order
that has both keys and matches, else the pinned defaults [(60, 10080)] / (None, None).
"""
import z3

from pyvc.core import EngineError
from pyvc.runner import Unit, Property, Bounded
from pyvc.interp import Interp, LoopSpec, OBJECT
from pyvc.models import Namespace, External, EffectLog, SymSeq, TSort, TAtom, PyList, Ty
from pyvc.values import Atom, Val, Model, PyObj, PyRaise, ExcVal, ExcClass, Builtin, RepoClass
from . import config_model as CM
from .config_model import Section, TSection, HAS, OPT, NONEMPTY
from . import writer_units as WU

ST = 'carbon.storage'
U = 'carbon.util'
RET_OK = z3.Function('retentions_parse_ok', Atom, z3.BoolSort())
ARCH_VALID = z3.Function('backend_accepts_archives', Atom, z3.BoolSort())
REGEX_OK = z3.Function('regex_compiles', Atom, z3.BoolSort())
DEFAULT_SEC = z3.Const('default_section', Section)

PINNED_UNITS = {'s': 1, 'm': 60, 'h': 3600, 'd': 86400, 'w': 604800, 'y': 31536000}


class RetList(Model):
  def __init__(self, text):
    self.text = text

  def py_listcomp(self, ip, node, fr):
    import ast
    if ast.unparse(node.elt) != 'Archive.fromString(s)':
      raise EngineError("unexpected comprehension over retentions")
    if not ip.ctx.branch(RET_OK(self.text), 'retentions parse'):
      raise PyRaise(ExcVal('ValueError', ('invalid retention',)))
    return ArchivesTok(self.text)


class ArchivesTok(Model):
  def __init__(self, text):
    self.text = text

  def py_listcomp(self, ip, node, fr):
    return TuplesTok(self.text)


class TuplesTok(Model):
  def __init__(self, text):
    self.text = text


class TSchemaObj(Ty):
  """list element = a schema object, represented in the sequence by the section it was built
  from (its `name`)"""
  sort = Section

  def __init__(self, made):
    self.made = made

  def enc(self, ip, v):
    if isinstance(v, PyObj) and v.cls is not None and v.cls.name == 'PatternSchema':
      self.made.append(v)
      return v.fields['name']
    if isinstance(v, PyObj) and v.cls is not None and v.cls.name == 'DefaultSchema':
      self.made.append(v)
      return DEFAULT_SEC
    raise EngineError("schema list element %r" % (v,))


class StorageHarness(object):
  def __init__(self, ctx, index, which):
    self.ctx = ctx
    self.log = EffectLog()
    self.config = CM.Config(ctx)
    self.made = []
    self.ty = TSchemaObj(self.made)
    self.db_present = ctx.choose(2, 'database') == 1
    h = self

    def validate(ip, a, k):
      t = a[0]
      if not isinstance(t, TuplesTok):
        raise EngineError("validateArchiveList(%r)" % (t,))
      if not ip.ctx.branch(ARCH_VALID(t.text), 'archives valid'):
        raise PyRaise(ExcVal('ValueError', ('invalid archive list',)))
    db = Namespace('database', {'validateArchiveList': Builtin('validateArchiveList', validate),
                                'aggregationMethods': AggMethods()}) if self.db_present else None

    def compile_(ip, a, k):
      pat = a[0]
      if not ip.ctx.branch(REGEX_OK(pat), 'regex compiles'):
        raise PyRaise(ExcVal('re.error', ()))
      return ('regex', pat)
    self.ip = Interp(ctx, index, bindings={ST: {
      'OrderedConfigParser': Builtin('OrderedConfigParser', lambda ip, a, k: h.config),
      'STORAGE_SCHEMAS_CONFIG': 'storage-schemas.conf', 'STORAGE_AGGREGATION_CONFIG': 'storage-aggregation.conf',
      'state': Namespace('state', {'database': db}),
      're': Namespace('re', {'compile': Builtin('re.compile', compile_)}),
      'CarbonConfigException': ExcClass('CarbonConfigException'),
    }})
    self.ip.label_prefix = 'C19/'
    self.ip.ext['dict_of'] = CM.dict_of_hook
    self.ip.ext[('truth', 'Atom')] = lambda ip, v: NONEMPTY(v)
    self.ip.ext[('method', 'split')] = lambda ip, o, sep: RetList(o)
    self.ip.ext[('float', 'Atom')] = self.float_of
    self.xff_parse_ok = z3.Function('xff_is_a_float', Atom, z3.BoolSort())
    self.xff_val = z3.Function('xff_value', Atom, z3.RealSort())

  def float_of(self, ip, v):
    if not ip.ctx.branch(self.xff_parse_ok(v), 'float() parses'):
      raise PyRaise(ExcVal('ValueError', ()))
    return self.xff_val(v)


class AggMethods(Model):
  def py___contains__(self, ip, v):
    return z3.Function('agg_method_known', Atom, z3.BoolSort())(TAtom.enc(ip, v))


def loader_unit(which):
  fn = ST + (':loadStorageSchemas' if which == 'storage' else ':loadAggregationSchemas')
  lname = 'loadStorageSchemas' if which == 'storage' else 'loadAggregationSchemas'

  def run(ctx, index):
    h = StorageHarness(ctx, index, which)
    ip = h.ip
    secs = h.config.sections.term
    patt = ip.atom('pattern')
    rets = ip.atom('retentions')

    if which == 'storage':
      def accepted(sec):
        return z3.And(HAS(sec, rets), HAS(sec, patt), NONEMPTY(OPT(sec, patt)),
                      z3.Or(z3.BoolVal(not h.db_present), ARCH_VALID(OPT(sec, rets))))
    else:
      def accepted(sec):
        xa = ip.atom('xfilesfactor')
        return z3.And(HAS(sec, patt), NONEMPTY(OPT(sec, patt)),
                      z3.Or(z3.Not(HAS(sec, xa)), h.xff_parse_ok(OPT(sec, xa))))

    def same(elem, sec):
      return elem == sec

    def lst(fr):
      v = fr['schemaList']
      if isinstance(v, PyList):
        v = v.to_symseq(ip, h.ty)
        v.name = 'schemaList'
        fr.locals['schemaList'] = v
      return v

    def pre(fr):
      lst(fr)
      fr.ghost['of_src'] = z3.K(z3.IntSort(), z3.IntVal(0))
      fr.ghost['of_dst'] = z3.K(z3.IntSort(), z3.IntVal(0))

    def inv(fr):
      return CM.ordered_filter_inv(lst(fr).term, secs, fr.loop_k[0], fr.ghost['of_src'], fr.ghost['of_dst'],
                                   accepted, same)

    def havoc(fr):
      lst(fr).havoc(ip, 'schemaList')
      CM.ordered_filter_ghost(ctx, fr)
      fr.ghost['before'] = lst(fr).term
      h.made[:] = []
      h.exit_ghost = (fr.ghost['of_src'], fr.ghost['of_dst'], lst(fr))

    def step(fr):
      k_done = fr.loop_k[0] - 1
      CM.ordered_filter_step(fr, lst(fr).term, fr.ghost['before'], k_done)
      # the schema object appended in this iteration carries this section's own pattern/archives
      for o in h.made:
        sec = secs[k_done]
        ok = z3.is_expr(o.fields.get('name')) and z3.eq(z3.simplify(o.fields['name']), z3.simplify(sec))
        ctx.check('C19/%s/schema_built_from_its_own_section/name' % lname, z3.BoolVal(bool(ok)))
        p = o.fields.get('pattern')
        ctx.check('C19/%s/schema_built_from_its_own_section/pattern' % lname,
                  p == OPT(sec, patt) if z3.is_expr(p) else z3.BoolVal(False))
        a = o.fields.get('archives')
        if which == 'storage':
          ctx.check('C19/%s/schema_built_from_its_own_section/retentions' % lname,
                    a.text == OPT(sec, rets) if isinstance(a, ArchivesTok) else z3.BoolVal(False))
        else:
          good = isinstance(a, tuple) and len(a) == 2
          ctx.check('C19/%s/schema_built_from_its_own_section/policy_is_a_pair' % lname, z3.BoolVal(good))
          if good:
            xa = ip.atom('xfilesfactor')
            ma = ip.atom('aggregationmethod')
            x, m = a
            ctx.check('C19/%s/schema_built_from_its_own_section/xff' % lname,
                      z3.And(z3.Implies(z3.Not(HAS(sec, xa)), z3.BoolVal(x is None)),
                             z3.Implies(HAS(sec, xa), (x == h.xff_val(OPT(sec, xa))) if z3.is_expr(x) else z3.BoolVal(False))))
            ctx.check('C19/%s/schema_built_from_its_own_section/method' % lname,
                      z3.And(z3.Implies(z3.Not(HAS(sec, ma)), z3.BoolVal(m is None)),
                             z3.Implies(HAS(sec, ma), (m == OPT(sec, ma)) if z3.is_expr(m) else z3.BoolVal(False))))
    ip.loops[(fn, 0)] = LoopSpec('for section in config.sections()', inv, havoc, ghost_pre=pre, ghost_step=step,
                                 locals_modified=[])
    raised = None
    try:
      r = ip.run(fn, [])
    except PyRaise as e:
      raised = e.exc
    ctx.cover('%s/ends' % lname)
    if raised is not None:
      ctx.cover('%s/aborts' % lname)
      # a load may only be aborted by an unreadable file, an unparsable retention (SystemExit),
      # an uncompilable pattern or (aggregation) an out-of-range xFilesFactor / unknown method
      allowed = ('SystemExit', 're.error', 'CarbonConfigException', 'AssertionError')
      ctx.check('aux/%s/aborts_only_for_documented_reasons' % lname, z3.BoolVal(raised.cls_name in allowed))
      return
    ctx.cover('%s/returns' % lname)
    ok = isinstance(r, SymSeq)
    ctx.check('C19/%s/returns_a_list' % lname, z3.BoolVal(ok))
    if not ok:
      return
    src, dst, _ = h.exit_ghost
    n = r.length()
    ctx.check('C19/%s/default_last' % lname, z3.And(n >= 1, r.term[n - 1] == DEFAULT_SEC))
    body = z3.SubSeq(r.term, 0, n - 1)
    for l, f in CM.ordered_filter_inv(body, secs, z3.Length(secs), src, dst, accepted, same):
      ctx.check('C19/%s/%s' % (lname, l), f)
  return Unit('storage.' + lname, run, [fn, ST + ':PatternSchema.__init__'],
              expect_covers=['%s/returns' % lname, '%s/aborts' % lname])


# ---- parseRetentionDef --------------------------------------------------------------------------

ISDIGIT = z3.Function('str_isdigit', Atom, z3.BoolSort())
INTVAL = z3.Function('int_of_digits', Atom, z3.IntSort())
RE_MATCH = z3.Function('matches_digits_letters', Atom, z3.BoolSort())
GROUP1 = z3.Function('match_group1', Atom, Atom)
GROUP2 = z3.Function('match_group2', Atom, Atom)
PART0 = z3.Function('split_colon_0', Atom, Atom)
PART1 = z3.Function('split_colon_1', Atom, Atom)
NPARTS = z3.Function('split_colon_count', Atom, z3.IntSort())
STRIP = z3.Function('str_strip', Atom, Atom)


class SplitResult(Model):
  def __init__(self, s):
    self.s = s

  def py_unpack(self, ip, n):
    if not ip.ctx.branch(NPARTS(self.s) == n, 'split count'):
      raise PyRaise(ExcVal('ValueError', ('unpack',)))
    return [PART0(self.s), PART1(self.s)]


class MatchObj(Model):
  def __init__(self, s):
    self.s = s

  def py___bool__(self, ip):
    return True

  def py_group(self, ip, i):
    return {1: GROUP1, 2: GROUP2}[i](self.s)


class Pattern(Model):
  def __init__(self, pat):
    self.pat = pat

  def py_match(self, ip, s):
    if self.pat != r'^(\d+)([a-z]+)$':
      raise EngineError("unexpected regex %r" % self.pat)
    if ip.ctx.branch(RE_MATCH(s), 're.match'):
      return MatchObj(s)
    return None


def u_parse_retention(ctx, index):
  ip = Interp(ctx, index, bindings={U: {'re': Namespace('re', {'compile': Builtin('re.compile', lambda ip, a, k: Pattern(a[0]))})}})
  ip.ext[('method', 'strip')] = lambda ip2, o: STRIP(o)
  ip.ext[('method', 'split')] = lambda ip2, o, sep: SplitResult(o) if sep == ':' else (_ for _ in ()).throw(EngineError("split(%r)" % sep))
  ip.ext[('method', 'isdigit')] = lambda ip2, o: ISDIGIT(o)
  ip.ext[('int', 'Atom')] = lambda ip2, v: INTVAL(v)
  ip.ext['str_format'] = lambda ip2, fmt, args: 'text'
  s = ctx.fresh(Atom, 'retentionDef')
  # A-STR: digit strings denote naturals
  for x in (PART0(STRIP(s)), PART1(STRIP(s)), GROUP1(PART0(STRIP(s))), GROUP1(PART1(STRIP(s)))):
    ctx.assume(INTVAL(x) >= 0)
  ctx.assume(INTVAL(PART0(STRIP(s))) >= 1)
  ctx.assume(INTVAL(GROUP1(PART0(STRIP(s)))) >= 1)
  raised, r = None, None
  try:
    r = ip.run(U + ':parseRetentionDef', [s])
  except PyRaise as e:
    raised = e.exc
  ctx.cover('parseRetentionDef/ends')
  P, Q = PART0(STRIP(s)), PART1(STRIP(s))

  def mult(u):
    m = z3.IntVal(0)
    for k, v in PINNED_UNITS.items():
      m = z3.If(u == ip.atom(k), z3.IntVal(v), m)
    return m

  def known(u):
    return z3.Or([u == ip.atom(k) for k in PINNED_UNITS])
  p_plain, q_plain = ISDIGIT(P), ISDIGIT(Q)
  p_unit = z3.And(z3.Not(p_plain), RE_MATCH(P), known(GROUP2(P)))
  q_unit = z3.And(z3.Not(q_plain), RE_MATCH(Q), known(GROUP2(Q)))
  wellformed = z3.And(NPARTS(STRIP(s)) == 2, z3.Or(p_plain, p_unit), z3.Or(q_plain, q_unit))
  # well-formed retention strings must be read (C19); what is done with ill-formed ones is informative only
  ctx.check('C19/parseRetentionDef/wellformed_is_accepted', z3.Implies(wellformed, z3.BoolVal(raised is None)))
  ctx.check('aux/parseRetentionDef/illformed_is_rejected', z3.Implies(z3.Not(wellformed), z3.BoolVal(raised is not None)))
  if raised is not None:
    ctx.cover('parseRetentionDef/rejects')
    ctx.check('aux/parseRetentionDef/bad_input_is_ValueError', z3.BoolVal(raised.cls_name == 'ValueError'))
    return
  ctx.cover('parseRetentionDef/accepts')
  ok = isinstance(r, tuple) and len(r) == 2
  ctx.check('C19/parseRetentionDef/returns_pair', z3.BoolVal(ok))
  if not ok:
    return
  prec, pts = r
  from pyvc.values import znum
  prec, pts = znum(prec), znum(pts)
  exp_prec = z3.If(p_plain, INTVAL(P), INTVAL(GROUP1(P)) * mult(GROUP2(P)))
  ctx.check('C19/parseRetentionDef/precision', prec == exp_prec)
  ctx.check('C19/parseRetentionDef/units_pinned', z3.Implies(p_unit, prec == INTVAL(GROUP1(P)) * mult(GROUP2(P))))
  if z3.is_int(pts):
    pts = z3.ToReal(pts)
  exp_pts = z3.If(q_plain, z3.ToReal(INTVAL(Q)),
                  z3.ToReal(INTVAL(GROUP1(Q)) * mult(GROUP2(Q))) / z3.ToReal(exp_prec))
  ctx.check('C19/parseRetentionDef/points', pts == exp_pts)


def u_archive(ctx, index):
  """Archive(secondsPerPoint, points) truncates to int; getTuple returns the pair."""
  ip = Interp(ctx, index, bindings={ST: {}})
  sp = ctx.fresh(z3.IntSort(), 'secondsPerPoint')
  pts = ctx.fresh(z3.RealSort(), 'points')
  a = ip.call(RepoClass(index.cls(ST + ':Archive')), [sp, pts])
  index.mark_used(index.func(ST + ':Archive.__init__'))
  t = ip.call(ip.getattr(a, 'getTuple'), [])
  ctx.cover('archive/returns')
  ok = isinstance(t, tuple) and len(t) == 2
  ctx.check('C19/Archive/getTuple_is_pair', z3.BoolVal(ok))
  if ok:
    ctx.check('C19/Archive/values', z3.And(t[0] == sp, t[1] == z3.If(pts >= 0, z3.ToInt(pts), -z3.ToInt(-pts))))


def u_defaults(ctx, index):
  """the documented fall-backs: default retention [(60, 10080)], default aggregation (None, None),
  and the default schema matches every metric"""
  ip = Interp(ctx, index, bindings={ST: {}})
  env = ip.env(ST)
  ds = env.lookup('defaultSchema')
  da = env.lookup('defaultAggregation')
  ctx.cover('defaults/evaluated')
  arch = ds.fields.get('archives')
  ok = isinstance(arch, PyList) and len(arch.items) == 1
  ctx.check('C19/defaults/one_default_archive', z3.BoolVal(ok))
  if ok:
    t = ip.call(ip.getattr(arch.items[0], 'getTuple'), [])
    ctx.check('C19/defaults/retention_is_60s_for_7_days', z3.BoolVal(t == (60, 10080)))
  ctx.check('C19/defaults/aggregation_is_none_none', z3.BoolVal(da.fields.get('archives') == (None, None)))
  m = ctx.fresh(Atom, 'metric')
  for o, nm in ((ds, 'storage'), (da, 'aggregation')):
    r = ip.call(ip.getattr(o, 'matches'), [m])
    index.mark_used(index.func(ST + ':Schema.matches'))
    index.mark_used(index.func(ST + ':DefaultSchema.test'))
    ctx.check('C19/defaults/%s_default_matches_everything' % nm, z3.BoolVal(r is True))


def u_pattern_schema_matches(ctx, index):
  """PatternSchema.matches(metric) <=> its own compiled regex finds a match (re uninterpreted)"""
  SEARCH = z3.Function('regex_search', Atom, Atom, z3.BoolSort())
  ip = Interp(ctx, index, bindings={ST: {}})
  pat = ctx.fresh(Atom, 'pattern')
  ip.ext[('method', 'search')] = lambda ip2, o, metric: (SEARCH(o[1], metric) if isinstance(o, tuple) and o[0] == 'regex' else None)
  ip.ext[('truth', 'Atom')] = lambda ip2, v: NONEMPTY(v)
  o = PyObj(index.cls(ST + ':PatternSchema'), {'name': 'n', 'pattern': pat, 'regex': ('regex', pat), 'archives': None})
  m = ctx.fresh(Atom, 'metric')
  r = ip.call(ip.getattr(o, 'matches'), [m])
  index.mark_used(index.func(ST + ':PatternSchema.test'))
  ctx.cover('matches/returns')
  r = r if z3.is_expr(r) else z3.BoolVal(bool(r))
  ctx.check('C19/PatternSchema.matches/iff_own_regex_searches', r == SEARCH(pat, m))


def build():
  units = [
    loader_unit('storage'), loader_unit('aggregation'),
    Unit('util.parseRetentionDef', u_parse_retention, [U + ':parseRetentionDef', U + ':getUnitString'],
         expect_covers=['parseRetentionDef/accepts', 'parseRetentionDef/rejects']),
    Unit('storage.Archive', u_archive, [ST + ':Archive.__init__', ST + ':Archive.getTuple'], expect_covers=['archive/returns']),
    Unit('storage.defaults', u_defaults, [ST + ':Schema.matches', ST + ':DefaultSchema.test'], expect_covers=['defaults/evaluated']),
    Unit('storage.PatternSchema.matches', u_pattern_schema_matches, [ST + ':PatternSchema.test'], expect_covers=['matches/returns']),
    Unit('writer.writeCachedDataPoints[iteration]', WU.u_write_iteration, [WU.WCD],
         expect_covers=['create/created']),
  ]
  return Property(
    'C19', units,
    bounded=[Bounded('C19/native/generated_config_files', 'replay/schemas_native.py', ['--n', '300'], ['--n', '20000'],
                     "300 (quick) / 20000 (thorough) seeded random pairs of storage-schemas.conf (1..6 sections, section names incl. 'default' and 'carbon', patterns from a pool of 10 overlapping regexes, sections without pattern / without retentions, unknown keys, key order shuffled, 1..3 archives with precision and duration in every unit suffix s/m/h/d/w/y or plain numbers) and storage-aggregation.conf (0..5 sections, missing keys) x 10 metric names, through the real loadStorageSchemas / loadAggregationSchemas and the real create phase of writeCachedDataPoints with a storage double, against an independent reading of the files",
                     "ConfigParser and the regex / string primitives are assumptions of the proof (A-CONF, A-STR); this runs parser, loaders and writer together on CPython")],
    trusted_base=['A-ENGINE', 'A-SMT', 'A-CONF', 'A-STR(strip/split/isdigit/int/re.match uninterpreted)', 'A-BACKEND'],
    assumptions=[
      "A-CONF: OrderedConfigParser.sections() is the file order of [section] headers and items()/has_option/get return the section's options (OrderedConfigParser.read itself does file I/O and is not under contract)",
      "strings are opaque: strip, split(':'), isdigit, int(), the regex ^(\\\\d+)([a-z]+)$ and its groups are uninterpreted functions of the text; what is proved is how parseRetentionDef combines them (unit table pinned: s=1 m=60 h=3600 d=86400 w=604800 y=31536000; points = duration / precision)",
      "whether a retention list parses, a regex compiles, or the backend accepts an archive list are uninterpreted predicates of the section's own text, so 'accepted' is a function of the section",
      "schema.matches(metric) in the writer is an uninterpreted predicate of (schema, metric); PatternSchema.matches is separately shown to be its own regex's search",
    ])
