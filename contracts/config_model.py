"""Model of (Ordered)ConfigParser and helpers for the 'ordered filter' loop invariants used by the
rule/schema loaders (C16, C19).

A-CONF: OrderedConfigParser.sections() returns the section names in file order; has_option /
get / getboolean / items return what the section contains.  A section is an element of the
uninterpreted sort Section; what it contains is given by uninterpreted functions of the section
(so the loaders are verified for every file).
"""
import z3

from pyvc.core import EngineError
from pyvc.interp import LoopSpec, DictLit
from pyvc.models import Namespace, External, SymSeq, TSort, TAtom, PyList
from pyvc.values import Atom, Val, Model, PyRaise, ExcVal, PyObj, Builtin

Section = z3.DeclareSort('Section')
TSection = TSort(Section)
HAS = z3.Function('has_option', Section, Atom, z3.BoolSort())
OPT = z3.Function('option_value', Section, Atom, Atom)
OPTBOOL = z3.Function('option_bool', Section, Atom, z3.BoolSort())
NONEMPTY = z3.Function('str_nonempty', Atom, z3.BoolSort())


class Config(Model):
  def __init__(self, ctx, readable=None, name='config'):
    self.sections = SymSeq(TSection, ctx.fresh(z3.SeqSort(Section), 'sections'), 'sections')
    self.readable = readable if readable is not None else ctx.fresh(z3.BoolSort(), 'file_readable')
    self.reads = []

  def py_read(self, ip, path):
    self.reads.append(path)
    if ip.ctx.branch(self.readable, 'config readable'):
      return PyList([path])
    raise PyRaise(ExcVal('CarbonConfigException', ('Error: Missing config file or wrong perms',)))

  def py_sections(self, ip):
    return self.sections.copy()

  def py_has_option(self, ip, section, opt):
    return HAS(section, ip.atom(opt))

  def py_get(self, ip, section, opt):
    if not ip.ctx.branch(HAS(section, ip.atom(opt)), 'has ' + opt):
      raise PyRaise(ExcVal('Exception', ('NoOptionError',)))
    return OPT(section, ip.atom(opt))

  def py_getboolean(self, ip, section, opt):
    if not ip.ctx.branch(HAS(section, ip.atom(opt)), 'has ' + opt):
      raise PyRaise(ExcVal('Exception', ('NoOptionError',)))
    if ip.ctx.choose(2, 'getboolean:bad') == 1:
      raise PyRaise(ExcVal('ValueError', ('Not a boolean',)))
    return OPTBOOL(section, ip.atom(opt))

  def py_items(self, ip, section):
    return OptionItems(section)


class OptionItems(Model):
  def __init__(self, section):
    self.section = section


class Options(Model):
  """dict(config.items(section))"""
  def __init__(self, section):
    self.section = section

  def py_get(self, ip, opt, default=None):
    if ip.ctx.branch(HAS(self.section, ip.atom(opt)), 'has ' + opt):
      return OPT(self.section, ip.atom(opt))
    return default

  def py___getitem__(self, ip, opt):
    if ip.ctx.branch(HAS(self.section, ip.atom(opt)), 'has ' + opt):
      return OPT(self.section, ip.atom(opt))
    raise PyRaise(ExcVal('KeyError', (opt,)))

  def py___contains__(self, ip, opt):
    return HAS(self.section, ip.atom(opt))


def dict_of_hook(ip, v):
  if isinstance(v, OptionItems):
    return Options(v.section)
  raise EngineError("dict(%r)" % (v,))


def ordered_filter_inv(out_term, src_term, k, srcidx, dstidx, accepted, same):
  """`out` is the order-preserving sub-list of src[:k] of the accepted elements:
     srcidx : Int -> Int  (ghost) index in src of out[a]   -- strictly increasing, < k, accepted
     dstidx : Int -> Int  (ghost) index in out of src[j]   -- for every accepted j < k
     same(out_elem, src_elem) : the list element is the one built from that source element"""
  a, b, j = z3.Int('a?'), z3.Int('b?'), z3.Int('j?')
  n = z3.Length(out_term)
  return [
    ('elements_come_from_accepted_sections', z3.ForAll([a], z3.Implies(
      z3.And(0 <= a, a < n),
      z3.And(0 <= z3.Select(srcidx, a), z3.Select(srcidx, a) < k,
             accepted(src_term[z3.Select(srcidx, a)]),
             same(out_term[a], src_term[z3.Select(srcidx, a)]))))),
    ('file_order_kept', z3.ForAll([a, b], z3.Implies(z3.And(0 <= a, a < b, b < n),
                                                   z3.Select(srcidx, a) < z3.Select(srcidx, b)))),
    ('every_accepted_section_present', z3.ForAll([j], z3.Implies(
      z3.And(0 <= j, j < k, accepted(src_term[j])),
      z3.And(0 <= z3.Select(dstidx, j), z3.Select(dstidx, j) < n,
             z3.Select(srcidx, z3.Select(dstidx, j)) == j)))),
  ]


def ordered_filter_ghost(ctx, fr, prefix='of'):
  fr.ghost[prefix + '_src'] = ctx.fresh(z3.ArraySort(z3.IntSort(), z3.IntSort()), 'srcidx')
  fr.ghost[prefix + '_dst'] = ctx.fresh(z3.ArraySort(z3.IntSort(), z3.IntSort()), 'dstidx')


def ordered_filter_step(fr, out_term, before_term, k_done, prefix='of'):
  """ghost update at the end of an iteration that processed src[k_done]: if the list grew, its new
  last element came from k_done"""
  n0 = z3.Length(before_term)
  grew = z3.Length(out_term) > n0
  fr.ghost[prefix + '_src'] = z3.If(grew, z3.Store(fr.ghost[prefix + '_src'], n0, k_done), fr.ghost[prefix + '_src'])
  fr.ghost[prefix + '_dst'] = z3.If(grew, z3.Store(fr.ghost[prefix + '_dst'], k_done, n0), fr.ghost[prefix + '_dst'])
