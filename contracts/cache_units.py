"""Units over carbon.cache shared by C02, C09, C10, C17 (each property keeps the obligations
whose label carries its id)."""
import z3

from pyvc.core import EngineError
from pyvc.interp import Spec, LoopSpec
from pyvc.values import Atom, Val, PyRaise, PyObj
from pyvc.models import SymSeq, SymMap, TAtom, TReal, TVal, TTuple, PyList
from .cache_model import Harness, IM, EMPTY_IM, R, CacheData
from .common import pyobj

CACHE = 'carbon.cache:_MetricCache'


def implies(a, b):
  return z3.Implies(a, b)


def plain_strategy(index):
  """DrainStrategy.store is inherited unchanged by naive/max/random/sorted/timesorted."""
  return pyobj(index, 'carbon.cache:DrainStrategy', {}, name='strategy')


def u_store(strategy):
  def run(ctx, index):
    hs = Harness(ctx, index)
    d = hs.data
    if strategy == 'plain':
      hs.cache.fields['strategy'] = plain_strategy(index)
      hs.cache.fields['strategy'].fields['cache'] = hs.cache
    m = ctx.fresh(Atom, 'metric')
    ts = ctx.fresh(R, 'ts')
    v = ctx.fresh(Val, 'value')
    k_any = ctx.fresh(Atom, 'any_metric')
    # store() runs on the reactor thread: between its atomic steps outside the lock the writer
    # thread may pop metrics (rely G_W*).  The contract relates the state at lock release to the
    # state at lock acquisition (the linearisation point).
    from .cache_model import enable_rely_W
    enable_rely_W(hs)
    inf = hs.max_inf
    snap = {}

    def on_acq(ip):
      # lock-invariant conjuncts assumed at acquisition (they are proved again at release)
      snap['old'] = d.snapshot()
      snap['size0'] = hs.cache.fields['size']
      snap['nm0'] = hs.new_metrics.term
      snap['flag0'] = hs.state.attrs['cacheTooFull']
      ctx.assume(z3.Implies(z3.Not(inf), z3.ToReal(snap['size0']) <= hs.hard))          # C10 bound (pre)
      # I_nonempty (C17, lock invariant): no cached metric maps to an empty dict -- instantiated at
      # the stored metric and at an arbitrary other one (a Skolem constant stands for "every")
      for x in (m, k_any):
        ctx.assume(z3.Implies(z3.Select(d.keys, x), IM.icard(z3.Select(d.inner, x)) >= 1))
      f0 = snap['flag0'] if z3.is_expr(snap['flag0']) else z3.BoolVal(bool(snap['flag0']))
      ctx.assume(z3.Implies(z3.And(f0, z3.Not(inf)), z3.ToReal(snap['size0']) >= hs.low))   # C09 (pre)
      hs.log.clear()

    def on_rel(ip):
      snap['rel'] = d.snapshot()
      snap['size1'] = hs.cache.fields['size']
      snap['nm1'] = hs.new_metrics.term
      snap['flag1'] = hs.state.attrs['cacheTooFull']
      snap['events'] = list(hs.log.events)
    hs.install_lock_hooks(['C02/store', 'C10/store', 'C17/store'], on_acquire=on_acq, on_release=on_rel)
    raised = None
    try:
      hs.ip.run(CACHE + '.store', [m, (ts, v)], self_obj=hs.cache)
    except PyRaise as e:
      raised = e.exc
    ctx.cover('store/returns')
    ctx.check('C17/store/no_raise[%s]' % strategy, z3.BoolVal(raised is None))
    if raised is not None:
      return
    ok_lock = 'rel' in snap
    for pre in ('C02', 'C10', 'C17'):
      ctx.check(pre + '/store/updates_happen_in_one_lock_region', z3.BoolVal(ok_lock))
    if not ok_lock:
      return
    old, size0, nm0, flag0 = snap['old'], snap['size0'], snap['nm0'], snap['flag0']

    class _View(object):
      pass
    dd = _View()
    dd.keys, dd.inner, dd.card, dd.total = snap['rel'].keys, snap['rel'].inner, snap['rel'].card, snap['rel'].total
    d = dd
    hs_size1, hs_nm1, hs_flag1 = snap['size1'], snap['nm1'], snap['flag1']
    events_in_lock = snap['events']
    im0 = z3.Select(old.inner, m)
    in0 = z3.Select(old.keys, m)
    present = z3.And(in0, z3.Select(IM.ikeys(im0), ts))
    size1 = hs_size1
    # "refused" / "accepted" are defined by the observable outcome, not by the code's own test
    stored1 = z3.And(z3.Select(d.keys, m), z3.Select(IM.ikeys(z3.Select(d.inner, m)), ts))
    no_room = z3.And(z3.Not(inf), z3.ToReal(size0) + 1 > hs.hard)
    overflow = len([e for e in events_in_lock if e[0] == 'events.cacheOverflow'])
    cfull = len([e for e in events_in_lock if e[0] == 'events.cacheFull'])
    refused = z3.And(z3.Not(present), z3.Not(stored1))
    accepted = z3.And(z3.Not(present), stored1)
    base_im = z3.If(in0, im0, EMPTY_IM)

    # ---- C17: I_nonempty re-established at lock release ----
    ctx.check('C17/store/I_nonempty', z3.And(*[z3.Implies(z3.Select(d.keys, x), IM.icard(z3.Select(d.inner, x)) >= 1)
                                               for x in (m, k_any)]))
    # ---- C10 ----
    ctx.check('C10/store/bound', z3.Implies(z3.Not(inf), z3.ToReal(size1) <= hs.hard))
    ctx.check('C10/store/refuse_signal', z3.And(z3.Implies(refused, z3.BoolVal(overflow == 1)),
                                                z3.Implies(z3.Not(refused), z3.BoolVal(overflow == 0))))
    ctx.check('C10/store/refuse_only_without_room', z3.Implies(refused, no_room))
    ctx.check('C10/store/refuse_frame',
              z3.Implies(refused, z3.And(d.keys == old.keys, d.card == old.card, size1 == size0,
                                         z3.Select(d.inner, m) == z3.Select(old.inner, m))))
    ctx.check('C10/store/refuse_frame_others', z3.Implies(refused, frame_others(d, old, m)))
    upd_im = IM.mkIM(IM.ikeys(im0), z3.Store(IM.ivals(im0), ts, v), IM.icard(im0))
    ctx.check('C10/store/update_when_full',
              z3.Implies(present, z3.And(size1 == size0, d.keys == old.keys,
                                         d.inner == z3.Store(old.inner, m, upd_im))))
    # ---- C02 ----
    acc_im = IM.mkIM(z3.Store(IM.ikeys(base_im), ts, z3.BoolVal(True)),
                     z3.Store(IM.ivals(base_im), ts, v), IM.icard(base_im) + 1)
    ctx.check('C02/store/accept_view',
              z3.Implies(accepted, z3.And(d.keys == z3.Store(old.keys, m, z3.BoolVal(True)),
                                          d.inner == z3.Store(old.inner, m, acc_im),
                                          size1 == size0 + 1)))
    ctx.check('C02/store/lastwrite',
              z3.Implies(z3.Or(accepted, present),
                         z3.And(z3.Select(d.keys, m),
                                z3.Select(IM.ikeys(z3.Select(d.inner, m)), ts),
                                z3.Select(IM.ivals(z3.Select(d.inner, m)), ts) == v)))
    ctx.check('C02/store/frame_others', frame_others(d, old, m))
    ctx.check('C02/store/same_metric_other_timestamps', same_metric_others(d, old, m, ts))
    was_new = z3.Or(z3.Not(in0), IM.icard(im0) == 0)
    # (new_metrics is the writer's create queue, not part of C02's statement: informative)
    ctx.check('aux/store/new_metrics',
              z3.And(z3.Implies(z3.And(accepted, was_new),
                                hs_nm1 == z3.Concat(nm0, z3.Unit(m))),
                     z3.Implies(z3.Not(z3.And(accepted, was_new)), hs_nm1 == nm0)))
    # ---- C09 (cache side): the too-full flag is only ever raised with size >= MAX >= LOW ----
    flag1 = hs_flag1
    ctx.check('C09/store/flag_implies_above_low',
              z3.Implies(z3.And(hs.ip.truth(flag1) if not isinstance(flag1, bool) else z3.BoolVal(flag1), z3.Not(inf)),
                         z3.ToReal(size1) >= hs.low))
    ctx.check('C09/store/full_signal_only_at_max',
              z3.Implies(z3.BoolVal(cfull > 0), z3.And(z3.Not(inf), z3.ToReal(size0) >= hs.max, accepted)))
    # (that store signals at all is the mechanism, not part of C09: informative only)
    ctx.check('aux/store/full_signal_at_max',
              z3.Implies(z3.And(accepted, z3.Not(inf), z3.ToReal(size0) >= hs.max), z3.BoolVal(cfull == 1)))
    # what C09 needs: a full signal is raised inside the critical section that observed the fullness --
    # raised after the lock is released it can arrive after the writer has drained and signalled space
    all_full = len([e for e in hs.log.events if e[0] == 'events.cacheFull'])
    ctx.check('C09/store/full_signal_inside_the_lock_region', z3.BoolVal(all_full == cfull))
    ctx.check('C09/store/never_signals_space', z3.BoolVal(len([e for e in hs.log.events if e[0] == 'events.cacheSpaceAvailable']) == 0))
  return run


def frame_others(d, old, m):
  """every other metric: same presence, same datapoints"""
  o = z3.Const('o?', Atom)
  return z3.ForAll([o], z3.Implies(o != m, z3.And(z3.Select(d.keys, o) == z3.Select(old.keys, o),
                                                   z3.Implies(z3.Select(old.keys, o),
                                                              z3.Select(d.inner, o) == z3.Select(old.inner, o)))))


def same_metric_others(d, old, m, ts):
  """the stored metric's other timestamps keep their presence and value"""
  t = z3.Real('t?')
  return z3.Implies(z3.Select(old.keys, m),
                    z3.ForAll([t], z3.Implies(
                      t != ts,
                      z3.And(z3.Select(d.keys, m),
                             z3.Select(IM.ikeys(z3.Select(d.inner, m)), t) == z3.Select(IM.ikeys(z3.Select(old.inner, m)), t),
                             z3.Implies(z3.Select(IM.ikeys(z3.Select(old.inner, m)), t),
                                        z3.Select(IM.ivals(z3.Select(d.inner, m)), t) ==
                                        z3.Select(IM.ivals(z3.Select(old.inner, m)), t))))))


def replay_cache(kind, strategies=None):
  """Native replay by guided search: the scalar part of the counter-model (MAX_CACHE_SIZE, flow
  control) seeds an enumeration of short histories on the real cache (replay/cache_native.py)."""
  def rep(model, ob):
    import json
    from pyvc.runner import run_native
    from .common import model_real
    maxes = []
    for name in model:
      if name.split('!')[0] == 'MAX_CACHE_SIZE':
        v = model_real(model, name)
        if v is not None:
          maxes.append(float(v))
    inf = any(model.get(n) == 'true' for n in model if n.split('!')[0] == 'MAX_is_inf')
    hint = [x for x in maxes if x <= 8]
    args = {'clause': ob.label,
            'maxes': (hint + [m for m in (1, 2, 3, 6) if m not in hint]) + ([float('inf')] if inf else []),
            'strategies': strategies or ['none', 'sorted', 'bucketmax'], 'depth': 4}
    rc, out, err = run_native('replay/cache_native.py', [json.dumps(args)], timeout=900)
    res = None
    for line in out.splitlines():
      if line.startswith('REPLAY-RESULT '):
        res = json.loads(line[len('REPLAY-RESULT '):])
    if res is None:
      return {'replay_error': (err or out)[-600:]}
    if res.get('native_confirms'):
      return res
    # no sequential history fails: look for a two-thread schedule (lock-region / signalling clauses)
    key = ob.label.split('/')[-1].split('[')[0]
    if key in ('full_signal_inside_the_lock_region', 'full_signal_only_at_max', 'flag_implies_above_low', 'check_follows', 'resumes',
               'never_signals_space', 'signals_space_at_most_once'):
      only = 'sched-paused-at-quiescence'
    else:
      only = 'sched-no_raise,sched-conservation,sched-size_exact,sched-bound,sched-no_empty_entries'
    rc, out, err = run_native('replay/cache_sched_native.py', ['--depth', '2', '--only', only], timeout=900)
    for line in out.splitlines():
      if line.startswith('BOUNDED-RESULT '):
        r = json.loads(line[len('BOUNDED-RESULT '):])
        if r['failures']:
          return {'native_confirms': True, 'schedule': r['failures'][0], 'schedules_tried': r['evaluations'],
                  'sequential_histories_tried': res.get('histories_tried')}
        res['schedules_tried'] = r['evaluations']
    return res
  return rep


# ------------------------------------------------------------------------------------------------
# pop  (writer thread; rely = G_R*)

def bp_inv(hs):
  """C09 cache-side invariant outside the pop window: cacheTooFull ==> size >= LOW_WATERMARK."""
  flag = hs.state.attrs['cacheTooFull']
  flag = flag if z3.is_expr(flag) else z3.BoolVal(bool(flag))
  return z3.And(z3.Implies(hs.max_inf, z3.Not(flag)),
                z3.Implies(z3.And(flag, z3.Not(hs.max_inf)), z3.ToReal(hs.cache.fields['size']) >= hs.low))


def sorted_items_facts(r, ikeys, ivals, icard):
  """what `sorted(d.items(), key=by_timestamp)` must satisfy w.r.t. the dict d = (ikeys, ivals, icard)"""
  pty = r.ty
  fst, snd = pty.acc
  i, j = z3.Int('i?'), z3.Int('j?')
  n = r.length()
  t = r.term
  return [
    ('length', n == icard),
    ('members', z3.ForAll([i], z3.Implies(z3.And(0 <= i, i < n),
                                          z3.And(z3.Select(ikeys, fst(t[i])),
                                                 z3.Select(ivals, fst(t[i])) == snd(t[i]))))),
    ('sorted_unique', z3.ForAll([i, j], z3.Implies(z3.And(0 <= i, i < j, j < n), fst(t[i]) < fst(t[j])))),
  ]


def u_pop(ctx, index):
  from .cache_model import enable_rely_R
  hs = Harness(ctx, index)
  enable_rely_R(hs)
  d = hs.data
  m = ctx.fresh(Atom, 'metric')
  ctx.assume(z3.Select(d.keys, m))           # requires: metric in cache (R never removes: stable)
  ctx.assume(bp_inv(hs))                     # C09 invariant holds when W is outside the window
  snap = {}

  def on_acq(ip):
    snap['acq'] = d.snapshot()
    snap['size_acq'] = hs.cache.fields['size']
    ctx.assume(z3.Implies(z3.Not(hs.max_inf), z3.ToReal(hs.cache.fields['size']) <= hs.hard))

  def on_rel(ip):
    snap['rel'] = d.snapshot()
    snap['size_rel'] = hs.cache.fields['size']
  hs.install_lock_hooks(['C02/pop', 'C10/pop'], on_acquire=on_acq, on_release=on_rel)
  raised = None
  try:
    r = hs.ip.run(CACHE + '.pop', [m], self_obj=hs.cache)
  except PyRaise as e:
    raised = e.exc
  ctx.cover('pop/returns')
  ctx.check('C02/pop/no_raise', z3.BoolVal(raised is None))
  ctx.check('C17/pop/no_raise', z3.BoolVal(raised is None))
  if raised is not None:
    return
  acq, rel = snap['acq'], snap['rel']
  im = z3.Select(acq.inner, m)
  ctx.check('C02/pop/removed', z3.And(rel.keys == z3.Store(acq.keys, m, z3.BoolVal(False)),
                                      rel.inner == acq.inner, rel.card == acq.card - 1))
  ctx.check('C02/pop/size', snap['size_rel'] == snap['size_acq'] - IM.icard(im))
  ctx.check('C10/pop/bound', z3.Implies(z3.Not(hs.max_inf), z3.ToReal(snap['size_rel']) <= hs.hard))
  if not isinstance(r, SymSeq):
    ctx.check('C02/pop/result_is_list', z3.BoolVal(False))
    return
  for l, f in sorted_items_facts(r, IM.ikeys(im), IM.ivals(im), IM.icard(im)):
    ctx.check('C02/pop/' + l, f)
  # C09: when pop returns (W leaves the window) the invariant is restored
  ctx.check('C09/pop/check_follows', bp_inv(hs))
  ctx.check('C09/pop/signals_space_at_most_once', z3.BoolVal(len(hs.log.of('events.cacheSpaceAvailable')) <= 1))
  ctx.check('C09/pop/never_signals_full', z3.BoolVal(len(hs.log.of('events.cacheFull')) == 0))


def u_check_space(ctx, index):
  """_check_available_space on its own, from any state (the window after pop's lock region)."""
  from .cache_model import enable_rely_R
  hs = Harness(ctx, index)
  enable_rely_R(hs)
  flag = hs.state.attrs['cacheTooFull']
  ctx.assume(z3.Implies(hs.max_inf, z3.Not(flag)))
  hs.ip.run(CACHE + '._check_available_space', [], self_obj=hs.cache)
  ctx.cover('check_space/returns')
  ctx.check('C09/_check_available_space/resumes', bp_inv(hs))
  if hs.log.of('events.cacheSpaceAvailable'):
    ctx.cover('check_space/signalled')


def pop_spec(hs, label_prefix):
  """Contract of pop() as used at call sites (proved by u_pop): requires metric in cache; the
  cache then evolves by R* ; remove(metric) ; R*, the result is a fresh list sorted strictly by
  timestamp (ownership: it is not reachable from the cache)."""
  def apply(ip, args, kwargs):
    selfobj, m = args
    ip.ctx.check(label_prefix + '/pop_requires_metric_in_cache', z3.Select(hs.data.keys, m), kind='pre')
    hs.rely(ip, None)
    hs.assume_I()
    d = hs.data
    im = z3.Select(d.inner, m)
    ip.ctx.assume(z3.Select(d.keys, m))
    acq_total = d.total
    d.remove(ip, m)
    hs.cache.fields['size'] = hs.cache.fields['size'] - IM.icard(im)
    pty = TTuple(TReal, TVal)
    r = SymSeq.fresh(ip, pty, 'popped')
    for l, f in sorted_items_facts(r, IM.ikeys(im), IM.ivals(im), IM.icard(im)):
      ip.ctx.assume(f)
    ip.ctx.assume(IM.icard(im) >= 0)
    hs.ghost_popped = (m, im, r)
    # _check_available_space may clear the flag
    if ip.ctx.choose(2, 'pop:space') == 1:
      hs.state.attrs['cacheTooFull'] = z3.BoolVal(False)
      hs.log.add('events.cacheSpaceAvailable', (), 'ret', None)
    hs.rely(ip, None)
    return r
  return Spec(CACHE + '.pop', apply)


def choose_item_spec(hs, qual, label_prefix):
  """Interface contract of DrainStrategy.choose_item (each strategy is verified against it in
  C17): returns None or a metric that is in the cache; touches only the strategy's own state."""
  def apply(ip, args, kwargs):
    if ip.ctx.choose(2, 'choose_item:none') == 1:
      return None
    m = ip.ctx.fresh(Atom, 'chosen')
    ip.ctx.assume(z3.Select(hs.data.keys, m))
    return m
  return Spec(qual, apply)


def u_drain_metric(strategy):
  def run(ctx, index):
    from .cache_model import enable_rely_R
    hs = Harness(ctx, index)
    specs = {CACHE + '.pop': pop_spec(hs, 'C02/drain_metric')}
    if strategy != 'none':
      st = plain_strategy(index)
      st.fields['cache'] = hs.cache
      hs.cache.fields['strategy'] = st
      specs['carbon.cache:DrainStrategy.choose_item'] = choose_item_spec(
        hs, 'carbon.cache:DrainStrategy.choose_item', 'C02/drain_metric')
    hs.ip.specs.update(specs)
    enable_rely_R(hs)
    d = hs.data
    snap = {}

    def on_acq(ip):
      snap['acq'] = d.snapshot()
      snap['size_acq'] = hs.cache.fields['size']
      m = z3.Const('m?', Atom)
      # I_nonempty is part of the lock invariant (C17)
      ip.ctx.assume(z3.ForAll([m], z3.Implies(z3.Select(d.keys, m), IM.icard(z3.Select(d.inner, m)) >= 1)))

    def on_rel(ip):
      snap['rel'] = d.snapshot()
      snap['size_rel'] = hs.cache.fields['size']
    hs.install_lock_hooks(['C02/drain_metric', 'C17/drain_metric'], on_acquire=on_acq, on_release=on_rel)
    raised = None
    try:
      r = hs.ip.run(CACHE + '.drain_metric', [], self_obj=hs.cache)
    except PyRaise as e:
      raised = e.exc
    ctx.cover('drain_metric/returns')
    ctx.check('C02/drain_metric/no_raise[%s]' % strategy, z3.BoolVal(raised is None))
    ctx.check('C17/drain_metric/no_raise[%s]' % strategy, z3.BoolVal(raised is None))
    if raised is not None:
      return
    ok_shape = isinstance(r, tuple) and len(r) == 2
    ctx.check('C02/drain_metric/result_shape', z3.BoolVal(ok_shape))
    if not ok_shape:
      return
    mm, dps = r
    gp = getattr(hs, 'ghost_popped', None)
    if mm is None:
      ctx.cover('drain_metric/none')
      ctx.check('C02/drain_metric/none_means_empty_batch',
                z3.BoolVal(isinstance(dps, PyList) and len(dps.items) == 0))
      ctx.check('C02/drain_metric/none_leaves_cache',
                z3.BoolVal(gp is None) if 'rel' not in snap else
                z3.And(snap['rel'].keys == snap['acq'].keys, snap['rel'].inner == snap['acq'].inner, snap['size_rel'] == snap['size_acq']))
      return
    ctx.cover('drain_metric/some')
    if gp is not None:
      # no-strategy branch: the batch is pop(chosen) (pop's contract)
      ctx.check('C02/drain_metric/batch_is_pop_of_chosen', z3.BoolVal(gp[2] is dps and z3.eq(gp[0], mm)))
      ctx.check('C17/drain_metric/nonempty_batch[%s]' % strategy, z3.BoolVal(True))
      return
    # strategy branch: chosen and popped inside one lock region
    ok = 'rel' in snap and isinstance(dps, SymSeq) and z3.is_expr(mm)
    ctx.check('C02/drain_metric/choose_and_pop_in_one_lock_region', z3.BoolVal(bool(ok)))
    if not ok:
      return
    acq, rel = snap['acq'], snap['rel']
    im = z3.Select(acq.inner, mm)
    ctx.check('C02/drain_metric/chosen_was_cached', z3.Select(acq.keys, mm))
    ctx.check('C02/drain_metric/removed', z3.And(rel.keys == z3.Store(acq.keys, mm, z3.BoolVal(False)), rel.inner == acq.inner))
    ctx.check('C02/drain_metric/size', snap['size_rel'] == snap['size_acq'] - IM.icard(im))
    for l, f in sorted_items_facts(dps, IM.ikeys(im), IM.ivals(im), IM.icard(im)):
      ctx.check('C02/drain_metric/batch/' + l, f)
    ctx.check('C17/drain_metric/nonempty_batch[%s]' % strategy, dps.length() >= 1)
    ctx.check('C09/drain_metric/check_follows', bp_inv(hs))
  return run


def u_get_datapoints(ctx, index):
  hs = Harness(ctx, index)
  d = hs.data
  old = d.snapshot()
  size0 = hs.cache.fields['size']
  m = ctx.fresh(Atom, 'metric')
  r = hs.ip.run(CACHE + '.get_datapoints', [m], self_obj=hs.cache)
  ctx.cover('get_datapoints/returns')
  ctx.check('C02/query/frame', z3.And(d.keys == old.keys, d.inner == old.inner, d.card == old.card,
                                      hs.cache.fields['size'] == size0))
  if ctx.branch(z3.Select(old.keys, m), 'present'):
    im = z3.Select(old.inner, m)
    ok = isinstance(r, SymSeq)
    ctx.check('C02/query/result_is_list', z3.BoolVal(ok))
    if ok:
      for l, f in sorted_items_facts(r, IM.ikeys(im), IM.ivals(im), IM.icard(im)):
        ctx.check('C02/query/get_datapoints/' + l, f)
  else:
    ctx.check('C02/query/absent_gives_empty', z3.BoolVal(isinstance(r, PyList) and len(r.items) == 0))
