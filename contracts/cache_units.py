"""Units over carbon.cache shared by C02, C09, C10, C17 (each property keeps the obligations
whose label carries its id)."""
import z3

from pyvc.core import EngineError
from pyvc.interp import Spec, LoopSpec
from pyvc.values import Atom, Val, PyRaise, PyObj
from pyvc.models import SymSeq, SymMap, TAtom, TReal, TVal, TTuple, PyList
from .cache_model import Harness, IM, EMPTY_IM, R, CacheData
from .common import pyobj

CACHE = 'carbon.cache:_MetricCache'


def implies(a, b):
  return z3.Implies(a, b)


def plain_strategy(index):
  """DrainStrategy.store is inherited unchanged by naive/max/random/sorted/timesorted."""
  return pyobj(index, 'carbon.cache:DrainStrategy', {}, name='strategy')


def u_store(strategy):
  def run(ctx, index):
    hs = Harness(ctx, index)
    d = hs.data
    if strategy == 'plain':
      hs.cache.fields['strategy'] = plain_strategy(index)
      hs.cache.fields['strategy'].fields['cache'] = hs.cache
    m = ctx.fresh(Atom, 'metric')
    ts = ctx.fresh(R, 'ts')
    v = ctx.fresh(Val, 'value')
    # lock-invariant conjuncts assumed on entry (they are proved again at release)
    hs.assume_I()
    inf = hs.max_inf
    size0 = hs.size
    ctx.assume(z3.Implies(z3.Not(inf), z3.ToReal(size0) <= hs.hard))          # C10 bound (pre)
    flag0 = hs.state.attrs['cacheTooFull']
    ctx.assume(z3.Implies(z3.And(flag0, z3.Not(inf)), z3.ToReal(size0) >= hs.low))   # C09 (pre)
    old = d.snapshot()
    nm0 = hs.new_metrics.term
    hs.install_lock_hooks('C02/store')
    raised = None
    try:
      hs.ip.run(CACHE + '.store', [m, (ts, v)], self_obj=hs.cache)
    except PyRaise as e:
      raised = e.exc
    ctx.cover('store/returns')
    ctx.check('C17/store/no_raise[%s]' % strategy, z3.BoolVal(raised is None))
    if raised is not None:
      return
    im0 = z3.Select(old.inner, m)
    in0 = z3.Select(old.keys, m)
    present = z3.And(in0, z3.Select(IM.ikeys(im0), ts))
    size1 = hs.cache.fields['size']
    # "refused" / "accepted" are defined by the observable outcome, not by the code's own test
    stored1 = z3.And(z3.Select(d.keys, m), z3.Select(IM.ikeys(z3.Select(d.inner, m)), ts))
    no_room = z3.And(z3.Not(inf), z3.ToReal(size0) + 1 > hs.hard)
    overflow = len(hs.log.of('events.cacheOverflow'))
    cfull = len(hs.log.of('events.cacheFull'))
    refused = z3.And(z3.Not(present), z3.Not(stored1))
    accepted = z3.And(z3.Not(present), stored1)
    base_im = z3.If(in0, im0, EMPTY_IM)

    # ---- C10 ----
    ctx.check('C10/store/bound', z3.Implies(z3.Not(inf), z3.ToReal(size1) <= hs.hard))
    ctx.check('C10/store/refuse_signal', z3.And(z3.Implies(refused, z3.BoolVal(overflow == 1)),
                                                z3.Implies(z3.Not(refused), z3.BoolVal(overflow == 0))))
    ctx.check('C10/store/refuse_only_without_room', z3.Implies(refused, no_room))
    ctx.check('C10/store/refuse_frame',
              z3.Implies(refused, z3.And(d.keys == old.keys, d.card == old.card, size1 == size0,
                                         z3.Select(d.inner, m) == z3.Select(old.inner, m),
                                         hs.new_metrics.term == nm0)))
    ctx.check('C10/store/refuse_frame_others', z3.Implies(refused, frame_others(d, old, m)))
    upd_im = IM.mkIM(IM.ikeys(im0), z3.Store(IM.ivals(im0), ts, v), IM.icard(im0))
    ctx.check('C10/store/update_when_full',
              z3.Implies(present, z3.And(size1 == size0, d.keys == old.keys,
                                         d.inner == z3.Store(old.inner, m, upd_im),
                                         hs.new_metrics.term == nm0)))
    # ---- C02 ----
    acc_im = IM.mkIM(z3.Store(IM.ikeys(base_im), ts, z3.BoolVal(True)),
                     z3.Store(IM.ivals(base_im), ts, v), IM.icard(base_im) + 1)
    ctx.check('C02/store/accept_view',
              z3.Implies(accepted, z3.And(d.keys == z3.Store(old.keys, m, z3.BoolVal(True)),
                                          d.inner == z3.Store(old.inner, m, acc_im),
                                          size1 == size0 + 1)))
    ctx.check('C02/store/lastwrite',
              z3.Implies(z3.Or(accepted, present),
                         z3.And(z3.Select(d.keys, m),
                                z3.Select(IM.ikeys(z3.Select(d.inner, m)), ts),
                                z3.Select(IM.ivals(z3.Select(d.inner, m)), ts) == v)))
    ctx.check('C02/store/frame_others', frame_others(d, old, m))
    ctx.check('C02/store/same_metric_other_timestamps', same_metric_others(d, old, m, ts))
    was_new = z3.Or(z3.Not(in0), IM.icard(im0) == 0)
    ctx.check('C02/store/new_metrics',
              z3.And(z3.Implies(z3.And(accepted, was_new),
                                hs.new_metrics.term == z3.Concat(nm0, z3.Unit(m))),
                     z3.Implies(z3.Not(z3.And(accepted, was_new)), hs.new_metrics.term == nm0)))
    # ---- C09 (cache side): the too-full flag is only ever raised with size >= MAX >= LOW ----
    flag1 = hs.state.attrs['cacheTooFull']
    ctx.check('C09/store/flag_implies_above_low',
              z3.Implies(z3.And(hs.ip.truth(flag1) if not isinstance(flag1, bool) else z3.BoolVal(flag1), z3.Not(inf)),
                         z3.ToReal(size1) >= hs.low))
    ctx.check('C09/store/full_signal_only_at_max',
              z3.Implies(z3.BoolVal(cfull > 0), z3.And(z3.Not(inf), z3.ToReal(size0) >= hs.max, accepted)))
    ctx.check('C09/store/full_signal_at_max',
              z3.Implies(z3.And(accepted, z3.Not(inf), z3.ToReal(size0) >= hs.max), z3.BoolVal(cfull == 1)))
    ctx.check('C09/store/never_signals_space', z3.BoolVal(len(hs.log.of('events.cacheSpaceAvailable')) == 0))
  return run


def frame_others(d, old, m):
  """every other metric: same presence, same datapoints"""
  o = z3.Const('o?', Atom)
  return z3.ForAll([o], z3.Implies(o != m, z3.And(z3.Select(d.keys, o) == z3.Select(old.keys, o),
                                                   z3.Implies(z3.Select(old.keys, o),
                                                              z3.Select(d.inner, o) == z3.Select(old.inner, o)))))


def same_metric_others(d, old, m, ts):
  """the stored metric's other timestamps keep their presence and value"""
  t = z3.Real('t?')
  return z3.Implies(z3.Select(old.keys, m),
                    z3.ForAll([t], z3.Implies(
                      t != ts,
                      z3.And(z3.Select(d.keys, m),
                             z3.Select(IM.ikeys(z3.Select(d.inner, m)), t) == z3.Select(IM.ikeys(z3.Select(old.inner, m)), t),
                             z3.Implies(z3.Select(IM.ikeys(z3.Select(old.inner, m)), t),
                                        z3.Select(IM.ivals(z3.Select(d.inner, m)), t) ==
                                        z3.Select(IM.ivals(z3.Select(old.inner, m)), t))))))


def replay_cache(kind, strategies=None):
  """Native replay by guided search: the scalar part of the counter-model (MAX_CACHE_SIZE, flow
  control) seeds an enumeration of short histories on the real cache (replay/cache_native.py)."""
  def rep(model, ob):
    import json
    from pyvc.runner import run_native
    from .common import model_real
    maxes = []
    for name in model:
      if name.split('!')[0] == 'MAX_CACHE_SIZE':
        v = model_real(model, name)
        if v is not None:
          maxes.append(float(v))
    inf = any(model.get(n) == 'true' for n in model if n.split('!')[0] == 'MAX_is_inf')
    hint = [x for x in maxes if x <= 8]
    args = {'clause': ob.label,
            'maxes': (hint + [m for m in (1, 2, 3, 6) if m not in hint]) + ([float('inf')] if inf else []),
            'strategies': strategies or ['none', 'sorted', 'bucketmax'], 'depth': 4}
    rc, out, err = run_native('replay/cache_native.py', [json.dumps(args)], timeout=900)
    for line in out.splitlines():
      if line.startswith('REPLAY-RESULT '):
        return json.loads(line[len('REPLAY-RESULT '):])
    return {'replay_error': (err or out)[-600:]}
  return rep
