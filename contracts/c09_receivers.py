"""C09, receiver side: MetricReceiver.connectionMade / connectionLost / pauseReceiving /
resumeReceiving keep I_bp_recv: every connected receiver is registered for the pause and resume
events (under flow control) and a connection made while receivers are paused is paused too."""
import z3

from pyvc.runner import Unit
from pyvc.interp import Interp, OBJECT
from pyvc.models import Namespace, External, EffectLog, PyList
from pyvc.values import Atom, ModelClass, Builtin, BoundMethod, PyRaise, Model
from .common import pyobj

P = 'carbon.protocols'
MR = P + ':MetricReceiver'


class EventModel(Model):
  """events.Event as far as handler registration goes (addHandler / removeHandler are idempotent)"""
  def __init__(self, name, log):
    self.name = name
    self.log = log
    self.handlers = []

  def py_addHandler(self, ip, h):
    if h not in self.handlers:
      self.handlers.append(h)

  def py_removeHandler(self, ip, h):
    if h in self.handlers:
      self.handlers.remove(h)


class SetModel(Model):
  def __init__(self):
    self.items = []

  def py_add(self, ip, x):
    if x not in self.items:
      self.items.append(x)

  def py_remove(self, ip, x):
    if x not in self.items:
      raise PyRaise(__import__('pyvc.values', fromlist=['ExcVal']).ExcVal('KeyError', ()))
    self.items.remove(x)


def setup(ctx, index):
  log = EffectLog()
  paused = ctx.fresh(z3.BoolSort(), 'metricReceiversPaused')
  flow = ctx.fresh(z3.BoolSort(), 'USE_FLOW_CONTROL')
  ev = Namespace('events', {'pauseReceivingMetrics': EventModel('pause', log), 'resumeReceivingMetrics': EventModel('resume', log)})
  conns = SetModel()
  state = Namespace('state', {'metricReceiversPaused': paused, 'connectedMetricReceiverProtocols': conns})
  settings = Namespace('settings', {'USE_FLOW_CONTROL': flow, 'METRIC_CLIENT_IDLE_TIMEOUT': None, 'TCP_KEEPALIVE': False,
                                    'LOG_LISTENER_CONN_SUCCESS': ctx.fresh(z3.BoolSort(), 'LOG1'),
                                    'LOG_LISTENER_CONN_LOST': ctx.fresh(z3.BoolSort(), 'LOG2')})
  transport = Namespace('transport', {'pauseProducing': External('transport.pauseProducing', log),
                                      'resumeProducing': External('transport.resumeProducing', log)})
  timeout = ModelClass('TimeoutMixin', methods={'setTimeout': lambda ip, s, t: None, 'resetTimeout': lambda ip, s: None})
  ip = Interp(ctx, index, bindings={P: {
    'settings': settings, 'state': state, 'events': ev, 'TimeoutMixin': timeout,
    'with_metaclass': Builtin('with_metaclass', lambda ip2, a, k: OBJECT), 'PluginRegistrar': OBJECT,
    'enableTcpKeepAlive': Builtin('enableTcpKeepAlive', lambda ip2, a, k: None),
    'checkIfAcceptingConnections': Builtin('checkIfAcceptingConnections', lambda ip2, a, k: None),
    'ConnectionDone': 'ConnectionDone',
  }})
  ip.ext['str_format'] = lambda ip2, f, a: 'text'
  recv = pyobj(index, MR, {'transport': transport}, name='receiver')
  return ip, log, recv, ev, conns, paused, flow


def u_connection_made(ctx, index):
  ip, log, recv, ev, conns, paused, flow = setup(ctx, index)
  ip.ext[('method', 'getPeerName')] = None
  del ip.ext[('method', 'getPeerName')]
  recv.fields['getPeerName'] = Builtin('getPeerName', lambda ip2, a, k: 'peer')
  # rely (cache daemon): between two atomic steps of connectionMade the writer thread may drain
  # the cache below the watermark and fire cacheSpaceAvailable -> resumeReceivingMetrics, which
  # clears the flag and calls every handler registered at that moment
  st = ip.env(P).lookup('state')
  st.shared = True
  fired = []

  def rely(ip2, obj):
    if fired or ip2.ctx.choose(2, 'writer fires resume') == 0:
      return
    fired.append(True)
    st.attrs['metricReceiversPaused'] = z3.BoolVal(False)
    for hnd in list(ev.attrs['resumeReceivingMetrics'].handlers):
      ip2.call(hnd, [])
  ctx.hooks['yield_point'] = rely
  ip.run(MR + '.connectionMade', [], self_obj=recv)
  ctx.hooks.pop('yield_point', None)
  ctx.cover('connectionMade/returns')
  n_pause = len(log.of('transport.pauseProducing'))
  n_resume = len(log.of('transport.resumeProducing'))
  final_flag = st.attrs['metricReceiversPaused']
  final_flag = final_flag if z3.is_expr(final_flag) else z3.BoolVal(bool(final_flag))
  # I_bp_recv: a connection whose transport is paused is paused because receivers are paused
  # (so the next resume event, for which it is registered, will resume it)
  ctx.check('C09/connectionMade/stays_in_step_with_the_pause_flag',
            z3.Implies(z3.BoolVal(n_pause > n_resume), final_flag))
  if fired:
    return
  ctx.check('C09/connectionMade/paused_iff_receivers_paused',
            z3.And(z3.Implies(paused, z3.BoolVal(n_pause == 1)), z3.Implies(z3.Not(paused), z3.BoolVal(n_pause == 0))))
  reg_p = any(getattr(h, 'obj', None) is recv for h in ev.attrs['pauseReceivingMetrics'].handlers)
  reg_r = any(getattr(h, 'obj', None) is recv and h.func.info.name == 'resumeReceiving' for h in ev.attrs['resumeReceivingMetrics'].handlers)
  ctx.check('C09/connectionMade/I_bp_recv', z3.Implies(flow, z3.BoolVal(reg_p and reg_r)))
  ctx.check('aux/connectionMade/tracked_as_connected', z3.BoolVal(recv in conns.items))


def u_connection_lost(ctx, index):
  ip, log, recv, ev, conns, paused, flow = setup(ctx, index)
  conns.items.append(recv)
  recv.fields['peerName'] = 'peer'
  rp = BoundMethod(recv, ip.find_method(recv.cls, 'resumeReceiving')[0])
  pp = BoundMethod(recv, ip.find_method(recv.cls, 'pauseReceiving')[0])
  ev.attrs['pauseReceivingMetrics'].handlers.append(pp)
  ev.attrs['resumeReceivingMetrics'].handlers.append(rp)

  class Reason(Model):
    def py_check(self, ip2, c):
      return ip2.ctx.fresh(z3.BoolSort(), 'clean')

    def py_getattr(self, ip2, name):
      if name == 'value':
        return 'err'
      return Model.py_getattr(self, ip2, name)
  ip.run(MR + '.connectionLost', [Reason()], self_obj=recv)
  ctx.cover('connectionLost/returns')
  left = [h for h in ev.attrs['pauseReceivingMetrics'].handlers + ev.attrs['resumeReceivingMetrics'].handlers
          if getattr(h, 'obj', None) is recv]
  ctx.check('aux/connectionLost/handlers_removed_under_flow_control', z3.Implies(flow, z3.BoolVal(not left)))
  ctx.check('aux/connectionLost/untracked', z3.BoolVal(recv not in conns.items))


def u_pause_resume(ctx, index):
  ip, log, recv, ev, conns, paused, flow = setup(ctx, index)
  which = ctx.choose(2, 'resume')
  ip.run(MR + ('.resumeReceiving' if which else '.pauseReceiving'), [], self_obj=recv)
  ctx.cover('pause_resume/returns')
  want = 'transport.resumeProducing' if which else 'transport.pauseProducing'
  ctx.check('C09/%s/acts_on_own_transport' % ('resumeReceiving' if which else 'pauseReceiving'),
            z3.BoolVal(log.names() == [want]))


def units():
  return [
    Unit('protocols.MetricReceiver.connectionMade', u_connection_made, [MR + '.connectionMade', MR + '.pauseReceiving'],
         expect_covers=['connectionMade/returns']),
    # (connectionLost only carries informative clauses -- handlers removed, connection untracked --
    # which C09 does not demand: the unit is kept in the file, not in the property)
    Unit('protocols.MetricReceiver.pause_resume', u_pause_resume, [MR + '.pauseReceiving', MR + '.resumeReceiving'],
         expect_covers=['pause_resume/returns']),
  ]
