"""Units over carbon.writer shared by C03, C04, C19, C20.

writeCachedDataPoints is verified one loop iteration at a time (DESIGN.md 5/C03): the outer
`while cache:` loop and the create loop are cut by (trivial) invariants, so each body is executed
once from an arbitrary state; the per-iteration contracts speak about the effect log of that
iteration.  state.database.{exists, create, write} are fully nondeterministic (A-BACKEND: return
anything or raise any Exception), so every fault pattern is covered with no bound.
"""
import z3

from pyvc.core import EngineError
from pyvc.interp import Interp, Spec, LoopSpec, DictLit
from pyvc.models import (Namespace, External, EffectLog, SymSeq, TAtom, TReal, TVal, TTuple, TSort,
                         PyList)
from pyvc.values import Atom, Val, Model, PyObj, PyRaise, ExcVal, SymExc, Builtin, ExcClass
from .cache_model import Harness, IM, enable_rely_R
from .cache_units import sorted_items_facts
from .common import pyobj

W = 'carbon.writer'
WCD = W + ':writeCachedDataPoints'
Schema = z3.DeclareSort('Schema')
TSchema = TSort(Schema)
MATCH = z3.Function('schema_matches', Schema, Atom, z3.BoolSort())
ARCH = z3.Function('schema_archive_tuples', Schema, Val)     # [a.getTuple() for a in schema.archives]
HAS_ARCH = z3.Function('schema_has_archives', Schema, z3.BoolSort())
XFF = z3.Function('schema_xff', Schema, Val)
AGGM = z3.Function('schema_agg_method', Schema, Val)
TAGGED = z3.Function("has_semicolon", Atom, z3.BoolSort())
TRUTHY = z3.Function('truthy', Val, z3.BoolSort())             # truthiness of a backend's return value


class ArchList(Model):
  def __init__(self, schema):
    self.schema = schema

  def py_listcomp(self, ip, node, fr):
    import ast
    if ast.unparse(node.elt) != 'archive.getTuple()':
      raise EngineError("unexpected comprehension over schema.archives: %s" % ast.unparse(node))
    return ArchTuples(self.schema)

  def py_unpack(self, ip, n):
    if n != 2:
      raise PyRaise(ExcVal('ValueError', ()))
    return [XFF(self.schema), AGGM(self.schema)]


class ArchTuples(Model):
  def __init__(self, schema):
    self.schema = schema

  def py___bool__(self, ip):
    return HAS_ARCH(self.schema)


class Bucket(Model):
  """TokenBucket used through its C20 contract: peek(cost) returns a bool; drain(cost) returns a
  bool; drain(cost, blocking=True) returns True.  Grants are recorded in the effect log."""
  def __init__(self, name, log):
    self.name = name
    self.log = log

  def py___bool__(self, ip):
    return True

  def py_peek(self, ip, cost):
    r = ip.ctx.fresh(z3.BoolSort(), self.name + '.peek')
    self.log.add(self.name + '.peek', (cost,), 'ret', r)
    return r

  def py_drain(self, ip, cost, blocking=False):
    if blocking is True:
      r = True
    else:
      r = ip.ctx.fresh(z3.BoolSort(), self.name + '.drain')
    self.log.add(self.name + '.drain', (cost, blocking), 'ret', r)
    return r

  def py_setCapacityAndFillRate(self, ip, c, r):
    self.log.add(self.name + '.setCapacityAndFillRate', (c, r), 'ret', None)


class DictOfPairs(Model):
  """dict(list_of_pairs): `.items()` is a list of pairs with the same set of pairs when the keys
  of the input are distinct (which pop()'s contract guarantees)."""
  def __init__(self, seq):
    self.seq = seq

  def py_items(self, ip):
    s = self.seq
    pty = s.ty
    fst = pty.acc[0]
    it = SymSeq.fresh(ip, pty, 'dict_items')
    i, j = z3.Int('i?'), z3.Int('j?')
    n, m = it.length(), s.length()
    src = z3.Function(ip.ctx.fresh_name('src'), z3.IntSort(), z3.IntSort())
    dst = z3.Function(ip.ctx.fresh_name('dst'), z3.IntSort(), z3.IntSort())
    distinct = z3.ForAll([i, j], z3.Implies(z3.And(0 <= i, i < j, j < m), fst(s.term[i]) != fst(s.term[j])))
    for f in [n <= m,
              z3.ForAll([i], z3.Implies(z3.And(0 <= i, i < n),
                                        z3.And(0 <= src(i), src(i) < m, it.term[i] == s.term[src(i)]))),
              z3.Implies(distinct, z3.And(n == m,
                                          z3.ForAll([j], z3.Implies(z3.And(0 <= j, j < m),
                                                                    z3.And(0 <= dst(j), dst(j) < n,
                                                                           it.term[dst(j)] == s.term[j])))))]:
      ip.ctx.assume(f)
    it.dict_of = s
    return it


class WriterHarness(object):
  def __init__(self, ctx, index, rely=True, label_prefix=''):
    self.ctx = ctx
    self.index = index
    hs = Harness(ctx, index)
    self.hs = hs
    self.log = hs.log
    log = self.log
    ip = hs.ip
    self.ip = ip
    ip.label_prefix = label_prefix
    B = z3.BoolSort()
    self.flags = {k: ctx.fresh(B, k) for k in ('LOG_CREATES', 'LOG_UPDATES', 'ENABLE_TAGS', 'SKIP_TAGS_FOR_NONTAGGED')}
    self.settings = Namespace('settings', dict(self.flags), item_access=True)
    self.settings.attrs['MIN_TIMESTAMP_LAG'] = hs.settings.attrs['MIN_TIMESTAMP_LAG']
    self.shut = ctx.fresh(z3.RealSort(), 'MAX_UPDATES_PER_SECOND_ON_SHUTDOWN')
    self.settings.attrs['MAX_UPDATES_PER_SECOND_ON_SHUTDOWN'] = self.shut
    self.db = Namespace('database', {
      'exists': External('db.exists', log, raises='any', ret=lambda ip, a, k: ip.ctx.fresh(Val, 'exists')),
      'create': External('db.create', log, raises='any'),
      'write': External('db.write', log, raises='any'),
    })
    self.state = Namespace('state', {'database': self.db})
    self.instr = Namespace('instrumentation', {
      'increment': External('instrumentation.increment', log),
      'append': External('instrumentation.append', log)})
    self.tagq = Namespace('tagQueue', {'add': External('tagQueue.add', log),
                                       'update': External('tagQueue.update', log)})
    self.schemas = SymSeq(TSchema, ctx.fresh(z3.SeqSort(Schema), 'SCHEMAS'), 'SCHEMAS')
    self.agg_schemas = SymSeq(TSchema, ctx.fresh(z3.SeqSort(Schema), 'AGGREGATION_SCHEMAS'), 'AGGREGATION_SCHEMAS')
    self.create_bucket = Bucket('CREATE_BUCKET', log) if ctx.choose(2, 'CREATE_BUCKET') else None
    self.update_bucket = Bucket('UPDATE_BUCKET', log) if ctx.choose(2, 'UPDATE_BUCKET') else None
    self.reactor = Namespace('reactor', {'running': ctx.fresh(B, 'running')})
    self.logns = Namespace('log', {'err': External('log.err', log),
                                   'msg': Builtin('log.msg', lambda ip, a, k: None)})
    ip.ext['keep_log'] = ('err',)
    ip.ext['str_format'] = lambda ip2, fmt, args: 'text'
    ip.ext[('truth', 'Val')] = lambda ip2, v: TRUTHY(v)
    ip.ext[('contains', 'Atom')] = self.atom_contains
    ip.ext[('method', 'matches')] = lambda ip2, o, metric: MATCH(o, metric)
    ip.ext[('attr', 'archives')] = lambda ip2, o: ArchList(o) if z3.is_expr(o) and o.sort() == Schema else NotImplemented
    ip.ext[('attr', 'name')] = lambda ip2, o: 'schema' if z3.is_expr(o) and o.sort() == Schema else NotImplemented
    ip.ext['dict_of'] = lambda ip2, v: DictOfPairs(v) if isinstance(v, SymSeq) else self.bad_dict(v)
    ip.module_bindings[W] = {
      'MetricCache': Builtin('MetricCache', lambda ip2, a, k: hs.cache),
      'state': self.state, 'settings': self.settings, 'instrumentation': self.instr,
      'tagQueue': self.tagq, 'SCHEMAS': self.schemas, 'AGGREGATION_SCHEMAS': self.agg_schemas,
      'CREATE_BUCKET': self.create_bucket, 'UPDATE_BUCKET': self.update_bucket,
      'time': hs.clock.module(), 'reactor': self.reactor, 'log': self.logns,
    }
    # carbon.conf / loaders guarantee: the schema lists end with the default schema, which
    # matches everything and has archives (C19/loadStorageSchemas/default_last)
    for lst in (self.schemas, self.agg_schemas):
      n = lst.length()
      ctx.assume(n >= 1)
      m = z3.Const('m?', Atom)
      ctx.assume(z3.ForAll([m], MATCH(lst.term[n - 1], m)))
    ctx.assume(HAS_ARCH(self.schemas.term[self.schemas.length() - 1]))
    if rely:
      enable_rely_R(hs)
    self.drained = []         # ghost: batches returned by drain_metric in this iteration
    ip.specs[CACHE_DRAIN] = Spec(CACHE_DRAIN, self.drain_metric_spec)

  def bad_dict(self, v):
    raise EngineError("dict(%r)" % (v,))

  def atom_contains(self, ip, container, item):
    if item == ';':
      return TAGGED(container)
    raise EngineError("%r in <metric name>" % (item,))

  def drain_metric_spec(self, ip, args, kwargs):
    """contract of _MetricCache.drain_metric as proved in C02/C17: (None, []) or (m, batch) where
    batch is the strictly timestamp-sorted, complete content of m, now owned by the caller."""
    hs = self.hs
    hs.rely(ip, None)
    if ip.ctx.choose(2, 'drain:none') == 1:
      self.drained.append(None)
      return (None, PyList([]))
    m = ip.ctx.fresh(Atom, 'drained')
    pty = TTuple(TReal, TVal)
    r = SymSeq.fresh(ip, pty, 'batch')
    i, j = z3.Int('i?'), z3.Int('j?')
    fst = pty.acc[0]
    ip.ctx.assume(z3.ForAll([i, j], z3.Implies(z3.And(0 <= i, i < j, j < r.length()),
                                               fst(r.term[i]) < fst(r.term[j]))))
    self.drained.append((m, r))
    self.drain_pos = len(self.log.events)
    hs.rely(ip, None)
    return (m, r)


CACHE_DRAIN = 'carbon.cache:_MetricCache.drain_metric'


def trivial_loop(anchor, havoc, locals_modified, ghost_step=None):
  return LoopSpec(anchor, lambda fr: [('true', z3.BoolVal(True))], havoc, ghost_step=ghost_step,
                  locals_modified=locals_modified)


def install_loops(wh, on_create_iteration=None, on_outer_iteration=None):
  """loop contracts of writeCachedDataPoints (ordinals in source order)."""
  hs, ip, log, ctx = wh.hs, wh.ip, wh.log, wh.ctx
  OUTER_LOCALS = ['metric', 'datapoints', 'waitTime', 't1', 'updateTime', 'pointCount', 'archiveConfig',
                  'xFilesFactor', 'aggregationMethod', 'schema', 'e']

  def havoc_outer(fr):
    hs.rely(ip, None)
    log.clear()
    wh.drained[:] = []
    wh.drain_pos = 0
    for k in OUTER_LOCALS:
      fr.locals.pop(k, None)
    ip.note_write(hs.data)
    ip.note_write(hs.cache)
    ip.note_write(hs.state)
    ip.note_write(hs.new_metrics)
  ip.loops[(WCD, 0)] = trivial_loop('while cache', havoc_outer, OUTER_LOCALS,
                                    ghost_step=(lambda fr: on_outer_iteration(None)) if on_outer_iteration else None)

  def havoc_create(fr):
    hs.rely(ip, None)
    log.clear()
    hs.new_metrics.havoc(ip, 'new_metrics')
    for k in OUTER_LOCALS:
      fr.locals.pop(k, None)
    ip.note_write(hs.data)
    ip.note_write(hs.cache)
    ip.note_write(hs.state)

  def step_create(fr):
    if on_create_iteration:
      on_create_iteration(fr)
  ip.loops[(WCD, 1)] = trivial_loop('while cache.new_metrics',
                                    havoc_create, OUTER_LOCALS, ghost_step=step_create)

  def first_match_loop(ordn, anchor, var_unset):
    def inv(fr):
      k = fr.loop_k[ordn]
      seq = fr.ghost['seq%d' % ordn]
      i = z3.Int('i?')
      metric = fr['metric']
      return [('no_earlier_match', z3.ForAll([i], z3.Implies(z3.And(0 <= i, i < k),
                                                             z3.Not(MATCH(seq.term[i], metric))))),
              ('nothing_chosen_yet', z3.BoolVal(all(fr.locals.get(v) is None for v in var_unset)))]

    def havoc(fr):
      pass
    ip.loops[(WCD, ordn)] = LoopSpec(anchor, inv, havoc, locals_modified=list(var_unset),
                                     label_prefix='C19/')
  first_match_loop(2, 'for schema in SCHEMAS', ['archiveConfig'])
  first_match_loop(3, 'for schema in AGGREGATION_SCHEMAS', ['xFilesFactor', 'aggregationMethod'])


def first_match(seq, metric, s):
  """s is the first element of seq (in order) that matches metric"""
  k = z3.Int('k?')
  i = z3.Int('i?')
  return z3.Exists([k], z3.And(0 <= k, k < z3.Length(seq), seq[k] == s, MATCH(s, metric),
                               z3.ForAll([i], z3.Implies(z3.And(0 <= i, i < k), z3.Not(MATCH(seq[i], metric))))))


def u_write_iteration(ctx, index):
  """one iteration of `while cache:` -- C03 (exactly one write or accounted), C20 (grant pairing),
  C19 (create arguments), C04 (exit means nothing eligible is left)."""
  wh = WriterHarness(ctx, index, rely=True, label_prefix='C03/')
  hs, ip, log = wh.hs, wh.ip, wh.log

  def on_create_iteration(fr):
    creates = log.of('db.create')
    ctx.cover('create/iteration')
    ctx.check('C19/writer/at_most_one_create_per_new_metric', z3.BoolVal(len(creates) <= 1))
    if len(creates) == 1:
      ctx.cover('create/created')
      (m, arch, xff, meth) = creates[0][1]
      names = log.names()
      pos = names.index('db.create')
      ex = [k for k, e in enumerate(log.events) if e[0] == 'db.exists' and k < pos]
      ok = len(ex) == 1 and z3.is_expr(log.events[ex[0]][1][0]) and z3.eq(log.events[ex[0]][1][0], m)
      ctx.check('C19/writer/create_only_after_exists_said_no', z3.BoolVal(ok))
      if ok:
        ctx.check('C19/writer/create_only_if_missing', z3.Not(TRUTHY(log.events[ex[0]][3])))
      good = isinstance(arch, ArchTuples)
      ctx.check('C19/writer/create_first_match/archives_shape', z3.BoolVal(good))
      if good:
        ctx.check('C19/writer/create_first_match/retentions', first_match(wh.schemas.term, m, arch.schema))
      k = z3.Const('s?', Schema)
      ctx.check('C19/writer/create_first_match/aggregation',
                z3.Exists([k], z3.And(first_match(wh.agg_schemas.term, m, k), xff == XFF(k), meth == AGGM(k)))
                if z3.is_expr(xff) and z3.is_expr(meth) else z3.BoolVal(False))
      # C20: a file creation is preceded by exactly one granted token of the create bucket
      grants = [e for k2, e in enumerate(log.events) if e[0] == 'CREATE_BUCKET.drain' and k2 < pos]
      if wh.create_bucket is not None:
        okg = len(grants) == 1
        ctx.check('C20/writer/create_paired', z3.BoolVal(okg))
        if okg:
          g = grants[0][3]
          ctx.check('C20/writer/create_grant_was_true', g if z3.is_expr(g) else z3.BoolVal(bool(g)))
          ctx.check('C20/writer/create_cost_is_one', z3.BoolVal(grants[0][1][0] == 1))
      incs = [e[1][0] for e in log.of('instrumentation.increment')]
      # (accounting of creates is not part of any listed property: informative clauses, not obligations --
      # a failed create shows up in C03 when the batch of that metric is dropped and counted)
      if creates[0][2] == 'ret':
        ctx.check('aux/writer/create_counted', z3.BoolVal(incs.count('creates') == 1 and 'errors' not in incs))
      else:
        ctx.check('aux/writer/create_failure_counted', z3.BoolVal(incs.count('errors') == 1 and len(log.of('log.err')) == 1))
    else:
      ctx.check('C20/writer/no_grant_wasted_without_create',
                z3.BoolVal(all(not (e[0] == 'CREATE_BUCKET.drain' and e[3] is True) for e in log.events)))
  def after_iteration(raised):
    """contract of one iteration of `while cache:`; called at the end of a completed iteration
    (raised is None) and for an iteration that ends by an exception escaping the function."""
    ctx.cover('iteration/ends')
    batches = [d for d in wh.drained if d is not None]
    ctx.check('C03/writeCachedDataPoints/no_write_before_a_batch_is_taken',
              z3.BoolVal(all(e[0] != 'db.write' for e in log.events[:getattr(wh, 'drain_pos', len(log.events))])))
    # events of this iteration after the batch was taken (a create-loop iteration that ended by
    # `break` may have left its own exists() entry before it)
    after = log.events[getattr(wh, 'drain_pos', 0):]
    writes = [e for e in after if e[0] == 'db.write']
    exists = [e for e in after if e[0] == 'db.exists']
    incs = [e[1] for e in after if e[0] == 'instrumentation.increment']
    inc_names = [a[0] for a in incs]
    ctx.check('C03/writeCachedDataPoints/at_most_one_batch_in_flight', z3.BoolVal(len(wh.drained) <= 1))
    if not batches:
      ctx.check('C03/writeCachedDataPoints/no_write_without_batch', z3.BoolVal(len(writes) == 0))
      return
    (m, batch) = batches[0]
    ctx.cover('iteration/batch')
    names = [e[0] for e in after]
    wpos = [k for k, n in enumerate(names) if n == 'db.write']
    epos = [k for k, n in enumerate(names) if n == 'db.exists']
    ctx.check('C03/writeCachedDataPoints/no_second_write', z3.BoolVal(len(writes) <= 1))
    # "after that metric's file exists": the backend is asked about this metric before anything is
    # written (asking more than once would be harmless; the first answer is the one judged here)
    ctx.check('C03/writeCachedDataPoints/exists_checked_for_the_batch',
              z3.BoolVal(len(exists) >= 1 and z3.is_expr(exists[0][1][0]) and z3.eq(exists[0][1][0], m) and
                         (not wpos or epos[0] < wpos[0])))
    if len(exists) < 1:
      return
    ex = exists[0]
    if ex[2] == 'raise':
      ctx.cover('iteration/exists_raises')
      # the in-flight batch must be accounted for: by the exception escaping to writeForever (which
      # logs it), or by an error counted / logged here
      reported = (raised is not None) or inc_names.count('errors') >= 1 or any(e[0] == 'log.err' for e in after)
      ctx.check('C03/writeCachedDataPoints/exists_failure_reported', z3.BoolVal(bool(reported)))
      ctx.check('C03/writeCachedDataPoints/no_write_after_failed_exists', z3.BoolVal(len(writes) == 0))
      return
    # (an exception escaping after exists() answered would still be logged by writeForever: informative only)
    ctx.check('aux/writeCachedDataPoints/no_escape_after_exists', z3.BoolVal(raised is None))
    if raised is not None:
      return
    present = TRUTHY(ex[3])
    if len(writes) == 0:
      ctx.cover('iteration/dropped')
      ctx.check('C03/writeCachedDataPoints/unwritten_only_if_file_missing', z3.Not(present))
      ctx.check('C03/writeCachedDataPoints/dropped_create_counted',
                z3.BoolVal(inc_names.count('droppedCreates') == 1 and 'committedPoints' not in inc_names))
      ctx.check('C20/writer/no_update_token_for_dropped',
                z3.BoolVal(all(e[0] != 'UPDATE_BUCKET.drain' for e in after)))
      return
    w = writes[0]
    ctx.cover('iteration/written')
    ctx.check('C03/writeCachedDataPoints/exists_before_write', z3.And(z3.BoolVal(epos[0] < wpos[0]), present))
    wm, wd = w[1]
    ctx.check('C03/writeCachedDataPoints/write_same_metric', z3.BoolVal(z3.is_expr(wm) and z3.eq(wm, m)))
    good = isinstance(wd, SymSeq) and getattr(wd, 'dict_of', None) is batch
    ctx.check('C03/writeCachedDataPoints/write_carries_the_batch', z3.BoolVal(good))
    if good:
      i, j = z3.Int('i?'), z3.Int('j?')
      ctx.check('C03/writeCachedDataPoints/write_batch_complete',
                z3.And(wd.length() == batch.length(),
                       z3.ForAll([j], z3.Implies(z3.And(0 <= j, j < batch.length()),
                                                 z3.Exists([i], z3.And(0 <= i, i < wd.length(),
                                                                       wd.term[i] == batch.term[j]))))))
    # C20: exactly one granted update token between taking the batch and the write
    grants = [k for k, n in enumerate(names) if n == 'UPDATE_BUCKET.drain']
    if wh.update_bucket is not None:
      okg = len(grants) == 1 and grants[0] < wpos[0]
      ctx.check('C20/writer/update_paired', z3.BoolVal(okg))
      if okg:
        g = after[grants[0]]
        ctx.check('C20/writer/update_grant_blocking_cost_one', z3.BoolVal(g[1][0] == 1 and g[1][1] is True and g[3] is True))
    else:
      ctx.check('C20/writer/update_paired', z3.BoolVal(len(grants) == 0))
    if w[2] == 'ret':
      ctx.cover('iteration/committed')
      cp = [a for a in incs if a[0] == 'committedPoints']
      # (the committedPoints counter for successful writes is not demanded by C03: informative)
      ctx.check('aux/writeCachedDataPoints/committed_counted_once',
                z3.BoolVal(len(cp) == 1 and 'errors' not in inc_names and 'droppedCreates' not in inc_names))
      if len(cp) == 1 and good:
        ctx.check('aux/writeCachedDataPoints/committed_count_is_batch_size', cp[0][1] == batch.length())
    else:
      ctx.cover('iteration/write_fails')
      ctx.check('C03/writeCachedDataPoints/write_failure_reported',
                # "reported as an error": the errors counter or a logged error event (the property
                # names both as observation points; either one makes the loss visible), never as committed
                z3.BoolVal((inc_names.count('errors') >= 1 or len([e for e in after if e[0] == 'log.err']) >= 1) and
                           'committedPoints' not in inc_names))

  install_loops(wh, on_create_iteration, after_iteration)
  raised = None
  try:
    ip.run(WCD, [])
  except PyRaise as e:
    raised = e.exc
  if raised is not None:
    after_iteration(raised)
    return
  # normal return of the pass (C04): the cache was seen empty, or the strategy had nothing eligible
  ctx.cover('iteration/exit')
  ctx.check('C03/writeCachedDataPoints/no_write_without_batch', z3.BoolVal(len(log.of('db.write')) == 0))
  d_none = len(wh.drained) == 1 and wh.drained[0] is None
  ctx.check('C04/writeCachedDataPoints/exit_means_empty', z3.Or(z3.BoolVal(d_none), hs.data.card == 0))
