"""C14 -- no metric name can place a file outside the data directory.

Functions under contract: carbon.util:TaggedSeries.encode; carbon.database:WhisperDatabase.
_getFilesystemPath / getFilesystemPath (source only: whisper is not installed, so the class does
not exist at import time; the method bodies are parsed and verified all the same).

Strings are opaque; the str methods encode() uses are axiomatised by the character-level facts
the argument needs (A-STR, each validated against CPython over a small alphabet by the bounded
stand-in replay/c14_paths.py, which also runs the real functions end to end):
  R1  `'.' not in x.replace('.', y)`            when '.' not in y
  R2  x.lstrip(c) does not start with c; it contains no character x did not contain
  R3  sha256(..).hexdigest() is 64 hex digits; slices of it are non-empty hex strings
  R4  sep.join(parts) contains '.' only if sep or a part does; it starts with parts[0] when
      parts[0] is non-empty
  R5  join(d, r + '.wsp') is d + '/' + r + '.wsp' when r does not start with '/'; a path whose
      relative part has no '.' other than the final '.wsp' has no '..' component => confined.
"""
import z3

from pyvc.core import EngineError
from pyvc.runner import Unit, Property, Bounded
from pyvc.interp import Interp, OBJECT
from pyvc.models import Namespace, PyList, TAtom
from pyvc.values import Atom, Model, PyObj, Builtin, PyRaise
from .common import pyobj

U = 'carbon.util'
DB = 'carbon.database'
ENC = U + ':TaggedSeries.encode'
B = z3.BoolSort()
NODOT = z3.Function('contains_no_dot', Atom, B)
STARTS_SLASH = z3.Function('starts_with_slash', Atom, B)
STARTS_WITH = z3.Function('starts_with', Atom, Atom, B)
HAS_SEMI = z3.Function('contains_semicolon', Atom, B)
REPLACE_DOT = z3.Function('replace_dot_by', Atom, Atom, Atom)
LSTRIP = z3.Function('lstrip', Atom, Atom, Atom)
HEXDIGEST = z3.Function('sha256_hexdigest', Atom, Atom)
SLICE = z3.Function('slice', Atom, z3.IntSort(), z3.IntSort(), Atom)
JOIN4 = z3.Function('join4', Atom, Atom, Atom, Atom, Atom, Atom)
CONCAT = z3.Function('concat', Atom, Atom, Atom)
PATHJOIN = z3.Function('os_path_join', Atom, Atom, Atom)
CONFINED = z3.Function('confined_to', Atom, Atom, B)
IS_HEX = z3.Function('is_hex_string', Atom, B)
NONEMPTY = z3.Function('nonempty', Atom, B)
DOT_ONLY_SUFFIX = z3.Function('only_dot_is_the_wsp_suffix', Atom, B)
# pieces of x.split(';', 1) when ';' in x: nothing is known about them beyond x == head + ';' + tail
SPLIT_HEAD = z3.Function('before_first_semicolon', Atom, Atom)
SPLIT_TAIL = z3.Function('after_first_semicolon', Atom, Atom)


def axioms(ip, ctx):
  x, y, c, a1, a2, a3, a4, d = [z3.Const(n + '?', Atom) for n in ('x', 'y', 'c', 'a1', 'a2', 'a3', 'a4', 'd')]
  i, j = z3.Int('i?'), z3.Int('j?')
  slash, dot, wsp, tagged = ip.atom('/'), ip.atom('.'), ip.atom('.wsp'), ip.atom('_tagged')
  ax = [
    # literals
    NODOT(slash), z3.Not(NODOT(dot)), NODOT(tagged), NODOT(ip.atom('_DOT_')), NONEMPTY(tagged),
    STARTS_SLASH(slash), z3.Not(STARTS_SLASH(tagged)),
    # R1
    z3.ForAll([x, y], z3.Implies(NODOT(y), NODOT(REPLACE_DOT(x, y)))),
    # R2
    z3.ForAll([x, c], z3.Not(STARTS_WITH(LSTRIP(x, c), c))),
    z3.ForAll([x, c], z3.Implies(NODOT(x), NODOT(LSTRIP(x, c)))),
    z3.ForAll([x], STARTS_WITH(x, slash) == STARTS_SLASH(x)),
    # R3
    z3.ForAll([x], IS_HEX(HEXDIGEST(x))),
    z3.ForAll([x, i, j], z3.Implies(z3.And(IS_HEX(x), 0 <= i, i < j, j <= 64),
                                    z3.And(IS_HEX(SLICE(x, i, j)), NONEMPTY(SLICE(x, i, j))))),
    z3.ForAll([x], z3.Implies(IS_HEX(x), z3.And(NODOT(x), z3.Not(STARTS_SLASH(x))))),
    # R4
    z3.ForAll([c, a1, a2, a3, a4], z3.Implies(z3.And(NODOT(c), NODOT(a1), NODOT(a2), NODOT(a3), NODOT(a4)),
                                             NODOT(JOIN4(c, a1, a2, a3, a4)))),
    z3.ForAll([c, a1, a2, a3, a4], z3.Implies(z3.And(NONEMPTY(a1), z3.Not(STARTS_SLASH(a1))),
                                             z3.Not(STARTS_SLASH(JOIN4(c, a1, a2, a3, a4))))),
    # R5
    z3.ForAll([x], z3.Implies(NODOT(x), DOT_ONLY_SUFFIX(CONCAT(x, wsp)))),
    z3.ForAll([x], STARTS_SLASH(CONCAT(x, wsp)) == STARTS_SLASH(x)),
    z3.ForAll([d, x], z3.Implies(z3.And(DOT_ONLY_SUFFIX(x), z3.Not(STARTS_SLASH(x))), CONFINED(d, PATHJOIN(d, x)))),
  ]
  for f in ax:
    ctx.assume(f)


class ListOf4(Model):
  def __init__(self, items):
    self.items = items


def make_interp(ctx, index):
  def sha256(ip2, a, k):
    arg = a[0]
    if not (isinstance(arg, tuple) and arg[0] == 'utf8-bytes'):
      raise EngineError("sha256(%r)" % (arg,))
    return HashObj(arg[1])
  ip = Interp(ctx, index, bindings={U: {'sha256': Builtin('sha256', sha256)},
                                     DB: {'TaggedSeries': None, 'join': Builtin('join', lambda ip2, a, k: PATHJOIN(TAtom.enc(ip2, a[0]), TAtom.enc(ip2, a[1]))),
                                          'sep': '/'}})
  ip.module_bindings[DB]['TaggedSeries'] = ip.env(U).lookup('TaggedSeries')
  ip.ext[('contains', 'Atom')] = lambda ip2, cont, item: HAS_SEMI(cont) if item == ';' else (_ for _ in ()).throw(EngineError('in'))

  def replace(ip2, o, old, new):
    if old != '.':
      raise EngineError("replace(%r, ..)" % (old,))
    return REPLACE_DOT(TAtom.enc(ip2, o), TAtom.enc(ip2, new))
  ip.ext[('method', 'replace')] = replace
  def split(ip2, o, sepa=None, maxsplit=-1):
    if sepa != ';' or maxsplit != 1:
      raise EngineError("split(%r, %r)" % (sepa, maxsplit))
    o = TAtom.enc(ip2, o)
    if ip2.ctx.branch(HAS_SEMI(o), "';' in text"):
      return PyList([SPLIT_HEAD(o), SPLIT_TAIL(o)])
    return PyList([o])
  ip.ext[('method', 'split')] = split
  ip.ext[('method', 'lstrip')] = lambda ip2, o, chars: LSTRIP(TAtom.enc(ip2, o), TAtom.enc(ip2, chars))
  ip.ext[('method', 'encode')] = lambda ip2, o, enc: ('utf8-bytes', o) if enc in ('utf8', 'utf-8') else (_ for _ in ()).throw(EngineError('encode'))

  def join(ip2, o, parts):
    items = ip2.iter_concrete(parts)
    if len(items) != 4:
      raise EngineError("join of %d parts" % len(items))
    return JOIN4(TAtom.enc(ip2, o), *[TAtom.enc(ip2, p) for p in items])
  ip.ext[('method', 'join')] = join
  ip.ext[('slice', 'Atom')] = lambda ip2, o, lo, hi: SLICE(o, z3.IntVal(lo), z3.IntVal(hi))
  ip.ext['str_concat'] = lambda ip2, a, b: CONCAT(TAtom.enc(ip2, a), TAtom.enc(ip2, b))
  axioms(ip, ctx)
  return ip


class HashObj(Model):
  def __init__(self, text):
    self.text = text

  def py_hexdigest(self, ip):
    return HEXDIGEST(self.text)


def u_encode(ctx, index):
  ip = make_interp(ctx, index)
  metric = ctx.fresh(Atom, 'metric')
  hash_only = ctx.fresh(B, 'hash_only')
  sep_kind = ctx.choose(2, 'sep')           # '/' (whisper) or the default '.'
  sep = '/' if sep_kind == 0 else '.'
  r = ip.call(ip.getattr(ip.env(U).lookup('TaggedSeries'), 'encode'), [metric], {'sep': sep, 'hash_only': hash_only})
  index.mark_used(index.func(ENC))
  ctx.cover('encode/returns')
  ok = z3.is_expr(r) and r.sort() == Atom
  ctx.check('C14/encode/returns_text', z3.BoolVal(bool(ok)))
  if not ok:
    return
  sepa = ip.atom(sep)
  if sep == '/':
    ctx.check('C14/encode/untagged_no_dot', z3.Implies(z3.Not(HAS_SEMI(metric)), NODOT(r)))
    ctx.check('C14/encode/untagged_no_leading_sep', z3.Implies(z3.Not(HAS_SEMI(metric)), z3.Not(STARTS_SLASH(r))))
    ctx.check('C14/encode/tagged_shape', z3.Implies(HAS_SEMI(metric), z3.And(NODOT(r), z3.Not(STARTS_SLASH(r)))))
  else:
    ctx.check('C14/encode/untagged_no_leading_sep', z3.Implies(z3.Not(HAS_SEMI(metric)), z3.Not(STARTS_WITH(r, sepa))))
  # determinism: the result is a function of the arguments (no havoc'd value reaches it)
  r2 = ip.call(ip.getattr(ip.env(U).lookup('TaggedSeries'), 'encode'), [metric], {'sep': sep, 'hash_only': hash_only})
  ctx.check('C14/encode/function', r2 == r if z3.is_expr(r2) else z3.BoolVal(False))
  # ... and of nothing else: asked for the other hash_only value afterwards, the answer is the one a
  # fresh process (an interpreter that has seen no call yet) gives
  other = z3.Not(hash_only)
  r3 = ip.call(ip.getattr(ip.env(U).lookup('TaggedSeries'), 'encode'), [metric], {'sep': sep, 'hash_only': other})
  ipb = make_interp(ctx, index)
  rb = ipb.call(ipb.getattr(ipb.env(U).lookup('TaggedSeries'), 'encode'), [metric], {'sep': sep, 'hash_only': other})
  ctx.check('C14/encode/independent_of_earlier_calls', r3 == rb if (z3.is_expr(r3) and z3.is_expr(rb)) else z3.BoolVal(False))
  # tagged names use the hash of the metric and (unless hash_only) the metric with its dots replaced
  # (informative, not an obligation of C14: the property does not fix the naming scheme)
  ctx.check('shape/encode/tagged_uses_hash_of_the_name',
            z3.Implies(HAS_SEMI(metric),
                       r == JOIN4(sepa, ip.atom('_tagged'), SLICE(HEXDIGEST(metric), 0, 3), SLICE(HEXDIGEST(metric), 3, 6),
                                  z3.If(hash_only, HEXDIGEST(metric), REPLACE_DOT(metric, ip.atom('_DOT_'))))))
  ctx.check('shape/encode/untagged_is_dots_replaced_then_stripped',
            z3.Implies(z3.Not(HAS_SEMI(metric)), r == LSTRIP(REPLACE_DOT(metric, sepa), sepa)))


def u_whisper_path(ctx, index):
  ip = make_interp(ctx, index)
  data_dir = ctx.fresh(Atom, 'LOCAL_DATA_DIR')
  thf = ctx.fresh(B, 'TAG_HASH_FILENAMES')
  db = pyobj(index, DB + ':WhisperDatabase', {'data_dir': data_dir, 'tag_hash_filenames': thf}, name='db')
  ip.module_bindings[DB]['TimeSeriesDatabase'] = OBJECT
  metric = ctx.fresh(Atom, 'metric')
  p = ip.run(DB + ':WhisperDatabase.getFilesystemPath', [metric], self_obj=db)
  ctx.cover('path/returns')
  ok = z3.is_expr(p) and p.sort() == Atom
  ctx.check('C14/_getFilesystemPath/returns_text', z3.BoolVal(bool(ok)))
  if ok:
    ctx.check('C14/_getFilesystemPath/confined', CONFINED(data_dir, p))
  p2 = ip.run(DB + ':WhisperDatabase._getFilesystemPath', [metric, ctx.fresh(B, 'flag')], self_obj=db)
  if z3.is_expr(p2):
    ctx.check('C14/_getFilesystemPath/confined_for_either_flag', CONFINED(data_dir, p2))


def u_injective(ctx, index):
  """Lemma: on names made of non-empty dot-separated segments without '/', replace('.', '/') is a
  character bijection and lstrip('/') is the identity, so distinct names give distinct paths
  (A-STR injectivity axiom, validated bounded)."""
  ip = make_interp(ctx, index)
  GOOD = z3.Function('nonempty_segments_without_slash', Atom, B)
  x, y = z3.Const('x?', Atom), z3.Const('y?', Atom)
  slash = ip.atom('/')
  ctx.assume(z3.ForAll([x, y], z3.Implies(z3.And(GOOD(x), GOOD(y), REPLACE_DOT(x, slash) == REPLACE_DOT(y, slash)), x == y)))
  ctx.assume(z3.ForAll([x], z3.Implies(GOOD(x), LSTRIP(REPLACE_DOT(x, slash), slash) == REPLACE_DOT(x, slash))))
  ctx.assume(z3.ForAll([x, y], z3.Implies(CONCAT(x, ip.atom('.wsp')) == CONCAT(y, ip.atom('.wsp')), x == y)))
  d = ctx.fresh(Atom, 'data_dir')
  ctx.assume(z3.ForAll([x, y], z3.Implies(z3.And(z3.Not(STARTS_SLASH(x)), z3.Not(STARTS_SLASH(y)), PATHJOIN(d, x) == PATHJOIN(d, y)), x == y)))
  m1, m2 = ctx.fresh(Atom, 'm1'), ctx.fresh(Atom, 'm2')
  ctx.assume(z3.And(GOOD(m1), GOOD(m2), z3.Not(HAS_SEMI(m1)), z3.Not(HAS_SEMI(m2)), m1 != m2))
  enc = ip.getattr(ip.env(U).lookup('TaggedSeries'), 'encode')
  e1 = ip.call(enc, [m1, '/'], {'hash_only': False})
  e2 = ip.call(enc, [m2, '/'], {'hash_only': False})
  ctx.cover('injective/stated')
  ctx.check('C14/encode/injective', e1 != e2)
  p1 = PATHJOIN(d, CONCAT(e1, ip.atom('.wsp')))
  p2 = PATHJOIN(d, CONCAT(e2, ip.atom('.wsp')))
  ctx.check('C14/_getFilesystemPath/injective', p1 != p2)


def replay_paths(model, ob):
  import json
  from pyvc.runner import run_native
  if 'injective' in ob.label or 'function' in ob.label:
    want = ('path-collision', 'path-not-deterministic')
  else:
    want = ('path-escapes-data-dir',)
  rc, out, err = run_native('replay/c14_paths.py', ['--len', '5', '--comps', '8'], timeout=600)
  for line in out.splitlines():
    if line.startswith('BOUNDED-RESULT '):
      r = json.loads(line[len('BOUNDED-RESULT '):])
      for f in r['failures']:
        if f['id'] in want and not ('tagged' in ob.label and ';' not in str(f.get('metric', ';'))):
          return {'native_confirms': True, 'input': f, 'searched': r['evaluations']}
      return {'native_confirms': False, 'searched': r['evaluations']}
  return {'replay_error': (err or out)[-600:]}


def build():
  units = [
    Unit('util.TaggedSeries.encode', u_encode, [ENC], expect_covers=['encode/returns'], replay=replay_paths,
         native_clauses=['C14/encode/tagged_shape']),
    Unit('database.WhisperDatabase.getFilesystemPath', u_whisper_path,
         [DB + ':WhisperDatabase.getFilesystemPath', DB + ':WhisperDatabase._getFilesystemPath', ENC], expect_covers=['path/returns'],
         replay=replay_paths, native_clauses=['C14/_getFilesystemPath/confined']),
    Unit('C14/lemma/injective', u_injective, [ENC], expect_covers=['injective/stated']),
  ]
  return Property(
    'C14', units,
    bounded=[Bounded('C14/A-STR/axioms_and_end_to_end', 'replay/c14_paths.py', ['--len', '5', '--comps', '7'], ['--len', '7', '--comps', '9'],
                     "every string over the alphabet {a . / ; = ~ _} up to length 5 (quick) / 7 (thorough), and every path-like name of <= 7 / 9 components from {'..', '.', 'a', ''} joined by '/' used as untagged name, tagged series name, tag name and tag value: each A-STR axiom against CPython, and realpath of the real _getFilesystemPath text (executed from source with a stub `whisper`) against `confined`; plus injectivity on the well-formed untagged names of that domain; the node path of the Ceres backend (encode with its default separator '.'): deterministic, injective on well-formed untagged names, confined under the documented CeresTree layout; a forked process asking for the two TAG_HASH_FILENAMES values in the opposite order gets the same paths",
                     "the axioms are assumptions about CPython's str methods and os.path (a dependency), validated on a bounded domain; they are not clauses of carbon proved by contract")],
    trusted_base=['A-ENGINE', 'A-SMT', 'A-STR'],
    assumptions=[
      "A-STR axioms R1-R5 (module docstring) about str.replace / lstrip / join / slicing, sha256().hexdigest() and os.path.join are assumed; what is proved is that encode()/_getFilesystemPath compose them so that the result is confined",
      "confined(d, p): p = d + '/' + r with r not starting with '/' and no '..' component (symlinks inside the data directory are out of scope)",
      "CeresDatabase itself cannot be run (ceres is not installed; CeresTree.getFilesystemPath = join(root, nodePath.replace('.', os.sep)) is outside /repo): its node path is TaggedSeries.encode with the default separator, which the bounded clause covers together with that documented layout; note that for Ceres an untagged name starting with '/' is not stripped by encode(sep='.')",
    ])
