"""C09 -- back-pressure always lets go: paused receivers are resumed once buffers drain.

A liveness statement checked at quiescence becomes a safety invariant at the exit of every
handler / atomic step: *an outstanding pause always has a pending wake-up* (DESIGN.md 5/C09).

Cache side (carbon.cache, two threads, rely/guarantee): I_bp_cache: cacheTooFull ==> size >= LOW
watermark, outside the window between pop()'s lock release and the return of its
_check_available_space(); established by store, threatened only by pop, restored by
_check_available_space (units cache.store / cache.pop / cache._check_available_space).
Relay side (carbon.client, one thread): I_bp_relay: queueFull.called ==> |queue| >= LOW or a
sendQueued is pending (timer active / producer paused / not connected).
Receivers (carbon.protocols.MetricReceiver.connectionMade / connectionLost): a connection made
while paused is paused and registered for the resume event.
"""
from pyvc.runner import Unit, Property, Syntactic, Bounded
from . import cache_units as CU
from . import client_units as CL
from . import c09_receivers as RCV


def wiring(index):
  """service.py wires cacheFull -> pauseReceivingMetrics and cacheSpaceAvailable ->
  resumeReceivingMetrics wherever flow control is set up; events.py's default handlers keep
  state.cacheTooFull / state.metricReceiversPaused."""
  import ast
  mi = index.module('carbon.service')
  calls = [ast.unparse(n) for n in ast.walk(mi.tree) if isinstance(n, ast.Call)]
  a = calls.count('events.cacheFull.addHandler(events.pauseReceivingMetrics)')
  b = calls.count('events.cacheSpaceAvailable.addHandler(events.resumeReceivingMetrics)')
  ev = set(ast.unparse(n) for n in index.module('carbon.events').tree.body)
  want = ["cacheFull.addHandler(lambda: setattr(state, 'cacheTooFull', True))",
          "cacheSpaceAvailable.addHandler(lambda: setattr(state, 'cacheTooFull', False))",
          "pauseReceivingMetrics.addHandler(lambda: setattr(state, 'metricReceiversPaused', True))",
          "resumeReceivingMetrics.addHandler(lambda: setattr(state, 'metricReceiversPaused', False))"]
  missing = [w for w in want if w not in ev]
  return (a >= 1 and a == b and not missing), "pause wirings=%d resume wirings=%d missing defaults=%r" % (a, b, missing)


def build():
  units = [Unit('cache.store[%s]' % k, CU.u_store(k), [CU.CACHE + '.store'], expect_covers=['store/returns'],
                replay=CU.replay_cache('store')) for k in ('none', 'plain')]
  units += [
    Unit('cache.pop', CU.u_pop, [CU.CACHE + '.pop', CU.CACHE + '._check_available_space'], expect_covers=['pop/returns'],
         replay=CU.replay_cache('pop')),
    Unit('cache._check_available_space', CU.u_check_space, [CU.CACHE + '._check_available_space'],
         expect_covers=['check_space/returns', 'check_space/signalled']),
  ] + CL.all_units('C09') + RCV.units()
  def witness(which):
    def w():
      import json
      from pyvc.runner import run_native
      rc, out, err = run_native('replay/c09_witnesses.py', [which], timeout=300)
      for line in out.splitlines():
        if line.startswith('WITNESS-RESULT '):
          r = json.loads(line[len('WITNESS-RESULT '):])
          return bool(r.get('still_fails')), r
      raise RuntimeError((err or out)[-400:])
    return w
  return Property(
    'C09', units,
    finding_labels={'C09/destinationDown/I_bp_relay': 'D8',
                    'C09/connectionMade/stays_in_step_with_the_pause_flag': 'D7'},
    findings_witness={'D8': witness('D8'), 'D7': witness('D7')},
    syntactic=[Syntactic('C09/wiring/full_pauses_and_space_resumes', wiring,
                         'service.py registers pause on cacheFull and resume on cacheSpaceAvailable in equal numbers; events.py default handlers keep the two state flags')],
    bounded=[Bounded('C09/native/two_thread_schedules', 'replay/cache_sched_native.py', ['--depth', '2', '--only', 'sched-paused-at-quiescence'], ['--depth', '3', '--only', 'sched-paused-at-quiescence'],
                     'the real _MetricCache under deterministic two-thread schedules (sys.settrace): every history of <= 2 (quick) / 3 (thorough) store / drain_metric calls over 2 metrics x 2 timestamps, with the other thread (writer: 1, 2 or all drains; receiver: one of 4 stores) run at every line step of the traced call at which the cache lock is not held; MAX_CACHE_SIZE in {1,2,3,inf} plus pre-filled caches of 20 with flow control (where cacheFull can fire), all seven strategies',
                     'schedules at line granularity of cache.py give the concrete interleaving that the lock-invariant / rely-guarantee obligations only refute abstractly (byte-code level races inside one line stay out of reach)'),
             Bounded('C09/native/relay_quiescence_cross_check', 'replay/relay_native.py',
                     ['--len', '5', '--random', '50', '--only', 'relay-paused-at-quiescence,D8'],
                     ['--len', '6', '--random', '300', '--thorough', '--only', 'relay-paused-at-quiescence,D8'],
                     "relay side: every enabled sequence of <= 5 (quick) / 6 (thorough) events over {arrival, self-metric, connection made / lost / failed, transport paused / resumed, timer round, orderly stop}, the destination alone in the router or next to a second one, plus seeded random sequences up to 14 events on the real carbon.client classes with a task.Clock reactor, all timers fired at the end: no run ends with a destination in the router and the receivers paused (cacheFull / pauseReceivingMetrics not followed by cacheSpaceAvailable / resumeReceivingMetrics) while the queue is below its low watermark (the known finding D8 -- destination dropped while full and not back -- excepted)",
                     "the reduction of the liveness statement to the handler-exit invariant assumes the pending wake-up runs; this executes the whole chain (timer -> sendQueued -> space callback) on CPython/Twisted for every short history"),
             Bounded('C09/native/cache_flag_cross_check', 'replay/cache_native.py', ['--sweep', '3', 'flag_implies_above_low'], ['--sweep', '4', 'flag_implies_above_low'],
                     "cache side, single thread: every history of <= 3 (quick) / 4 (thorough) stores / drains over 2 metrics x 2 timestamps for MAX_CACHE_SIZE in {1,2,3,inf}, flow control on/off and all seven strategies: cacheTooFull implies size >= the low watermark after every operation",
                     "sequential cross-check only (the interleavings are covered by the rely/guarantee obligations)")],
    trusted_base=['A-ENGINE', 'A-SMT', 'A-GIL', 'A-THREADS', 'A-TWISTED-DEFER'],
    assumptions=[
      "liveness is reduced to the safety invariant 'an outstanding pause has a pending wake-up' holding at every handler exit / atomic step; that the pending wake-up eventually runs (timer fires, transport resumes, connection is made, writer keeps draining) is assumed",
      "cache side: rely G_R* for the writer-thread functions; the flag is only raised by store with size >= MAX_CACHE_SIZE >= LOW (proved in the store unit)",
      "a daemon has either the cache-side or the relay-side source of cacheFull/cacheSpaceAvailable (carbon-cache vs carbon-relay/aggregator); the two sides are verified separately",
      "with the timesorted strategy and MIN_TIMESTAMP_LAG > 0 the writer may be idle with size >= LOW; consistent with the statement (nothing has drained below the watermark)",
    ])
