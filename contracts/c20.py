"""C20 -- update and create rate limits hold over every time window.

Functions under contract: carbon.util:TokenBucket.{__init__, peek, drain, setCapacityAndFillRate}.
(The pairing of every backend write/create with exactly one granted token is proved on the
writer loop, contracts/c03.py, obligations C20/writer/*.)

Reals for floats (A-REAL), the clock is non-decreasing and sleep(d) lasts at least d (A-CLOCK).

State (tok, ts, cap, rate), ghost `granted` (sum of granted costs) and a universally chosen
window start (t1, g1, P1).  Potential
      P(now) = min(tok + rate*(now - ts), max(tok, 0) + cap)
is everything the bucket could still grant at `now` without waiting.  Invariant I_tb:
      tok <= cap  /\  ts <= now  /\  P(now) >= 0  /\  granted - g1 + P(now) <= P1 + rate*(now - t1)
It is established for any window start by choosing g1 = granted(t1), P1 = P(t1) (equality),
it is stable under the clock advancing (P grows by at most rate*d), and every method preserves
it.  With P1 <= 2*cap this is the property's bound  granted(t2) - granted(t1) <= rate*w + 2*cap.
"""
import z3

from pyvc.runner import Unit, Property, Bounded
from pyvc.interp import Interp
from pyvc.values import PyRaise
from .common import Clock, pyobj, model_real, Namespace

TB = 'carbon.util:TokenBucket'


def rmin(a, b):
  return z3.If(a <= b, a, b)


def rmax(a, b):
  return z3.If(a >= b, a, b)


def potential(tok, ts, cap, rate, now):
  return rmin(tok + rate * (now - ts), rmax(tok, 0) + cap)


class St(object):
  pass


def setup(ctx, index, with_window=True):
  R = z3.RealSort()
  s = St()
  s.clock = Clock(ctx)
  s.tok0 = ctx.fresh(R, 'tok')
  s.ts0 = ctx.fresh(R, 'ts')
  s.cap = ctx.fresh(R, 'cap')
  s.rate = ctx.fresh(R, 'rate')
  s.granted0 = ctx.fresh(R, 'granted')
  s.t1 = ctx.fresh(R, 't1')
  s.g1 = ctx.fresh(R, 'g1')
  s.P1 = ctx.fresh(R, 'P1')
  s.now0 = s.clock.now
  ctx.assume(s.cap > 0)
  ctx.assume(s.rate > 0)
  s.obj = pyobj(index, TB, {'capacity': s.cap, '_tokens': s.tok0, 'fill_rate': s.rate,
                            'timestamp': s.ts0}, name='bucket')
  ip = Interp(ctx, index, bindings={'carbon.util': {'time': s.clock.builtin_time(),
                                                    'sleep': s.clock.builtin_sleep()}})
  s.ip = ip
  return s


def inv(s, tok, ts, cap, rate, now, granted):
  return [('tok_le_cap', tok <= cap),
          ('ts_le_now', ts <= now),
          ('potential_nonneg', potential(tok, ts, cap, rate, now) >= 0),
          ('window', granted - s.g1 + potential(tok, ts, cap, rate, now) <= s.P1 + rate * (now - s.t1))]


def assume_inv(ctx, s):
  for _, f in inv(s, s.tok0, s.ts0, s.cap, s.rate, s.now0, s.granted0):
    ctx.assume(f)
  ctx.assume(s.t1 <= s.now0)


def check_inv(ctx, s, prefix, granted):
  o = s.obj.fields
  for l, f in inv(s, o['_tokens'], o['timestamp'], o['capacity'], o['fill_rate'], s.clock.now, granted):
    ctx.check("%s/I_tb/%s" % (prefix, l), f)


def u_init(ctx, index):
  """__init__ establishes I_tb for the window that starts at construction."""
  R = z3.RealSort()
  s = St()
  s.clock = Clock(ctx)
  cap = ctx.fresh(R, 'cap')
  rate = ctx.fresh(R, 'rate')
  ctx.assume(cap > 0)
  ctx.assume(rate > 0)
  s.obj = pyobj(index, TB, {}, name='bucket')
  ip = Interp(ctx, index, bindings={'carbon.util': {'time': s.clock.builtin_time(),
                                                    'sleep': s.clock.builtin_sleep()}})
  ip.run(TB + '.__init__', [cap, rate], self_obj=s.obj)
  ctx.cover('init/returns')
  o = s.obj.fields
  s.t1 = s.clock.now
  s.g1 = z3.RealVal(0)
  s.P1 = potential(o['_tokens'], o['timestamp'], o['capacity'], o['fill_rate'], s.clock.now)
  ctx.check('C20/TokenBucket.__init__/fields', z3.And(o['capacity'] == cap, o['fill_rate'] == rate,
                                                      o['_tokens'] == cap))
  check_inv(ctx, s, 'C20/TokenBucket.__init__', z3.RealVal(0))
  ctx.check('C20/TokenBucket.__init__/P1_le_2cap', s.P1 <= 2 * cap)


def u_peek(ctx, index):
  s = setup(ctx, index)
  assume_inv(ctx, s)
  cost = ctx.fresh(z3.RealSort(), 'cost')
  ctx.assume(cost >= 0)
  r = s.ip.run(TB + '.peek', [cost], self_obj=s.obj)
  ctx.cover('peek/returns')
  check_inv(ctx, s, 'C20/TokenBucket.peek', s.granted0)
  o = s.obj.fields
  ctx.check('C20/TokenBucket.peek/result_means_enough', z3.Implies(s.ip.truth(r) if not isinstance(r, bool) else z3.BoolVal(r),
                                                                  o['_tokens'] >= cost))
  ctx.check('C20/TokenBucket.peek/limits_unchanged', z3.And(o['capacity'] == s.cap, o['fill_rate'] == s.rate))


def u_drain(ctx, index):
  s = setup(ctx, index)
  assume_inv(ctx, s)
  cost = ctx.fresh(z3.RealSort(), 'cost')
  ctx.assume(cost >= 0)
  blocking = ctx.choose(2, 'blocking') == 1
  r = s.ip.run(TB + '.drain', [cost], kwargs={'blocking': blocking}, self_obj=s.obj)
  rt = s.ip.truth(r)
  rt = z3.BoolVal(rt) if isinstance(rt, bool) else rt
  ctx.cover('drain/returns')
  granted = s.granted0 + z3.If(rt, cost, 0)
  check_inv(ctx, s, 'C20/TokenBucket.drain', granted)
  if blocking:
    ctx.check('C20/TokenBucket.drain/blocking_always_grants', rt)
  o = s.obj.fields
  ctx.check('C20/TokenBucket.drain/refused_leaves_limits', z3.And(o['capacity'] == s.cap, o['fill_rate'] == s.rate))
  # "a blocking acquisition waits no longer than the time the configured rate needs to cover
  # its deficit": every sleep argument is at most deficit/rate, deficit = cost - tokens after the
  # refill that peek performed.
  for (d, at) in s.clock.sleeps:
    ctx.cover('drain/sleeps')
    # the tokens just before the final subtraction are o['_tokens'] + cost
    deficit = cost - (o['_tokens'] + cost)
    ctx.check('C20/TokenBucket.drain/sleep_bound', d <= deficit / s.rate)
  ctx.check('C20/TokenBucket.drain/at_most_one_sleep', z3.BoolVal(len(s.clock.sleeps) <= 1))
  if not blocking:
    ctx.check('C20/TokenBucket.drain/nonblocking_never_sleeps', z3.BoolVal(len(s.clock.sleeps) == 0))
    # a refusal costs nothing: the balance is what the refill left (never below the entry balance)
    ctx.check('C20/TokenBucket.drain/refusal_is_free', z3.Implies(z3.Not(rt), o['_tokens'] >= s.tok0))


def u_setcap(ctx, index):
  s = setup(ctx, index)
  assume_inv(ctx, s)
  R = z3.RealSort()
  nc = ctx.fresh(R, 'newcap')
  nr = ctx.fresh(R, 'newrate')
  ctx.assume(nc > 0)
  ctx.assume(nr > 0)
  s.ip.run(TB + '.setCapacityAndFillRate', [nc, nr], self_obj=s.obj)
  ctx.cover('setcap/returns')
  o = s.obj.fields
  ctx.check('C20/setCapacityAndFillRate/limits_set', z3.And(o['capacity'] == nc, o['fill_rate'] == nr))
  ctx.check('C20/setCapacityAndFillRate/new_burst', o['_tokens'] <= nc)
  ctx.check('C20/setCapacityAndFillRate/potential_le_2newcap',
            potential(o['_tokens'], o['timestamp'], nc, nr, s.clock.now) <= 2 * nc)
  ctx.check('aux/setCapacityAndFillRate/timestamp_kept', o['timestamp'] == s.ts0)


def u_lemma_window(ctx, index):
  """Lemma over the contracts: I_tb at t2 for the window started at t1 with g1 = granted(t1),
  P1 = P(t1), tok(t1) <= cap  ==>  granted(t2) - granted(t1) <= rate*(t2 - t1) + 2*cap."""
  R = z3.RealSort()
  tok1, ts1, cap, rate, t1, g1 = [ctx.fresh(R, n) for n in ('tok1', 'ts1', 'cap', 'rate', 't1', 'g1')]
  tok2, ts2, t2, g2 = [ctx.fresh(R, n) for n in ('tok2', 'ts2', 't2', 'g2')]
  ctx.assume(cap > 0)
  ctx.assume(rate > 0)
  ctx.assume(tok1 <= cap)
  ctx.assume(ts1 <= t1)
  ctx.assume(t1 <= t2)
  P1 = potential(tok1, ts1, cap, rate, t1)
  P2 = potential(tok2, ts2, cap, rate, t2)
  ctx.assume(P2 >= 0)
  ctx.assume(g2 - g1 + P2 <= P1 + rate * (t2 - t1))
  ctx.cover('lemma/window')
  ctx.check('C20/lemma/window_bound', g2 - g1 <= rate * (t2 - t1) + 2 * cap)
  # the window invariant is established (with equality) at any instant
  ctx.check('C20/lemma/window_start', g1 - g1 + P1 <= P1 + rate * (t1 - t1))


def u_lemma_clock(ctx, index):
  """Stability of I_tb under the clock advancing while nothing else happens."""
  R = z3.RealSort()
  tok, ts, cap, rate, t1, g1, P1, g, now, later = [ctx.fresh(R, n) for n in
                                                   ('tok', 'ts', 'cap', 'rate', 't1', 'g1', 'P1', 'g', 'now', 'later')]
  ctx.assume(cap > 0)
  ctx.assume(rate > 0)
  ctx.assume(ts <= now)
  ctx.assume(now <= later)
  ctx.assume(potential(tok, ts, cap, rate, now) >= 0)
  ctx.assume(g - g1 + potential(tok, ts, cap, rate, now) <= P1 + rate * (now - t1))
  ctx.cover('lemma/clock')
  ctx.check('C20/lemma/clock_stable/window',
            g - g1 + potential(tok, ts, cap, rate, later) <= P1 + rate * (later - t1))
  ctx.check('C20/lemma/clock_stable/nonneg', potential(tok, ts, cap, rate, later) >= 0)


def replay_tb(method):
  def rep(model, ob):
    import json
    from pyvc.runner import run_native
    vals = {}
    for k in ('tok', 'ts', 'cap', 'rate', 'cost', 'granted', 't1', 'g1', 'P1', 'newcap', 'newrate'):
      for name in model:
        if name.split('!')[0] == k:
          v = model_real(model, name)
          if v is not None:
            vals[k] = str(v)
    nows = sorted([n for n in model if n.split('!')[0] == 'now'], key=lambda n: int(n.split('!')[1]))
    vals['nows'] = [str(model_real(model, n)) for n in nows]
    vals['method'] = method
    vals['blocking'] = ('blocking#1' in (ob.meta.get('trail') or []))
    vals['obligation'] = ob.label
    rc, out, err = run_native('replay/c20_replay.py', [json.dumps(vals)])
    res = None
    for line in out.splitlines():
      if line.startswith('REPLAY-RESULT '):
        res = json.loads(line[len('REPLAY-RESULT '):])
    return res or {'replay_error': (err or out)[-500:], 'input': vals}
  return rep


def build():
  fns = [TB + '.__init__', TB + '.peek', TB + '.drain', TB + '.setCapacityAndFillRate']
  units = [
    Unit('C20/TokenBucket.__init__', u_init, [fns[0]], expect_covers=['init/returns']),
    Unit('C20/TokenBucket.peek', u_peek, [fns[1]], replay=replay_tb('peek'), expect_covers=['peek/returns']),
    Unit('C20/TokenBucket.drain', u_drain, [fns[2], fns[1]], replay=replay_tb('drain'),
         expect_covers=['drain/returns', 'drain/sleeps']),
    Unit('C20/TokenBucket.setCapacityAndFillRate', u_setcap, [fns[3]], replay=replay_tb('setcap'),
         expect_covers=['setcap/returns']),
    Unit('C20/lemma/window_bound', u_lemma_window, [], expect_covers=['lemma/window']),
    Unit('C20/lemma/clock_stable', u_lemma_clock, [], expect_covers=['lemma/clock']),
  ]
  # every backend write / create is paired with exactly one granted token (effect-log contract on
  # one iteration of the writer loop, contracts/writer_units.py, labels C20/writer/*)
  from . import writer_units as WU
  units.append(Unit('writer.writeCachedDataPoints[iteration]', WU.u_write_iteration, [WU.WCD],
                    expect_covers=['iteration/written', 'create/created']))
  # "changing the limits at shutdown takes effect": the before-shutdown trigger sets both buckets to
  # the shutdown rate (labels C20/shutdownModifyUpdateSpeed/*; the same unit carries C04's lag clause)
  from . import writer_forever as WF
  units.append(Unit('writer.shutdownModifyUpdateSpeed', WF.u_shutdown_modify, [WF.W + ':shutdownModifyUpdateSpeed'],
                    expect_covers=['shutdown/returns']))
  return Property(
    'C20', units,
    bounded=[Bounded('C20/native/writer_limits_cross_check', 'replay/writer_native.py', ['--what', 'limits', '--inflight', '0'], ['--what', 'limits', '--inflight', '1', '--thorough'],
                     "the real writeForever / writeCachedDataPoints with a virtual clock and a storage double: 5 / 8 new metrics, create limits of 1 / 2 per minute and update limits of 1 / 2 per second (real TokenBuckets), with and without MAX_UPDATES_PER_SECOND_ON_SHUTDOWN, the stop (shutdownModifyUpdateSpeed) at every line step of the writer functions: the creates / writes in every window between two of them stay within rate x length + 2 x burst of the configured limits (the shutdown rate once it was set)",
                     "the pairing of backend calls with granted tokens is discharged per iteration (C20/writer/*); this counts real backend calls against virtual time over whole runs, including the limit change at shutdown"),
             Bounded('C20/native/token_bucket_cross_check', 'replay/bucket_native.py', ['--n', '2000', '--len', '5'], ['--n', '60000', '--len', '6'],
                     "the real TokenBucket on a virtual clock: every sequence of <= 5 (quick) / 6 (thorough) operations over {non-blocking / blocking acquisition, peek, advance 0 / 0.4 / 1 token's worth, limit change} for 4 (capacity, rate) pairs, plus 2000 / 60000 seeded random sequences of 5..80 operations for capacities 1..1000, rates 1/60..1000 per second, clock steps 0 .. 1e6 s: every window between two grants (without a limit change inside) holds at most rate x length + 2 x capacity grants, a blocking acquisition sleeps at most deficit / rate, a non-blocking one never sleeps, at most 2 x new capacity acquisitions succeed instantly after a limit change",
                     "floats instead of the reals of the proof (A-REAL): cross-check of the potential-function argument on IEEE doubles with tolerance 1e-6")],
    trusted_base=['A-ENGINE', 'A-SMT', 'A-REAL', 'A-CLOCK'],
    assumptions=[
      "A-REAL: float arithmetic in TokenBucket is real arithmetic (no rounding)",
      "A-CLOCK: time() is non-decreasing, sleep(d) returns after at least d",
      "requires: capacity > 0, fill_rate > 0, cost >= 0 (writer.py passes 1; conf gives positive limits)",
      "only one thread uses a bucket at a time (writer thread; shutdownModifyUpdateSpeed runs on the reactor thread while the writer may be inside drain -- that interleaving is not covered)",
      "writer pairing: TokenBucket is used in writeCachedDataPoints through its contract (peek/drain return a bool; blocking drain returns True)",
      "the bound is per configuration epoch: across setCapacityAndFillRate only the new-burst clause is claimed",
    ])
