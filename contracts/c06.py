"""C06 -- consistent hashing is stable, compatible and independent of membership history.

Functions under contract (carbon.hashing): fnv32a (the pure-Python definition), compactHash,
carbonHash, ConsistentHashRing.{compute_ring_position, get_node, get_nodes, add_node, remove_node}.
Spec functions are pinned HERE and in /verif/spec/ring_spec.py (written from the published
algorithm, not from carbon): FNV-1a offset basis 0x811c9dc5, prime 0x01000193, position =
(h >> 16) xor (h & 0xffff) resp. int(md5hex[:4], 16).

s1 (minimal disruption) is a lemma over the contracts of get_nodes (preference order = nodes in
order of their first entry along the cyclic walk) and add/remove (old entries unchanged).
s2 (compatibility): the hash functions and the lookup are proved equal to the pinned spec; ring
construction (add_node) is under contract (replica keys, first free position at or after the hash,
sorted insertion, I_ring re-established, only the new node's entries added) and additionally
compared with the spec natively over destination lists in several orders and ALL 65536 positions.  s3 (history independence) is refuted when replica positions collide
(known finding D10, native witness); without collisions entries are a function of the node set.
"""
import z3

from pyvc.core import EngineError
from pyvc.runner import Unit, Property, Bounded
from pyvc.interp import Interp, LoopSpec, Spec
from pyvc.models import Namespace, SymSeq, SymSet, TSort, TAtom, TInt, PyList
from pyvc.values import Atom, Model, PyObj, Builtin, PyRaise
from . import ring_model as RM
from .ring_model import TNode, Node, TEntry, Entry, E_POS, E_NODE, POS, H, CHR

BV32 = z3.BitVecSort(32)
TBV32 = TSort(BV32)
FNV_OFFSET = 0x811c9dc5
FNV_PRIME = 0x01000193


def u_fnv32a(ctx, index):
  """loop invariant: hval == F(k) with F(0) = offset basis, F(k+1) = (F(k) xor data[k]) * prime mod 2^32"""
  ip = Interp(ctx, index, bindings={H: {'sys': Namespace('sys', {'version_info': (3, 12)})}})
  ip.label_prefix = 'C06/'
  data = SymSeq(TBV32, ctx.fresh(z3.SeqSort(BV32), 'data'), 'data')
  i = z3.Int('i?')
  ctx.assume(z3.ForAll([i], z3.Implies(z3.And(0 <= i, i < data.length()), z3.ULE(data.term[i], 255))))
  F = z3.Function('fnv_prefix', z3.IntSort(), BV32)
  ctx.assume(F(0) == z3.BitVecVal(FNV_OFFSET, 32))
  ctx.assume(z3.ForAll([i], z3.Implies(z3.And(0 <= i, i < data.length()),
                                       F(i + 1) == (F(i) ^ data.term[i]) * z3.BitVecVal(FNV_PRIME, 32))))
  Q = H + ':fnv32a#1'

  def bv(v):
    return v if z3.is_expr(v) else z3.BitVecVal(v, 32)

  def inv(fr):
    return [('hval_is_fnv_of_the_prefix', bv(fr['hval']) == F(fr.loop_k[0]))]

  def havoc(fr):
    fr.locals['hval'] = ctx.fresh(BV32, 'hval')
  ip.loops[(H + ':fnv32a', 0)] = LoopSpec('for s in data', inv, havoc, locals_modified=['hval'])
  # bv % 2**32 is the identity on 32-bit vectors
  r = ip.run(Q, [data])
  ctx.cover('fnv32a/returns')
  ctx.check('C06/fnv32a/spec', bv(r) == F(data.length()))


FNV32 = z3.Function('fnv32a', Atom, BV32)        # of the UTF-8 bytes of a string
UTF8 = z3.Function('utf8', Atom, Atom)
MD5HEX = z3.Function('md5_hexdigest', Atom, Atom)
HEXSLICE = z3.Function('slice', Atom, z3.IntSort(), z3.IntSort(), Atom)
INT16 = z3.Function('int_base16', Atom, z3.IntSort())


def hash_interp(ctx, index):
  class Md5(Model):
    def __init__(self, b):
      self.b = b

    def py_hexdigest(self, ip):
      return MD5HEX(self.b)
  ip = Interp(ctx, index, bindings={H: {'md5': Builtin('md5', lambda ip2, a, k: Md5(a[0])), 'mmh3': None}})
  ip.ext[('method', 'encode')] = lambda ip2, o, enc: UTF8(TAtom.enc(ip2, o)) if enc in ('utf-8', 'utf8') else (_ for _ in ()).throw(EngineError('encode'))
  ip.ext[('slice', 'Atom')] = lambda ip2, o, lo, hi: HEXSLICE(o, z3.IntVal(lo or 0), z3.IntVal(hi))
  ip.ext['int_base'] = lambda ip2, v, base: INT16(v) if base == 16 else (_ for _ in ()).throw(EngineError('int base'))
  ip.specs[H + ':fnv32a#1'] = Spec(H + ':fnv32a#1', lambda ip2, a, k: FNV32(a[0]))
  ip.specs[H + ':fnv32a'] = ip.specs[H + ':fnv32a#1']
  ip.ext['str_format'] = lambda ip2, f, a: 'text'
  return ip


def u_carbon_hash(ctx, index):
  ip = hash_interp(ctx, index)
  key = ctx.fresh(Atom, 'key')
  which = ctx.choose(2, 'hash_type')
  ht = 'fnv1a_ch' if which == 0 else 'carbon_ch'
  r = ip.run(H + ':carbonHash', [key, ht])
  ctx.cover('carbonHash/returns')
  if ht == 'fnv1a_ch':
    h = FNV32(UTF8(key))
    want = z3.LShR(h, 16) ^ (h & z3.BitVecVal(0xffff, 32))
    ok = z3.is_expr(r) and z3.is_bv(r)
    ctx.check('C06/carbonHash/spec[fnv1a_ch]', (r == want) if ok else z3.BoolVal(False))
    if ok:
      ctx.check('C06/carbonHash/range[fnv1a_ch]', z3.ULE(r, 0xffff))
  else:
    want = INT16(HEXSLICE(MD5HEX(UTF8(key)), 0, 4))
    ctx.check('C06/carbonHash/spec[carbon_ch]', (r == want) if z3.is_expr(r) and z3.is_int(r) else z3.BoolVal(False))


def u_get_node(ctx, index):
  h = RM.RingHarness(ctx, index)
  h.assume_I()
  ctx.assume(h.ring.length() >= 1)
  key = ctx.fresh(Atom, 'key')
  r = h.ip.run(CHR + '.get_node', [key], self_obj=h.obj)
  ctx.cover('get_node/returns')
  ring = h.ring.term
  L = z3.Length(ring)
  p = POS(key)
  j = z3.Int('j?')
  rz = TNode.enc(h.ip, r)
  # lookup spec: the node of the first entry whose position is >= p, else (wrap) the first entry
  w = ctx.fresh(z3.IntSort(), 'w')
  ctx.check('C06/get_node/lookup_spec', z3.Or(
    z3.Exists([w], z3.And(0 <= w, w < L, E_POS(ring[w]) >= p, rz == E_NODE(ring[w]),
                          z3.ForAll([j], z3.Implies(z3.And(0 <= j, j < w), E_POS(ring[j]) < p)))),
    z3.And(z3.ForAll([j], z3.Implies(z3.And(0 <= j, j < L), E_POS(ring[j]) < p)), rz == E_NODE(ring[0]))))


def u_get_nodes_order(ctx, index):
  """carrying contract for s1: the preference order is 'nodes in order of their first entry along
  the cyclic walk that starts at the lookup index' (extends the C05 loop invariant with a ghost
  first-visit index per yielded node)."""
  h = RM.RingHarness(ctx, index)
  RM.install_get_nodes_loops(h, 'C06/')
  Q = CHR + '.get_nodes'
  spec = h.ip.loops[(Q, 1)]
  base_inv, base_havoc, base_step, base_pre = spec.inv, spec.havoc, spec.ghost_step, spec.ghost_pre
  r = h.ring.term
  L = z3.Length(r)
  G = {}

  def dist(fr, j):
    i0 = fr.ghost['i0']
    return z3.If(j >= i0, j - i0, j - i0 + L)

  def pre(fr):
    base_pre(fr)
    G['fv'] = z3.K(z3.IntSort(), z3.IntVal(0))

  def inv(fr):
    a, b, j = z3.Int('a?'), z3.Int('b?'), z3.Int('j?')
    out = fr.gen_out
    fv = G['fv']
    idx = fr['index']
    i0 = fr.ghost['i0']
    cur = z3.If(idx >= i0, idx - i0, idx - i0 + L)
    return base_inv(fr) + [
      ('first_visit_index', z3.ForAll([a], z3.Implies(
        z3.And(0 <= a, a < out.length()),
        z3.And(0 <= z3.Select(fv, a), z3.Select(fv, a) < L, dist(fr, z3.Select(fv, a)) < cur,
               E_NODE(r[z3.Select(fv, a)]) == out.term[a],
               z3.ForAll([j], z3.Implies(z3.And(0 <= j, j < L, dist(fr, j) < dist(fr, z3.Select(fv, a))),
                                         E_NODE(r[j]) != out.term[a])))))),
      ('ordered_by_first_visit', z3.ForAll([a, b], z3.Implies(
        z3.And(0 <= a, a < b, b < out.length()), dist(fr, z3.Select(fv, a)) < dist(fr, z3.Select(fv, b))))),
    ]

  def havoc(fr):
    base_havoc(fr)
    G['fv'] = ctx.fresh(z3.ArraySort(z3.IntSort(), z3.IntSort()), 'first_visit')
    G['idx_at_head'] = fr['index']
    h.last_fv = G['fv']

  def step(fr):
    base_step(fr)
    out = fr.gen_out.term
    n0 = z3.Length(fr.ghost['out_at_head'])
    G['fv'] = z3.If(z3.Length(out) > n0, z3.Store(G['fv'], n0, G['idx_at_head']), G['fv'])
  h.ip.loops[(Q, 1)] = LoopSpec(spec.anchor, inv, havoc, ghost_pre=pre, ghost_step=step, locals_modified=spec.locals_modified,
                               label_prefix='C06/')
  h.assume_I()
  ctx.assume(h.replica_count >= 2)
  ctx.assume(h.nodes.card >= 2)
  key = ctx.fresh(Atom, 'key')
  out = h.ip.run(Q, [key], self_obj=h.obj)
  ctx.cover('get_nodes_order/returns')
  ctx.check('C06/get_nodes/order/first_is_get_node',
            z3.BoolVal(isinstance(out, SymSeq)))


def u_remove_node(ctx, index):
  h = RM.RingHarness(ctx, index)
  h.assume_I()
  x = TNode.fresh(ctx, 'x')
  xz = TNode.enc(h.ip, x)
  ring0 = h.ring.term
  nodes0 = h.nodes.snapshot()
  h.ip.ext[('getitem', Entry.name())] = lambda ip2, o, i: (E_POS(o) if i == 0 else TNode.dec(E_NODE(o)))
  h.ip.run(CHR + '.remove_node', [x], self_obj=h.obj)
  ctx.cover('remove_node/returns')
  ring1 = h.obj.fields['ring']
  ok = isinstance(ring1, SymSeq)
  ctx.check('C06/remove_node/ring_is_list', z3.BoolVal(ok))
  if not ok:
    return
  r1 = ring1.term
  a, b, j = z3.Int('a?'), z3.Int('b?'), z3.Int('j?')
  src = getattr(ring1, 'filter_src', None)
  dst = getattr(ring1, 'filter_dst', None)
  ctx.check('C06/remove_node/result_is_a_filter_of_the_ring', z3.BoolVal(src is not None))
  if src is None:
    return
  # entries' = { e in entries | e.node != x }, every other entry unchanged and in the same order
  ctx.check('C06/remove_node/no_entry_of_the_removed_node', z3.ForAll([a], z3.Implies(z3.And(0 <= a, a < z3.Length(r1)), E_NODE(r1[a]) != xz)))
  ctx.check('C06/remove_node/other_entries_kept', z3.ForAll([j], z3.Implies(
    z3.And(0 <= j, j < z3.Length(ring0), E_NODE(ring0[j]) != xz),
    z3.And(0 <= dst(j), dst(j) < z3.Length(r1), r1[dst(j)] == ring0[j]))))
  ctx.check('C06/remove_node/sorted_kept', z3.ForAll([a, b], z3.Implies(z3.And(0 <= a, a < b, b < z3.Length(r1)), E_POS(r1[a]) < E_POS(r1[b]))))
  ctx.check('C06/remove_node/lengths_updated', z3.And(h.obj.fields['ring_len'] == z3.Length(r1), h.obj.fields['nodes_len'] == h.nodes.card))
  n = z3.Const('n?', Node)
  ctx.check('C06/remove_node/node_set', z3.ForAll([n], z3.Select(h.nodes.mem, n) == z3.And(z3.Select(nodes0.mem, n), n != xz)))


RK_FNV = z3.Function('replica_key_fnv', z3.IntSort(), Atom, Atom)       # "%d-%s" % (i, instance)
RK_CH = z3.Function('replica_key_carbon', Node, z3.IntSort(), Atom)       # "%s:%d" % (node, i)


def u_add_node(ctx, index):
  """add_node(x) for a node that is not configured yet (the routers refuse duplicates) preserves
  I_ring and only inserts entries of x:

     ring' is strictly sorted by position                       (what get_node's bisect relies on)
     every old entry is still there, in the same relative order (ghost dst: old index -> new index)
     every other entry of ring' belongs to x                    (ghost src: new index -> old index | -1)
     |ring'| = |ring| + replica_count, nodes' = nodes + {x}, lengths updated
     x has (at least) two entries, every old node keeps its two witnesses  (replica_count >= 2)
     each new entry sits at the first free position at or after the hash position of its replica
     key (bump by one while occupied), the keys being "<i>-<instance>" (fnv1a_ch) / "<node>:<i>"
  Loop 0 (replicas) carries the ghost maps; loop 1 (the collision probe) leaves the ring alone."""
  h = RM.RingHarness(ctx, index)
  h.assume_I()
  ip = h.ip
  ip.label_prefix = 'C06/'
  I = z3.IntSort()
  ctx.assume(h.replica_count >= 2)
  x = TNode.fresh(ctx, 'x')
  xz = TNode.enc(ip, x)
  ctx.assume(z3.Not(z3.Select(h.nodes.mem, xz)))
  R0 = h.ring.term
  L0 = z3.Length(R0)
  nodes0 = h.nodes.snapshot()
  st = {}
  Q = CHR + '.add_node'
  j_, a_, b_, q_ = z3.Int('j?'), z3.Int('a?'), z3.Int('b?'), z3.Int('q?')
  n_ = z3.Const('n?', Node)

  def fmt(ip2, f, args):
    if f == '%d-%s' and len(args) == 2:
      return RK_FNV(TInt.enc(ip2, args[0]), TAtom.enc(ip2, args[1]))
    if f == '%s:%d' and len(args) == 2:
      return RK_CH(TNode.enc(ip2, args[0]), TInt.enc(ip2, args[1]))
    raise EngineError("replica key format %r" % (f,))
  ip.ext['str_format'] = fmt
  ip.ext[('getitem', Entry.name())] = lambda ip2, o, i: (E_POS(o) if i == 0 else TNode.dec(E_NODE(o)))

  def insort(ip2, args, kw):
    """A-LIB: bisect.insort(a, e) on a list strictly sorted by position with e's position not in
    it: e is inserted at the index that keeps the list sorted (tuples then compare by position)."""
    ring, entry = args
    if not (isinstance(ring, SymSeq) and isinstance(entry, tuple) and len(entry) == 2):
      raise EngineError("insort(%r, %r)" % (ring, entry))
    R = ring.term
    n = z3.Length(R)
    p = TInt.enc(ip2, entry[0])
    e = TEntry.enc(ip2, entry)
    ctx.check('C06/add_node/insort/position_is_free', z3.ForAll([j_], z3.Implies(z3.And(0 <= j_, j_ < n), E_POS(R[j_]) != p)))
    i = ctx.fresh(I, 'insert_at')
    ctx.assume(z3.And(0 <= i, i <= n))
    ctx.assume(z3.ForAll([j_], z3.Implies(z3.And(0 <= j_, j_ < i), E_POS(R[j_]) < p)))
    ctx.assume(z3.ForAll([j_], z3.Implies(z3.And(i <= j_, j_ < n), E_POS(R[j_]) > p)))
    new = ctx.fresh(z3.SeqSort(Entry), 'ring')
    ctx.assume(z3.Length(new) == n + 1)
    ctx.assume(new[i] == e)
    ctx.assume(z3.ForAll([j_], z3.Implies(z3.And(0 <= j_, j_ < i), new[j_] == R[j_])))
    ctx.assume(z3.ForAll([j_], z3.Implies(z3.And(i < j_, j_ <= n), new[j_] == R[j_ - 1])))
    # (library contract: inserting into a sorted list keeps it sorted; strictly, since the position
    # was checked to be free.  The pointwise definition above implies it; stating it spares the
    # solver a five-way case split over shifted indices)
    ctx.assume(z3.ForAll([a_, b_], z3.Implies(z3.And(0 <= a_, a_ < b_, b_ <= n), E_POS(new[a_]) < E_POS(new[b_]))))
    ring.set_term(ip2, new)
    st['ins'] = (i, p, e, R)
    return None
  ip.module_bindings.setdefault(H, {})
  ip.env(H).bindings['bisect'] = Namespace('bisect', {'insort': Builtin('insort', insort),
                                                       'bisect_left': Builtin('bisect_left', RM.Bisect.bisect_left)})

  # ---- loop 0: for i in range(self.replica_count) ----------------------------------------------
  def ghost0(fr):
    G = fr.ghost
    G['dst'] = z3.K(I, z3.IntVal(0))
    dst0 = ctx.fresh(z3.ArraySort(I, I), 'dst')
    src0 = ctx.fresh(z3.ArraySort(I, I), 'src')
    ctx.assume(z3.ForAll([j_], z3.Select(dst0, j_) == j_))
    ctx.assume(z3.ForAll([j_], z3.Select(src0, j_) == j_))
    G['dst'], G['src'] = dst0, src0
    G['w1'], G['w2'] = z3.IntVal(-1), z3.IntVal(-1)

  def inv0(fr):
    G = fr.ghost
    k = fr.loop_k[0]
    R = h.ring.term
    L = z3.Length(R)
    dst, src, w1, w2 = G['dst'], G['src'], G['w1'], G['w2']
    return [
      ('length', L == L0 + k),
      ('sorted_unique', z3.ForAll([a_, b_], z3.Implies(z3.And(0 <= a_, a_ < b_, b_ < L), E_POS(R[a_]) < E_POS(R[b_])))),
      ('old_entries_kept', z3.ForAll([j_], z3.Implies(z3.And(0 <= j_, j_ < L0),
                                                      z3.And(0 <= z3.Select(dst, j_), z3.Select(dst, j_) < L,
                                                             R[z3.Select(dst, j_)] == R0[j_])))),
      ('old_order_kept', z3.ForAll([a_, b_], z3.Implies(z3.And(0 <= a_, a_ < b_, b_ < L0), z3.Select(dst, a_) < z3.Select(dst, b_)))),
      ('other_entries_are_the_new_node_s', z3.ForAll([a_], z3.Implies(
        z3.And(0 <= a_, a_ < L),
        z3.Or(z3.And(z3.Select(src, a_) == -1, E_NODE(R[a_]) == xz),
              z3.And(0 <= z3.Select(src, a_), z3.Select(src, a_) < L0, R[a_] == R0[z3.Select(src, a_)]))))),
      ('first_new_entry', z3.Implies(k >= 1, z3.And(0 <= w1, w1 < L, E_NODE(R[w1]) == xz))),
      ('second_new_entry', z3.Implies(k >= 2, z3.And(0 <= w2, w2 < L, E_NODE(R[w2]) == xz, w1 != w2))),
      ('node_set', z3.And(z3.ForAll([n_], z3.Select(h.nodes.mem, n_) == z3.Or(z3.Select(nodes0.mem, n_), n_ == xz)),
                          h.nodes.card == nodes0.card + 1, h.obj.fields['nodes_len'] == nodes0.card + 1)),
    ]

  def havoc0(fr):
    G = fr.ghost
    h.ring.havoc(ip, 'ring')
    G['dst'] = ctx.fresh(z3.ArraySort(I, I), 'dst')
    G['src'] = ctx.fresh(z3.ArraySort(I, I), 'src')
    G['w1'], G['w2'] = ctx.fresh(I, 'w1'), ctx.fresh(I, 'w2')
    st['k_head'] = fr.loop_k[0]
    st['G'] = dict(G)

  def step0(fr):
    # ghost update for one insertion at index i
    G = fr.ghost
    (i, p, e, Rb) = st['ins']
    k1 = fr.loop_k[0]          # already advanced
    dst, src = G['dst'], G['src']
    nd = ctx.fresh(z3.ArraySort(I, I), 'dst')
    ns = ctx.fresh(z3.ArraySort(I, I), 'src')
    ctx.assume(z3.ForAll([j_], z3.Select(nd, j_) == z3.Select(dst, j_) + z3.If(z3.Select(dst, j_) >= i, 1, 0)))
    ctx.assume(z3.ForAll([a_], z3.Select(ns, a_) == z3.If(a_ < i, z3.Select(src, a_), z3.If(a_ == i, -1, z3.Select(src, a_ - 1)))))
    w1, w2 = G['w1'], G['w2']
    sh = lambda w: w + z3.If(w >= i, 1, 0)
    G['w1'] = z3.If(k1 == 1, i, sh(w1))
    G['w2'] = z3.If(k1 == 2, i, sh(w2))
    G['dst'], G['src'] = nd, ns
    ctx.cover('add_node/replica_inserted')
    ctx.check('C06/add_node/entry_is_position_and_node', E_NODE(e) == xz)
    # compatibility: the position is the first free one at or after the hash of the replica key
    p0 = st['p0']
    ctx.check('C06/add_node/position_at_or_after_hash', p >= p0)
    ctx.check('C06/add_node/replica_key', st['key_ok'])
  ip.loops[(Q, 0)] = LoopSpec('for i in range(self.replica_count)', inv0, havoc0, ghost_pre=ghost0, ghost_step=step0)

  # ---- loop 1: while position in [r[0] for r in self.ring] --------------------------------------
  def ghost1(fr):
    G = fr.ghost
    R = h.ring.term
    L = z3.Length(R)
    RW = z3.Function(ctx.fresh_name('index_of_position'), I, I)
    # positions are unique (sorted_unique), so "the index holding position q" is a function
    ctx.assume(z3.ForAll([j_], z3.Implies(z3.And(0 <= j_, j_ < L), RW(E_POS(R[j_])) == j_)))
    G['RW'] = RW
    G['ring_at_probe'] = R
    st['p0'] = fr['position']
    i = fr['i']
    key = fr['replica_key']
    want = z3.If(h.hash_type == ip.atom('fnv1a_ch'), RK_FNV(TInt.enc(ip, i), RM.N_INSTANCE(xz)), RK_CH(xz, TInt.enc(ip, i)))
    st['key_ok'] = z3.And(TAtom.enc(ip, key) == want, st['p0'] == POS(want))

  def inv1(fr):
    G = fr.ghost
    R = G['ring_at_probe']
    L = z3.Length(R)
    RW = G['RW']
    pos = TInt.enc(ip, fr['position'])
    return [
      ('ring_untouched', h.ring.term == R),
      ('probe_moves_up', pos >= st['p0']),
      ('all_between_are_taken', z3.ForAll([q_], z3.Implies(z3.And(st['p0'] <= q_, q_ < pos),
                                                         z3.And(0 <= RW(q_), RW(q_) < L, E_POS(R[RW(q_)]) == q_)))),
    ]

  def havoc1(fr):
    fr.locals['position'] = ctx.fresh(I, 'position')
  ip.loops[(Q, 1)] = LoopSpec('while position in [r[0] for r in self.ring]', inv1, havoc1, ghost_pre=ghost1,
                              locals_modified=['position'])

  ip.run(Q, [x], self_obj=h.obj)
  ctx.cover('add_node/returns')
  ring1 = h.obj.fields['ring']
  R = ring1.term
  L = z3.Length(R)
  # the invariant of loop 0 at exit (k == replica_count) is on the path condition
  G = st['G']
  dst, src, w1, w2 = G['dst'], G['src'], G['w1'], G['w2']
  # frame: what minimal disruption (s1) needs -- old entries all kept in order, everything else is x's
  ctx.check('C06/add_node/old_entries_kept', z3.ForAll([j_], z3.Implies(
    z3.And(0 <= j_, j_ < L0), z3.And(0 <= z3.Select(dst, j_), z3.Select(dst, j_) < L, R[z3.Select(dst, j_)] == R0[j_]))))
  ctx.check('C06/add_node/old_order_kept', z3.ForAll([a_, b_], z3.Implies(z3.And(0 <= a_, a_ < b_, b_ < L0),
                                                                         z3.Select(dst, a_) < z3.Select(dst, b_))))
  ctx.check('C06/add_node/only_entries_of_the_new_node_added', z3.ForAll([a_], z3.Implies(
    z3.And(0 <= a_, a_ < L),
    z3.Or(E_NODE(R[a_]) == xz, z3.And(0 <= z3.Select(src, a_), z3.Select(src, a_) < L0, R[a_] == R0[z3.Select(src, a_)])))))
  # I_ring re-established
  ctx.check('C06/add_node/I_ring/entries_are_nodes', z3.ForAll([a_], z3.Implies(z3.And(0 <= a_, a_ < L),
                                                                                z3.Select(h.nodes.mem, E_NODE(R[a_])))))
  e1n = z3.If(n_ == xz, w1, z3.Select(dst, h.e1(n_)))
  e2n = z3.If(n_ == xz, w2, z3.Select(dst, h.e2(n_)))
  ctx.check('C06/add_node/I_ring/two_entries_each', z3.ForAll([n_], z3.Implies(
    z3.Select(h.nodes.mem, n_),
    z3.And(0 <= e1n, e1n < L, 0 <= e2n, e2n < L, e1n != e2n, E_NODE(R[e1n]) == n_, E_NODE(R[e2n]) == n_))))
  ctx.check('C06/add_node/lengths_updated', z3.And(h.obj.fields['ring_len'] == L, h.obj.fields['nodes_len'] == h.nodes.card))
  ctx.check('C06/add_node/I_ring/sorted_unique', z3.ForAll([a_, b_], z3.Implies(z3.And(0 <= a_, a_ < b_, b_ < L), E_POS(R[a_]) < E_POS(R[b_]))))
  ctx.check('C06/add_node/length', L == L0 + h.replica_count)
  ctx.check('C06/add_node/node_set', z3.ForAll([n_], z3.Select(h.nodes.mem, n_) == z3.Or(z3.Select(nodes0.mem, n_), n_ == xz)))


def u_ring_init(ctx, index):
  """__init__(nodes) for a list of distinct nodes: starts from the empty ring (I_ring holds
  trivially) and calls add_node once per node; with add_node's contract (verified by unit add_node)
  used at the call site, I_ring and `self.nodes == set(nodes[:k])` are the loop invariant: the
  constructed ring satisfies I_ring and holds exactly the listed nodes."""
  h = RM.RingHarness(ctx, index)
  ip = h.ip
  ip.label_prefix = 'C06/'
  I = z3.IntSort()
  nodes_arg = SymSeq(TNode, ctx.fresh(z3.SeqSort(Node), 'node_list'), 'node_list')
  a_, b_, j_ = z3.Int('a?'), z3.Int('b?'), z3.Int('j?')
  n_ = z3.Const('n?', Node)
  N = nodes_arg.length()
  ctx.assume(z3.ForAll([a_, b_], z3.Implies(z3.And(0 <= a_, a_ < b_, b_ < N), nodes_arg.term[a_] != nodes_arg.term[b_])))
  rc = ctx.fresh(I, 'replica_count_arg')
  ctx.assume(rc >= 2)
  # the object's own fields are created by __init__; the harness models are re-pointed to them
  obj = h.obj
  for f in ('ring', 'ring_len', 'nodes', 'nodes_len', 'replica_count', 'hash_type'):
    obj.fields.pop(f, None)
  ip.ext['new_set'] = lambda ip2: h.nodes_reset(ip2)
  st = {}

  def nodes_reset(ip2):
    s0 = SymSet.empty(ip2, TNode, 'nodes')
    h.nodes = s0
    return s0
  h.nodes_reset = nodes_reset

  def cur_ring():
    r = obj.fields['ring']
    if isinstance(r, PyList):
      r = r.to_symseq(ip, TEntry)
      r.name = 'ring'
      obj.fields['ring'] = r
    h.ring = r
    return r

  def I_now():
    cur_ring()
    return h.I_ring()

  def add_node_spec(ip2, args, kw):
    (selfobj, x) = args[0], args[1]
    xz = TNode.enc(ip2, x)
    cur_ring()
    ctx.check('C06/__init__/add_node_called_for_a_new_node', z3.Not(z3.Select(h.nodes.mem, xz)))
    for l, f in h.I_ring():
      ctx.check('C06/__init__/add_node_called_on_a_well_formed_ring/' + l, f)
    old_nodes = h.nodes.snapshot()
    h.ring.havoc(ip2, 'ring')
    h.nodes.havoc(ip2, 'nodes')
    obj.fields['ring_len'] = ctx.fresh(I, 'ring_len')
    obj.fields['nodes_len'] = ctx.fresh(I, 'nodes_len')
    h.e1 = z3.Function(ctx.fresh_name('e1'), Node, I)
    h.e2 = z3.Function(ctx.fresh_name('e2'), Node, I)
    for l, f in h.I_ring():
      ctx.assume(f)
    ctx.assume(z3.ForAll([n_], z3.Select(h.nodes.mem, n_) == z3.Or(z3.Select(old_nodes.mem, n_), n_ == xz)))
    ctx.assume(h.nodes.card == old_nodes.card + 1)
    return None
  ip.specs[CHR + '.add_node'] = Spec(CHR + '.add_node', add_node_spec)

  def inv(fr):
    k = fr.loop_k[0]
    members = z3.ForAll([n_], z3.Select(h.nodes.mem, n_) ==
                        z3.Exists([j_], z3.And(0 <= j_, j_ < k, nodes_arg.term[j_] == n_)))
    return list(I_now()) + [('configured_nodes_are_the_listed_prefix', members), ('node_count', h.nodes.card == k)]

  def havoc(fr):
    cur_ring().havoc(ip, 'ring')
    h.nodes.havoc(ip, 'nodes')
    obj.fields['ring_len'] = ctx.fresh(I, 'ring_len')
    obj.fields['nodes_len'] = ctx.fresh(I, 'nodes_len')
    h.e1 = z3.Function(ctx.fresh_name('e1'), Node, I)
    h.e2 = z3.Function(ctx.fresh_name('e2'), Node, I)
  ip.loops[(CHR + '.__init__', 0)] = LoopSpec('for node in nodes', inv, havoc, locals_modified=[])
  ht = ctx.fresh(Atom, 'hash_type_arg')
  ip.run(CHR + '.__init__', [nodes_arg], kwargs={'replica_count': rc, 'hash_type': ht}, self_obj=obj)
  ctx.cover('__init__/returns')
  for l, f in I_now():
    ctx.check('C06/__init__/I_ring/' + l, f)
  ctx.check('C06/__init__/configured_nodes_are_the_listed_ones',
            z3.ForAll([n_], z3.Select(h.nodes.mem, n_) == z3.Exists([j_], z3.And(0 <= j_, j_ < N, nodes_arg.term[j_] == n_))))
  ctx.check('C06/__init__/settings_kept', z3.And(obj.fields['replica_count'] == rc, obj.fields['hash_type'] == ht))


def u_minimal_disruption(ctx, index):
  """Lemma s1 over the contracts.  E = old entries (positions unique), E' = E plus entries of a
  new node x at fresh positions (add_node's frame: old entries unchanged) -- or E minus x's
  entries (remove_node's contract).  For nodes a, b != x the one whose first entry comes earlier on
  the cyclic walk from p is the same in E and E': cyclic rank ck(e) = (e.pos < p, e.pos) and each
  node's minimum ranges over its own, unchanged, entries."""
  I, B = z3.IntSort(), z3.BoolSort()
  # an entry set as a characteristic function over (pos, node); nodes as an uninterpreted sort
  N = z3.DeclareSort('N')
  inE = z3.Function('in_E', I, N, B)
  inE2 = z3.Function('in_E2', I, N, B)
  x, a, b = ctx.fresh(N, 'x'), ctx.fresh(N, 'a'), ctx.fresh(N, 'b')
  p = ctx.fresh(I, 'p')
  q, n = z3.Int('q?'), z3.Const('n?', N)
  ctx.assume(z3.ForAll([q, n], z3.Implies(n != x, inE2(q, n) == inE(q, n))))      # frame: other nodes' entries unchanged
  ctx.assume(z3.And(a != x, b != x, a != b))

  def before(q1, q2):           # cyclic order from p
    return z3.Or(z3.And(q1 >= p, q2 < p), z3.And((q1 >= p) == (q2 >= p), q1 < q2))
  ma, mb = ctx.fresh(I, 'first_pos_a'), ctx.fresh(I, 'first_pos_b')

  def is_first(m, node, S):
    return z3.And(S(m, node), z3.ForAll([q], z3.Implies(z3.And(S(q, node), q != m), before(m, q))))
  ctx.assume(z3.And(is_first(ma, a, inE), is_first(mb, b, inE)))
  ctx.cover('lemma/minimal_disruption')
  ctx.check('C06/lemma/minimal_disruption/first_entries_unchanged', z3.And(is_first(ma, a, inE2), is_first(mb, b, inE2)))
  ctx.check('C06/lemma/minimal_disruption/relative_order_unchanged',
            z3.Implies(before(ma, mb), z3.And(is_first(ma, a, inE2), is_first(mb, b, inE2), before(ma, mb))))


def replay_ring(model, ob):
  """failing input for a refuted ring-construction clause: the real ring against the pinned spec"""
  import json
  from pyvc.runner import run_native
  rc, out, err = run_native('replay/c06_ring.py', ['--tier', 'quick'], timeout=900)
  for line in out.splitlines():
    if line.startswith('BOUNDED-RESULT '):
      r = json.loads(line[len('BOUNDED-RESULT '):])
      fl = [f for f in r['failures'] if f['id'] != 'c06-history-collision-bump']
      if fl:
        return {'native_confirms': True, 'input': fl[0], 'searched': r['evaluations']}
      return {'native_confirms': False, 'searched': r['evaluations']}
  return {'replay_error': (err or out)[-600:]}


def build():
  def kf_witness():
    import json
    from pyvc.runner import run_native
    rc, out, err = run_native('replay/c06_ring.py', ['--witness'], timeout=900)
    for line in out.splitlines():
      if line.startswith('WITNESS-RESULT '):
        r = json.loads(line[len('WITNESS-RESULT '):])
        return bool(r.get('still_fails')), r
    raise RuntimeError((err or out)[-300:])
  units = [
    Unit('hashing.fnv32a', u_fnv32a, [H + ':fnv32a#1'], expect_covers=['fnv32a/returns']),
    Unit('hashing.carbonHash', u_carbon_hash, [H + ':carbonHash', H + ':compactHash'], expect_covers=['carbonHash/returns']),
    Unit('hashing.ConsistentHashRing.get_node', u_get_node, [CHR + '.get_node'], expect_covers=['get_node/returns']),
    Unit('hashing.ConsistentHashRing.get_nodes[order]', u_get_nodes_order, [CHR + '.get_nodes'], expect_covers=['get_nodes_order/returns']),
    Unit('hashing.ConsistentHashRing.add_node', u_add_node, [CHR + '.add_node'], expect_covers=['add_node/returns', 'add_node/replica_inserted'],
         replay=replay_ring, native_clauses=['C06/add_node/I_ring/sorted_unique']),
    Unit('hashing.ConsistentHashRing.__init__', u_ring_init, [CHR + '.__init__'], expect_covers=['__init__/returns']),
    Unit('hashing.ConsistentHashRing.remove_node', u_remove_node, [CHR + '.remove_node'], expect_covers=['remove_node/returns'],
         replay=replay_ring, native_clauses=['C06/remove_node/no_entry_of_the_removed_node']),
    Unit('C06/lemma/minimal_disruption', u_minimal_disruption, [], expect_covers=['lemma/minimal_disruption']),
  ]
  return Property(
    'C06', units,
    bounded=[Bounded('C06/ring/compat_disruption_history', 'replay/c06_ring.py', ['--tier', 'quick'], ['--tier', 'thorough'],
                     'real ConsistentHashRing vs /verif/spec/ring_spec.py: destination lists of 1,2,3,5 (quick) / 1..8 (thorough) nodes incl. several instances per server and destinations without an instance name (None), in configured, reversed and random order, both hash types, ring contents and the owner of ALL 65536 positions, FNV known-answer vectors, preference lists; one-node add/remove at every 257th (quick) / 16th (thorough) position; random add/remove histories of 2 (quick) / 5 (thorough) operations against a fresh ring',
                     "the ring as a whole (all replicas of all nodes through __init__) against the published algorithm, and history independence, are whole-history statements; md5 / UTF-8 are library functions; add_node's per-call contract is discharged")],
    findings_witness={'c06-history-collision-bump': kf_witness},
    trusted_base=['A-ENGINE', 'A-SMT', 'A-LIB(bisect_left, comprehension filter, md5, utf-8)'],
    assumptions=[
      "bytes are sequences of 32-bit vectors <= 255; Python ints produced by fnv32a are 32-bit vectors ((h * prime) % 2**32 is 32-bit multiplication); int() of such a vector is the identity",
      "md5().hexdigest(), str.encode('utf-8'), int(s, 16) and hex slicing are uninterpreted: what is proved is that carbonHash composes them as the pinned spec does",
      "a list comprehension with a condition over a list is an order-preserving filter (A-LIB)",
      "I_ring is assumed at the entry of get_node / get_nodes / add_node / remove_node and re-established by add_node / remove_node (it holds trivially for the empty ring __init__ starts from; __init__'s loop over add_node is the induction); add_node's precondition: the node is not configured yet (the routers refuse duplicates) and replica_count >= 2",
      "A-LIB: bisect.insort on a list strictly sorted by position, with the new position not in it, inserts at the index that keeps it sorted",
    ])
