"""C03 -- the writer persists each drained datapoint exactly once or accounts for it.

Functions under contract: carbon.writer:writeCachedDataPoints (all four loops),
carbon.writer:writeForever (the catch-all); callee contracts: _MetricCache.drain_metric (C02/C17),
TokenBucket.{peek,drain} (C20).  See contracts/writer_units.py.
"""
from pyvc.runner import Unit, Property
from . import writer_units as WU
from . import writer_forever as WF


def build():
  units = [
    Unit('writer.writeCachedDataPoints[iteration]', WU.u_write_iteration, [WU.WCD],
         expect_covers=['iteration/ends', 'iteration/batch', 'iteration/written', 'iteration/committed',
                        'iteration/write_fails', 'iteration/dropped', 'iteration/exists_raises',
                        'iteration/exit', 'create/iteration', 'create/created']),
    Unit('writer.writeForever', WF.u_write_forever, [WF.WFE], expect_covers=['forever/returns']),
  ]
  return Property(
    'C03', units,
    trusted_base=['A-ENGINE', 'A-SMT', 'A-BACKEND', 'A-THREADS', 'A-GIL', 'A-LIB(dict of pairs)'],
    assumptions=[
      "A-BACKEND: state.database.exists/create/write may each return anything or raise any Exception subclass and do not touch carbon's state",
      "the batch returned by drain_metric is owned by the writer thread (C02 pop: fresh list, metric removed from the cache), so interference by the storing thread cannot touch it",
      "instrumentation.increment/append, tagQueue.add/update and log.* do not raise (TagQueue catches queue.Full)",
      "one iteration of `while cache:` is verified from an arbitrary state (loop cut by the trivial invariant); 'exactly once' over a whole pass follows because each batch is taken by exactly one iteration",
      "an exception raised by exists() for the batch in flight escapes to writeForever, where it is logged: that batch is 'reported as an error', not re-queued",
    ])
