"""C03 -- the writer persists each drained datapoint exactly once or accounts for it.

Functions under contract: carbon.writer:writeCachedDataPoints (all four loops),
carbon.writer:writeForever (the catch-all); callee contracts: _MetricCache.drain_metric (C02/C17),
TokenBucket.{peek,drain} (C20).  See contracts/writer_units.py.
"""
from pyvc.runner import Unit, Property, Bounded
from . import writer_units as WU
from . import writer_forever as WF


def build():
  units = [
    Unit('writer.writeCachedDataPoints[iteration]', WU.u_write_iteration, [WU.WCD],
         expect_covers=['iteration/ends', 'iteration/batch', 'iteration/written', 'iteration/committed',
                        'iteration/write_fails', 'iteration/dropped', 'iteration/exists_raises',
                        'iteration/exit', 'create/iteration', 'create/created']),
    Unit('writer.writeForever', WF.u_write_forever, [WF.WFE], expect_covers=['forever/returns']),
  ]
  return Property(
    'C03', units,
    bounded=[Bounded('C03/native/writer_loop_fault_injection', 'replay/writer_native.py',
                     ['--what', 'faults', '--inflight', '1', '--faults', '2'], ['--what', 'faults', '--inflight', '1', '--faults', '2', '--thorough'],
                     "the real writeForever / writeCachedDataPoints with a virtual clock and a storage double: 4 initial workloads (0..3 datapoints over 2 metrics) x every set of <= 2 failing calls among the first three exists / create / write calls x 0..1 stores by the 'storing thread' at every line step of the writer functions (sys.settrace scheduler; thorough: also every placement of the stop for <= 1 fault) x write strategies sorted / timesorted / bucketmax / none (thorough: all seven) x create-rate limiting on/off, pre-existing file or not: every drained batch is written once, complete, under its own metric after exists() said yes and counted, or its failure / drop is counted or logged; no datapoint is in two write calls",
                     "cross-check of the per-iteration contract and of the meta-step 'each batch is taken by exactly one iteration' on CPython; interleaving is at line granularity of writer.py with cache operations atomic")],
    trusted_base=['A-ENGINE', 'A-SMT', 'A-BACKEND', 'A-THREADS', 'A-GIL', 'A-LIB(dict of pairs)'],
    assumptions=[
      "A-BACKEND: state.database.exists/create/write may each return anything or raise any Exception subclass and do not touch carbon's state",
      "the batch returned by drain_metric is owned by the writer thread (C02 pop: fresh list, metric removed from the cache), so interference by the storing thread cannot touch it",
      "instrumentation.increment/append, tagQueue.add/update and log.* do not raise (TagQueue catches queue.Full)",
      "one iteration of `while cache:` is verified from an arbitrary state (loop cut by the trivial invariant); 'exactly once' over a whole pass follows because each batch is taken by exactly one iteration",
      "an exception raised by exists() for the batch in flight escapes to writeForever, where it is logged: that batch is 'reported as an error', not re-queued",
    ])
