"""C07 -- relay send queues deliver in order, exactly once, within their bounds.

Functions under contract (carbon.client): CarbonClientFactory.{enqueue, enqueue_from_left,
takeSomeFromQueue (+ its nested generator), sendDatapoint, sendHighPriorityDatapoint, scheduleSend,
checkQueue, queueFullCallback, queueSpaceCallback, destinationDown}, CarbonClientProtocol.
{sendQueued, sendDatapointsNow, pauseProducing, resumeProducing}, CarbonPickleClientProtocol.
_sendDatapointsNow.  See contracts/client_model.py / client_units.py.

Every operation has a whole-view contract over the queue as a sequence: an arrival appends at
the right (a self-metric prepends at the left), a send writes exactly the prefix of length
min(MAX_DATAPOINTS_PER_MESSAGE, |queue|) and leaves the rest, nothing else touches the queue, a
drop happens only when there is no room below the hard limit and is counted, a removed
destination re-injects every queued item in order and empties the queue.  With `accepted ==
written ++ queue` for normal items as the history invariant (induction over events: meta-step),
this is in-order exactly-once delivery.
"""
from pyvc.runner import Unit, Property, Syntactic, Bounded
from . import client_units as CU


C07_IDS = 'order_exactly_once,drop_only_at_limit,drop_counted,bound,rerouted_not_lost,delivered_at_quiescence,stop_after_drain,no_raise'


def build():
  return Property(
    'C07', CU.all_units('C07'),
    syntactic=[Syntactic('C07/constants/derived_watermarks', CU.constants_derivation,
                         'client.py derives SEND_QUEUE_LOW_WATERMARK / SEND_QUEUE_HARD_MAX as the harness assumes')],
    bounded=[Bounded('C07/native/event_sequences_cross_check', 'replay/relay_native.py',
                     ['--len', '5', '--random', '50', '--only', C07_IDS], ['--len', '6', '--random', '300', '--thorough', '--only', C07_IDS],
                     "every enabled sequence of <= 5 (quick) / 6 (thorough) events over {arrival, self-metric, connection made / lost / failed, transport paused / resumed, timer round}, each with and without a final orderly stop, plus seeded random sequences up to 14 events, on the real factories and protocols (pickle and line) with a task.Clock reactor: 43 (quick) / 108 (thorough) configurations of MAX_QUEUE_SIZE in {1,2,3}, hard-limit and low-watermark fractions, MAX_DATAPOINTS_PER_MESSAGE in {1,2,500}, flow control, dynamic router, retry budget, connection-quality resets (USE_RATIO_RESET with a monitor that always asks for a reset)",
                     "the history statement (accepted == written ++ queue over whole event sequences, delivery at quiescence, orderly stop) is an induction over events that is a meta-step of the per-operation contracts, not a discharged obligation; this runs it on CPython/Twisted for every short history"),
             Bounded('C07/native/relay_manager_cross_check', 'replay/manager_native.py',
                     ['--len', '3', '--random', '40'], ['--len', '4', '--random', '300', '--thorough'],
                     "the relay as a whole: the real CarbonClientManager, client factories / protocols, ConsistentHashingRouter (replication factor 1) and the generated-metrics pipeline wired as carbon.service does, with 2 and 3 destinations on fake connectors, static and dynamic router, both client protocols, batch sizes 1 / 500: every enabled sequence of <= 3 (quick) / 4 (thorough) events over {arrival for one of two series, connection made / failed / lost per destination, timer round} plus 40 / 300 seeded random sequences of up to 16 events over six series per configuration; afterwards every destination is connected and all timers fire: each accepted datapoint was written to exactly one destination or is still queued or was counted as a drop",
                     "CarbonClientManager / FakeClientFactory and the re-injection path through the pipeline are not under a discharged contract: the assumption 'a re-injected datapoint is not routed back to the destination being removed' is checked here on the real classes")],
    trusted_base=['A-ENGINE', 'A-SMT', 'A-TWISTED-DEFER', 'A-LIB(deque/list models)'],
    assumptions=[
      "A-TWISTED-DEFER: Deferred.callback runs the registered callbacks synchronously once, raises AlreadyCalledError when already called; callLater returns a DelayedCall that is active until it fires",
      "everything in carbon.client runs on the reactor thread (single-threaded): each method is verified from an arbitrary state; the history statement is the induction over events of the per-operation view equations (meta-step)",
      "state.events.metricGenerated (re-injection) does not enqueue into the queue being drained: the router no longer returns the removed destination (C05/C16 'only configured destinations'); DESTINATION_POOL_REPLICAS is off",
      "connection-quality resets (USE_RATIO_RESET): the monitor's verdict is an arbitrary boolean, resetConnectionForQualityReasons and the protocol's disconnect run under contract inside sendQueued; SSL / connector set-up, CarbonClientManager.startClient / stopClient and FakeClientFactory are not under a discharged contract (bounded: relay_manager_cross_check)",
    ])
