"""C04 -- an orderly shutdown writes out everything that was accepted.

Functions under contract: carbon.writer:writeForever, writeCachedDataPoints (normal return <=>
nothing eligible left, from contracts/writer_units.py), shutdownModifyUpdateSpeed.

Ghost state and rely are in contracts/writer_forever.py: the storing thread may act between any
two atomic steps of the writer while the reactor runs, the stop arrives at most once, and the
reactor thread is quiescent afterwards (A-TWISTED-DEFER: it joins the thread pool).  The
postcondition of writeForever -- on return nothing accepted before the stop is left in the cache,
unless the final pass was cut short by a backend failure that was logged -- covers every
placement of the stop, including inside the idle sleep.
"""
from pyvc.runner import Unit, Property, Syntactic, Bounded
from . import writer_units as WU
from . import writer_forever as WF
from . import c17 as C17


def build():
  units = [
    Unit('writer.writeForever', WF.u_write_forever, [WF.WFE], expect_covers=['forever/returns'], replay=WF.replay_forever),
    Unit('writer.writeCachedDataPoints[iteration]', WU.u_write_iteration, [WU.WCD], expect_covers=['iteration/exit']),
    Unit('writer.shutdownModifyUpdateSpeed', WF.u_shutdown_modify, [WF.W + ':shutdownModifyUpdateSpeed'],
         expect_covers=['shutdown/returns']),
    # "nothing eligible" from the strategy must mean "nothing cached" once the lag is 0: the queue
    # generators answer None only for timesorted with a lag set (clauses shared with C17)
    C17.u_generator('NaiveStrategy', 'naive'), C17.u_generator('SortedStrategy', 'sorted'),
    C17.u_generator('TimeSortedStrategy', 'timesorted'),
  ]
  return Property(
    'C04', units,
    label_prefixes=['C04/', 'C17/NaiveStrategy/None_only', 'C17/SortedStrategy/None_only', 'C17/TimeSortedStrategy/None_only',
                    'C17/NaiveStrategy/choose_in_cache', 'C17/SortedStrategy/choose_in_cache', 'C17/TimeSortedStrategy/choose_in_cache'],
    bounded=[Bounded('C04/native/cache_side_schedules', 'replay/cache_sched_native.py', ['--depth', '2', '--only', 'sched-undrainable,sched-conservation'], ['--depth', '3', '--only', 'sched-undrainable,sched-conservation'],
                     "the real _MetricCache under deterministic two-thread schedules (the other thread runs at every line step of a store / drain_metric at which the lock is not held), all seven strategies: afterwards repeated draining -- what the writer's final pass does -- hands out every accepted datapoint; drain_metric never reports an empty cache while datapoints are held",
                     "the writer-loop schedules of the clause below treat cache operations as atomic; this one interleaves inside them"),
             Bounded('C04/native/stop_placement_cross_check', 'replay/writer_native.py',
                     ['--what', 'shutdown', '--inflight', '1'], ['--what', 'shutdown', '--inflight', '2', '--thorough'],
                     "the real writeForever with a virtual clock, a storage double without faults and a sys.settrace scheduler: 4 initial workloads x every placement of 0..1 stores by the 'storing thread' and of the stop (thorough: also two stores, placed at every third step) (shutdownModifyUpdateSpeed, then reactor.running = False) over the line steps of one full pass plus 22 further steps (idle sleep, next pass) x strategies sorted / timesorted / bucketmax / none (thorough: all seven) x create limit, update limit, MAX_UPDATES_PER_SECOND_ON_SHUTDOWN set / unset x MIN_TIMESTAMP_LAG 0 / 5 with datapoints younger than the lag: writeForever returns, the cache is empty and every datapoint stored before the stop was taken by the writer",
                     "cross-check on CPython of the loop-exit argument (exit of writeCachedDataPoints means nothing eligible; final pass after the loop); line granularity in writer.py, cache operations atomic")],
    syntactic=[Syntactic('C04/wiring/before_shutdown_trigger_and_single_writer_thread', WF.shutdown_wiring,
                         'shutdownModifyUpdateSpeed is a before-shutdown trigger; writeForever runs on one pool thread')],
    trusted_base=['A-ENGINE', 'A-SMT', 'A-TWISTED-DEFER', 'A-THREADS', 'A-BACKEND'],
    assumptions=[
      "A-TWISTED-DEFER: reactor.running turns False once; afterwards the reactor thread only joins the thread pool (no further stores); 'before shutdown' triggers run before that",
      "contract of writeCachedDataPoints used here (proved in the iteration unit + C02/C17): a normal return means the cache was seen empty or the strategy had nothing eligible; an exception leaves the cache as it was",
      "with MIN_TIMESTAMP_LAG == 0 after shutdownModifyUpdateSpeed, 'nothing eligible' means 'nothing cached': discharged here for the three queue generators (None_only_when_nothing_is_eligible, choose_in_cache); for max / bucketmax / random it is the C17 choose_item contract",
      "if the final pass is cut short by a backend exception the remaining datapoints are covered only by the logged error (the property's 'accounted for as errored' is read at pass granularity there)",
    ])
