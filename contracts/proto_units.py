"""Units over the three receivers (carbon.protocols) and events.Event shared by C01 and C11.

C11: for EVERY argument value no path through a handler ends in an uncaught exception, and a
malformed item produces no dispatch.  C01: a well-formed item produces exactly one dispatch with
the decoded name and (float(timestamp), float(value)), positionally.
Library raise-contracts (A-STR / A-PICKLE) are in contracts/proto_model.py.
"""
import z3

from pyvc.core import EngineError
from pyvc.interp import LoopSpec, DictLit
from pyvc.models import Namespace, External, SymSeq, TAtom, PyList
from pyvc.values import Atom, PyRaise, ExcVal, ExcClass, SymExc, Builtin, PyObj, Model
from . import proto_model as PM
from .proto_model import (ProtoHarness, Bytes, PyObjS, Text, BytesVal, PyAny, FloatVal, float_of_atom,
                          VALID_UTF8, DECODE, NFIELDS, FIELD, FLOAT_OK, FLOAT_KIND, FLOAT_VAL,
                          IS_PAIR, FST, SND, IS_STR, AS_ATOM, OBJ_FLOAT_OK, OBJ_FLOAT_KIND, OBJ_FLOAT_VAL)
from .common import pyobj

P = 'carbon.protocols'
LINE_R = P + ':MetricLineReceiver'
UDP_R = P + ':MetricDatagramReceiver'
PICKLE_R = P + ':MetricPickleReceiver'


def harness(ctx, index, cls, prefix):
  h = ProtoHarness(ctx, index, receiver_cls=cls)
  ip = h.ip
  ip.label_prefix = prefix
  ip.ext[('float', 'Atom')] = float_of_atom
  ip.ext['str_format'] = lambda ip2, fmt, args: 'text'
  ip.ext['eval_log_args'] = True
  ip.ext['repr_of'] = lambda ip2, v: Text(z3.Function('repr_text', Atom, Atom)(v.atom if isinstance(v, Text) else ip2.atom('x')))

  def isinst(ip2, v, c):
    if isinstance(v, PyAny) and isinstance(c, Builtin) and c.name == 'str':
      return IS_STR(v.term)
    if isinstance(v, (Text,)) and isinstance(c, Builtin):
      return c.name == 'str'
    if isinstance(v, BytesVal) and isinstance(c, Builtin):
      return c.name == 'bytes'
    raise EngineError("isinstance(%r, %r)" % (v, c))
  ip.ext['isinstance'] = isinst
  ip.builtins['bytes'] = Builtin('bytes', lambda ip2, a, k: (_ for _ in ()).throw(EngineError('bytes()')))
  ip.builtins['iter'] = Builtin('iter', lambda ip2, a, k: a[0].py___iter__(ip2) if isinstance(a[0], Model) and hasattr(a[0], 'py___iter__') else (_ for _ in ()).throw(EngineError('iter')))
  # all timestamps/values here may be non-finite
  return h


def wellformed_fields(text_atom):
  """the three whitespace-separated fields of a well-formed plaintext line: name, value, timestamp
  with value not NaN and timestamp finite and >= 0"""
  f0, f1, f2 = [FIELD(text_atom, z3.IntVal(i)) for i in range(3)]
  return z3.And(NFIELDS(text_atom) == 3, FLOAT_OK(f1), FLOAT_OK(f2), FLOAT_KIND(f1) != 1,
                FLOAT_KIND(f2) == 0, FLOAT_VAL(f2) >= 0)


def dispatched(h):
  return h.log.of('events.metricReceived')


def check_dispatch(ctx, h, label, evs, name_atom, ts_atom_kind_val, val_kind_val):
  """exactly one dispatch carrying (name, (float(ts), float(value)))"""
  ok = len(evs) == 1
  ctx.check(label + '/exactly_one_dispatch', z3.BoolVal(ok))
  if not ok:
    return
  m, dp = evs[0][1]
  if isinstance(m, PyAny):
    m = AS_ATOM(m.term)
  if isinstance(m, Text):
    m = m.atom
  good = isinstance(dp, tuple) and len(dp) == 2
  ctx.check(label + '/datapoint_is_pair', z3.BoolVal(good))
  if not good:
    return
  ts, v = FloatVal.of(dp[0]), FloatVal.of(dp[1])
  tk, tv = ts_atom_kind_val
  vk, vv = val_kind_val
  ctx.check(label + '/name', m == name_atom)
  # with a resolution configured the timestamp is rounded (C12); identity is claimed for res == 0
  ctx.check(label + '/timestamp', z3.Implies(h.res == 0, z3.And(ts.kind == 0, ts.r == tv)))
  ctx.check(label + '/value', z3.And(v.kind == vk, z3.Implies(vk == 0, v.r == vv)))


# ---- plaintext TCP ------------------------------------------------------------------------------

def u_line_received(ctx, index):
  h = harness(ctx, index, LINE_R, 'C11/')
  # no filtering configured, no resolution: C01's setting (C12 covers the admission rules)
  ctx.assume(z3.Length(h.bl.fields['regex_list'].term) == 0)
  ctx.assume(z3.Length(h.wl.fields['regex_list'].term) == 0)
  line = ctx.fresh(Bytes, 'line')
  raised = None
  try:
    h.ip.run(LINE_R + '.lineReceived', [BytesVal(line)], self_obj=h.receiver)
  except PyRaise as e:
    raised = e.exc
  ctx.cover('lineReceived/ends')
  ctx.check('C11/lineReceived/no_escape', z3.BoolVal(raised is None))
  if raised is not None:
    return
  evs = dispatched(h)
  t = DECODE(line)
  wf = z3.And(VALID_UTF8(line), wellformed_fields(t))
  if ctx.branch(wf, 'wellformed'):
    ctx.cover('lineReceived/wellformed')
    f0, f1, f2 = [FIELD(t, z3.IntVal(i)) for i in range(3)]
    for pre in ('C01', 'C11'):
      check_dispatch(ctx, h, pre + '/lineReceived/decode', evs, f0, (FLOAT_KIND(f2), FLOAT_VAL(f2)),
                     (FLOAT_KIND(f1), FLOAT_VAL(f1)))
  else:
    ctx.cover('lineReceived/malformed')
    malformed = z3.Or(z3.Not(VALID_UTF8(line)), NFIELDS(t) != 3,
                      z3.Not(FLOAT_OK(FIELD(t, z3.IntVal(1)))), z3.Not(FLOAT_OK(FIELD(t, z3.IntVal(2)))),
                      z3.And(FLOAT_OK(FIELD(t, z3.IntVal(2))), FLOAT_KIND(FIELD(t, z3.IntVal(2))) != 0),
                      z3.And(FLOAT_OK(FIELD(t, z3.IntVal(1))), FLOAT_KIND(FIELD(t, z3.IntVal(1))) == 1))
    ctx.check('C11/lineReceived/malformed_is_skipped', z3.Implies(malformed, z3.BoolVal(len(evs) == 0)))
  # frame condition: the handler keeps no state between frames
  ctx.check('C01/lineReceived/frame', z3.BoolVal(set(h.receiver.fields.keys()) <= {'peerName'}))


# ---- UDP ------------------------------------------------------------------------------------------

def u_datagram_received(ctx, index):
  h = harness(ctx, index, UDP_R, 'C11/')
  ctx.assume(z3.Length(h.bl.fields['regex_list'].term) == 0)
  ctx.assume(z3.Length(h.wl.fields['regex_list'].term) == 0)
  data = ctx.fresh(Bytes, 'datagram')
  Q = UDP_R + '.datagramReceived'
  state = {}

  def inv(fr):
    return [('true', z3.BoolVal(True))]

  def havoc(fr):
    h.log.clear()
    state['line'] = None

  def step(fr):
    # one line of the datagram has been processed without an exception escaping
    ctx.cover('datagram/line_done')
    seq = fr.ghost['seq0']
    k = fr.loop_k[0] - 1
    evs = dispatched(h)
    item = seq.term[k]
    if seq.ty is PM.TTextLine:
      t, valid = item, z3.BoolVal(True)
    else:
      t, valid = DECODE(item), VALID_UTF8(item)
    wf = z3.And(valid, wellformed_fields(t))
    if ctx.branch(wf, 'line wellformed'):
      ctx.cover('datagram/wellformed_line')
      f0, f1, f2 = [FIELD(t, z3.IntVal(i)) for i in range(3)]
      for pre in ('C01', 'C11'):
        check_dispatch(ctx, h, pre + '/datagramReceived/line', evs, f0, (FLOAT_KIND(f2), FLOAT_VAL(f2)),
                       (FLOAT_KIND(f1), FLOAT_VAL(f1)))
    else:
      malformed = z3.Or(z3.Not(valid), NFIELDS(t) != 3,
                        z3.Not(FLOAT_OK(FIELD(t, z3.IntVal(1)))), z3.Not(FLOAT_OK(FIELD(t, z3.IntVal(2)))),
                        z3.And(FLOAT_OK(FIELD(t, z3.IntVal(2))), FLOAT_KIND(FIELD(t, z3.IntVal(2))) != 0),
                        z3.And(FLOAT_OK(FIELD(t, z3.IntVal(1))), FLOAT_KIND(FIELD(t, z3.IntVal(1))) == 1))
      ctx.check('C11/datagramReceived/malformed_line_is_skipped', z3.Implies(malformed, z3.BoolVal(len(evs) == 0)))
  h.ip.loops[(Q, 0)] = LoopSpec('for line in ', inv, havoc, ghost_step=step,
                                locals_modified=[])
  raised = None
  addr = (ctx.fresh(Atom, 'host'), ctx.fresh(z3.IntSort(), 'port'))
  try:
    h.ip.run(Q, [BytesVal(data), addr], self_obj=h.receiver)
  except PyRaise as e:
    raised = e.exc
  ctx.cover('datagramReceived/ends')
  ctx.check('C11/datagramReceived/no_escape', z3.BoolVal(raised is None))
  ctx.check('C01/datagramReceived/frame', z3.BoolVal(set(h.receiver.fields.keys()) <= {'peerName'}))


# ---- pickle ---------------------------------------------------------------------------------------

def u_string_received(ctx, index):
  h = harness(ctx, index, PICKLE_R, 'C11/')
  ctx.assume(z3.Length(h.bl.fields['regex_list'].term) == 0)
  ctx.assume(z3.Length(h.wl.fields['regex_list'].term) == 0)
  payload = ctx.fresh(PyObjS, 'payload')
  unp = Namespace('unpickler', {'loads': External('unpickler.loads', h.log, raises='any',
                                                   ret=lambda ip, a, k: PyAny(payload))})
  h.receiver.fields['unpickler'] = unp
  h.ip.module_bindings[P]['pickle'] = Namespace('pickle', {'UnpicklingError': ExcClass('pickle.UnpicklingError')})
  Q = PICKLE_R + '.stringReceived'

  def inv(fr):
    return [('true', z3.BoolVal(True))]

  def havoc(fr):
    h.log.clear()

  def step(fr):
    ctx.cover('pickle/entry_done')
    seq = fr.ghost['seq0']
    k = fr.loop_k[0] - 1
    e = seq.term[k]
    evs = dispatched(h)
    a, b = FST(SND(e)), SND(SND(e))
    shape = z3.And(IS_PAIR(e), IS_PAIR(SND(e)), IS_STR(FST(e)), OBJ_FLOAT_OK(a), OBJ_FLOAT_OK(b))
    # positional: the pair is (timestamp, value) whatever the local variables are called
    wf = z3.And(shape, OBJ_FLOAT_KIND(a) == 0, OBJ_FLOAT_VAL(a) >= 0, OBJ_FLOAT_KIND(b) != 1)
    if ctx.branch(wf, 'entry wellformed'):
      ctx.cover('pickle/wellformed_entry')
      for pre in ('C01', 'C11'):
        check_dispatch(ctx, h, pre + '/stringReceived/entry', evs, AS_ATOM(FST(e)),
                       (OBJ_FLOAT_KIND(a), OBJ_FLOAT_VAL(a)), (OBJ_FLOAT_KIND(b), OBJ_FLOAT_VAL(b)))
    else:
      malformed = z3.Or(z3.Not(shape), OBJ_FLOAT_KIND(a) != 0, OBJ_FLOAT_KIND(b) == 1)
      ctx.check('C11/stringReceived/malformed_entry_is_skipped', z3.Implies(malformed, z3.BoolVal(len(evs) == 0)))
  h.ip.loops[(Q, 0)] = LoopSpec('for raw in ', inv, havoc, ghost_step=step,
                                locals_modified=[])
  raised = None
  try:
    h.ip.run(Q, [BytesVal(ctx.fresh(Bytes, 'frame'))], self_obj=h.receiver)
  except PyRaise as e:
    raised = e.exc
  ctx.cover('stringReceived/ends')
  ctx.check('C11/stringReceived/no_escape', z3.BoolVal(raised is None))
  ctx.check('C01/stringReceived/frame', z3.BoolVal(set(h.receiver.fields.keys()) <= {'peerName', 'unpickler'}))


# ---- metricReceived for every datapoint ---------------------------------------------------------

def u_metric_received_any(ctx, index):
  h = harness(ctx, index, PM.MR, 'C11/')
  metric = ctx.fresh(Atom, 'metric')
  ts = FloatVal.fresh(ctx, 'ts')
  val = FloatVal.fresh(ctx, 'val')
  raised = None
  try:
    h.ip.run(PM.MR + '.metricReceived', [metric, (ts, val)], self_obj=h.receiver)
  except PyRaise as e:
    raised = e.exc
  ctx.cover('metricReceived/ends')
  ctx.check('C11/metricReceived/no_escape', z3.BoolVal(raised is None))
  if raised is not None:
    return
  evs = dispatched(h)
  ctx.check('C11/metricReceived/non_finite_timestamp_is_skipped',
            z3.Implies(ts.kind != 0, z3.BoolVal(len(evs) == 0)))
  # C01: identity for the well-formed case without filters and without resolution
  wf = z3.And(z3.Length(h.bl.fields['regex_list'].term) == 0, z3.Length(h.wl.fields['regex_list'].term) == 0,
              h.res == 0, ts.kind == 0, ts.r >= 0, val.kind != 1)
  if ctx.branch(wf, 'wellformed'):
    ctx.cover('metricReceived/wellformed')
    check_dispatch(ctx, h, 'C01/metricReceived/identity', evs, metric, (ts.kind, ts.r), (val.kind, val.r))


# ---- events.Event.__call__ -----------------------------------------------------------------------

def u_event_call(ctx, index):
  from pyvc.interp import Interp
  from pyvc.models import EffectLog, TSort
  Handler = z3.DeclareSort('Handler')
  log = EffectLog()
  ip = Interp(ctx, index, bindings={'carbon.events': {}})
  ip.label_prefix = 'C01/'
  ip.ext['str_format'] = lambda ip2, fmt, args: 'text'
  handlers = SymSeq(TSort(Handler), ctx.fresh(z3.SeqSort(Handler), 'handlers'), 'handlers')
  ev = pyobj(index, 'carbon.events:Event', {'name': 'metricReceived', 'handlers': handlers}, name='event')

  def call_handler(ip2, f, args, kwargs):
    if ip2.ctx.choose(2, 'handler raises') == 1:
      log.add('handler', (f,) + tuple(args), 'raise')
      raise PyRaise(ExcVal(None, (), sym=SymExc('handler')))
    log.add('handler', (f,) + tuple(args), 'ret')
  ip.ext[('call', 'Handler')] = call_handler
  m = ctx.fresh(Atom, 'metric')
  dp = ctx.fresh(z3.RealSort(), 'dp')

  def inv(fr):
    return [('true', z3.BoolVal(True))]

  def havoc(fr):
    log.clear()

  def step(fr):
    ctx.cover('event/handler_done')
    k = fr.loop_k[0] - 1
    evs = log.of('handler')
    ok = len(evs) == 1
    ctx.check('C01/Event.__call__/each_handler_called_once', z3.BoolVal(ok))
    if ok:
      f, a0, a1 = evs[0][1]
      ctx.check('C01/Event.__call__/called_in_order_with_the_same_arguments',
                z3.And(f == handlers.term[k], a0 == m, a1 == dp))
  ip.loops[('carbon.events:Event.__call__', 0)] = LoopSpec('for handler in self.handlers', inv, havoc, ghost_step=step,
                                                          locals_modified=[])
  raised = None
  try:
    ip.run('carbon.events:Event.__call__', [m, dp], self_obj=ev)
  except PyRaise as e:
    raised = e.exc
  ctx.cover('event/ends')
  for pre in ('C01', 'C11'):
    ctx.check(pre + '/Event.__call__/handler_exceptions_are_contained', z3.BoolVal(raised is None))
