"""Abstract view of carbon.aggregator.buffers.MetricBuffer (C08).

interval_buffers : dict  interval(Int) -> IntervalBuffer(values: list of Real, inactive_since: None | Int)
is viewed as four arrays over Int plus a ghost cardinality:
     keys[I]      I is buffered
     vals[I]      the values received for interval I since the buffer was created (Seq[Real])
     inone[I]     inactive_since is None  (new data arrived since the last emission)
     ival[I]      inactive_since when it is not None
IntervalBuffer objects are proxies onto these arrays (reference semantics preserved).
"""
import z3

from pyvc.core import EngineError
from pyvc.models import Model, SymSeq, PyList, TInt, TReal, TSort, Ty
from pyvc.values import PyObj, PyRaise, ExcVal

I = z3.IntSort()
SeqR = z3.SeqSort(z3.RealSort())


class OptInt(Model):
  def __init__(self, none, val):
    self.none = none
    self.val = val

  def is_none(self, ip):
    return self.none

  def py___eq__(self, ip, other):
    from pyvc.values import znum, is_num
    if other is None:
      return self.none
    if is_num(other):
      return z3.And(z3.Not(self.none), self.val == znum(other))
    return False

  def py_compare(self, ip, op, other, reflected):
    import ast
    from pyvc.values import znum
    if ip.ctx.branch(self.none, 'compare with None'):
      raise PyRaise(ExcVal('TypeError', ("'<' not supported between 'NoneType' and 'int'",)))
    a, b = (znum(other), self.val) if reflected else (self.val, znum(other))
    return {ast.Lt: a < b, ast.LtE: a <= b, ast.Gt: a > b, ast.GtE: a >= b}[type(op)]


class IntervalMap(Model):
  def __init__(self, ctx, hint='ib'):
    B = z3.BoolSort()
    self.keys = ctx.fresh(z3.ArraySort(I, B), hint + '.keys')
    self.vals = ctx.fresh(z3.ArraySort(I, SeqR), hint + '.values')
    self.inone = ctx.fresh(z3.ArraySort(I, B), hint + '.inactive_is_none')
    self.ival = ctx.fresh(z3.ArraySort(I, I), hint + '.inactive_since')
    self.card = ctx.fresh(I, hint + '.card')
    self.name = hint
    self.emit_facts(ctx)

  def emit_facts(self, ctx):
    k = z3.Int('k?')
    w = ctx.fresh(I, self.name + '.wit')
    ctx.assume(self.card >= 0)
    ctx.assume(z3.ForAll([k], z3.Implies(z3.Select(self.keys, k), self.card >= 1)))
    ctx.assume(z3.Or(self.card == 0, z3.Select(self.keys, w)))

  def snapshot(self):
    s = object.__new__(IntervalMap)
    s.__dict__.update(self.__dict__)
    return s

  def havoc(self, ip, hint=None):
    ctx = ip.ctx
    h = hint or self.name
    B = z3.BoolSort()
    self.keys = ctx.fresh(z3.ArraySort(I, B), h + '.keys')
    self.vals = ctx.fresh(z3.ArraySort(I, SeqR), h + '.values')
    self.inone = ctx.fresh(z3.ArraySort(I, B), h + '.inactive_is_none')
    self.ival = ctx.fresh(z3.ArraySort(I, I), h + '.inactive_since')
    self.card = ctx.fresh(I, h + '.card')
    ip.note_write(self)
    self.emit_facts(ctx)

  # dict API
  def py___contains__(self, ip, k):
    return z3.Select(self.keys, TInt.enc(ip, k))

  def py___len__(self, ip):
    return self.card

  def py___bool__(self, ip):
    return self.card > 0

  def py___getitem__(self, ip, k):
    k = TInt.enc(ip, k)
    if not ip.ctx.branch(z3.Select(self.keys, k), 'interval buffered'):
      raise PyRaise(ExcVal('KeyError', (k,)))
    return BufProxy(self, k)

  def py_get(self, ip, k, default=None):
    k = TInt.enc(ip, k)
    if not ip.ctx.branch(z3.Select(self.keys, k), 'interval buffered'):
      return default
    return BufProxy(self, k)

  def py___setitem__(self, ip, k, obj):
    k = TInt.enc(ip, k)
    if not (isinstance(obj, PyObj) and obj.cls is not None and obj.cls.name == 'IntervalBuffer'):
      raise EngineError("interval_buffers[..] = %r" % (obj,))
    f = obj.fields
    vals = f.get('values')
    if isinstance(vals, PyList) and not vals.items:
      vterm = z3.Empty(SeqR)
    elif isinstance(vals, SymSeq):
      vterm = vals.term
    else:
      raise EngineError("IntervalBuffer.values = %r" % (vals,))
    ins = f.get('inactive_since')
    present = z3.Select(self.keys, k)
    nc = ip.ctx.fresh(I, self.name + '.card')
    ip.ctx.assume(nc == self.card + z3.If(present, 0, 1))
    self.card = nc
    self.keys = z3.Store(self.keys, k, z3.BoolVal(True))
    self.vals = z3.Store(self.vals, k, vterm)
    if ins is None:
      self.inone = z3.Store(self.inone, k, z3.BoolVal(True))
    else:
      self.inone = z3.Store(self.inone, k, z3.BoolVal(False))
      self.ival = z3.Store(self.ival, k, TInt.enc(ip, ins))
    self.created_interval_field = f.get('interval')
    ip.note_write(self)
    self.emit_facts(ip.ctx)
    # from now on the object is the stored one: its fields live in the map
    obj.fields = FieldView(self, k)

  def py___delitem__(self, ip, k):
    k = TInt.enc(ip, k)
    if not ip.ctx.branch(z3.Select(self.keys, k), 'interval buffered'):
      raise PyRaise(ExcVal('KeyError', (k,)))
    nc = ip.ctx.fresh(I, self.name + '.card')
    ip.ctx.assume(nc == self.card - 1)
    self.card = nc
    self.keys = z3.Store(self.keys, k, z3.BoolVal(False))
    ip.note_write(self)
    self.emit_facts(ip.ctx)

  def keys_seq(self, ip, hint='intervals'):
    s = SymSeq.fresh(ip, TInt, hint)
    idx = z3.Function(ip.ctx.fresh_name('iidx'), I, I)
    i, j, k = z3.Int('i?'), z3.Int('j?'), z3.Int('k?')
    n = s.length()
    keys = self.keys
    for f in [n == self.card,
              z3.ForAll([i], z3.Implies(z3.And(0 <= i, i < n), z3.Select(keys, s.term[i]))),
              z3.ForAll([i, j], z3.Implies(z3.And(0 <= i, i < j, j < n), s.term[i] != s.term[j])),
              z3.ForAll([k], z3.Implies(z3.Select(keys, k), z3.And(0 <= idx(k), idx(k) < n, s.term[idx(k)] == k))),
              z3.ForAll([i], z3.Implies(z3.And(0 <= i, i < n), idx(s.term[i]) == i))]:
      ip.ctx.assume(f)

    def sub_facts(term):
      nn = z3.Length(term)
      return [z3.ForAll([i], z3.Implies(z3.And(0 <= i, i < nn), z3.Select(keys, term[i]))),
              z3.ForAll([i, j], z3.Implies(z3.And(0 <= i, i < j, j < nn), term[i] != term[j]))]
    s.sub_facts = [sub_facts]

    def facts(term):
      nn = z3.Length(term)
      return [nn == self.card, z3.ForAll([i], z3.Implies(z3.And(0 <= i, i < nn), z3.Select(keys, term[i]))),
              z3.ForAll([i, j], z3.Implies(z3.And(0 <= i, i < j, j < nn), term[i] != term[j]))]
    s.perm_facts = [facts]
    s.idx_fn = idx
    return s

  def as_symseq(self, ip):
    return self.keys_seq(ip)

  def py_values(self, ip):
    return BufValues(self)

  def py_keys(self, ip):
    return self.keys_seq(ip)


class BufValues(Model):
  def __init__(self, m):
    self.m = m

  def as_symseq(self, ip):
    ks = self.m.keys_seq(ip, 'buffers')
    s = SymSeq(TBufRef(self.m), ks.term, 'buffers')
    s.birth = ip.ctx.counter
    s.idx_fn = ks.idx_fn
    return s


class TBufRef(Ty):
  sort = I

  def __init__(self, m):
    self.m = m

  def dec(self, term):
    return BufProxy(self.m, term)

  def enc(self, ip, v):
    return v.key if isinstance(v, BufProxy) else v


class FieldView(object):
  """fields of a stored IntervalBuffer, living in the map"""
  def __init__(self, m, k):
    self.m = m
    self.k = k

  def __contains__(self, name):
    return name in ('interval', 'values', 'inactive_since')

  def __getitem__(self, name):
    m, k = self.m, self.k
    if name == 'interval':
      return k
    if name == 'values':
      return ValuesProxy(m, k)
    if name == 'inactive_since':
      return OptInt(z3.Select(m.inone, k), z3.Select(m.ival, k))
    raise KeyError(name)

  def get(self, name, default=None):
    return self[name] if name in self else default

  def __setitem__(self, name, value):
    m, k = self.m, self.k
    if name == 'inactive_since':
      if value is None:
        m.inone = z3.Store(m.inone, k, z3.BoolVal(True))
      else:
        from pyvc.values import znum
        m.inone = z3.Store(m.inone, k, z3.BoolVal(False))
        m.ival = z3.Store(m.ival, k, znum(value))
      return
    if name == 'values':
      if isinstance(value, PyList) and not value.items:
        m.vals = z3.Store(m.vals, k, z3.Empty(SeqR))
        return
      if isinstance(value, (SymSeq, ValuesProxy)):
        m.vals = z3.Store(m.vals, k, value.term if isinstance(value, SymSeq) else value.seq())
        return
    raise EngineError("IntervalBuffer.%s = %r" % (name, value))

  def keys(self):
    return ['interval', 'values', 'inactive_since']


class BufProxy(PyObj):
  def __init__(self, m, k):
    from pyvc.source import SourceIndex
    PyObj.__init__(self, BufProxy.cls_info, FieldView(m, k), name='IntervalBuffer')
    self.key = k
    self.birth = 10 ** 12       # a view, not an allocation: never subject to loop frame checks

  cls_info = None


class ValuesProxy(Model):
  def __init__(self, m, k):
    self.m = m
    self.k = k

  def seq(self):
    return z3.Select(self.m.vals, self.k)

  def py_append(self, ip, v):
    old = self.seq()
    e = TReal.enc(ip, v)
    new = z3.Concat(old, z3.Unit(e))
    self.m.vals = z3.Store(self.m.vals, self.k, new)
    ip.note_write(self.m)

  def py___len__(self, ip):
    return z3.Length(self.seq())

  def py___bool__(self, ip):
    return z3.Length(self.seq()) > 0

  def as_symseq(self, ip):
    return SymSeq(TReal, self.seq(), 'values')
