"""Abstract view of carbon.hashing.ConsistentHashRing and harness (C05, C06).

View:  ring  : Seq[(pos: Int, node: Node)]      Node = (server: Atom, instance: Atom)
       nodes : Set[Node]
I_ring: ring strictly sorted by pos (positions unique)  /\\  ring_len == |ring|  /\\
        nodes_len == |nodes|  /\\  every entry's node is in nodes  /\\  every node has at least two
        entries (ghost witnesses e1(n) != e2(n); replica_count >= 2)  /\\  (nodes empty <=> ring empty)
"""
import z3

from pyvc.core import EngineError
from pyvc.interp import Interp, Spec, LoopSpec
from pyvc.models import (Namespace, SymSeq, SymSet, SymMap, TInt, TAtom, TTuple, TSort, PyList)
from pyvc.values import Atom, Model, PyObj, Builtin, PyRaise, ExcVal
from .common import pyobj

TNode = TTuple(TAtom, TAtom)
Node = TNode.sort
TEntry = TTuple(TInt, TNode)
Entry = TEntry.sort
E_POS, E_NODE = TEntry.acc
N_SERVER, N_INSTANCE = TNode.acc
POS = z3.Function('ring_position', Atom, z3.IntSort())     # compute_ring_position(key) (pinned in C06)
H = 'carbon.hashing'
CHR = H + ':ConsistentHashRing'


def set_lemmas(ctx, a, b):
  """theorems about two finite sets given as (membership array, cardinality):
  A subset B ==> |A| <= |B| ;  A subset B /\\ |A| >= |B| ==> A == B ;  A == B ==> |A| == |B|"""
  n = z3.Const('n?' + str(a.ty.sort), a.ty.sort)
  sub = z3.ForAll([n], z3.Implies(z3.Select(a.mem, n), z3.Select(b.mem, n)))
  sup = z3.ForAll([n], z3.Implies(z3.Select(b.mem, n), z3.Select(a.mem, n)))
  ctx.assume(z3.Implies(sub, a.card <= b.card))
  ctx.assume(z3.Implies(z3.And(sub, a.card >= b.card), sup))
  ctx.assume(z3.Implies(z3.And(sub, sup), a.card == b.card))


class Bisect(object):
  """A-LIB: bisect_left(a, x) on a list sorted by its first component, where x = (p, ()) compares
  below every entry with the same position: the result is the first index whose position >= p."""
  @staticmethod
  def bisect_left(ip, args, kw):
    ring, entry = args
    if not (isinstance(ring, SymSeq) and isinstance(entry, tuple) and len(entry) == 2 and entry[1] == ()):
      raise EngineError("bisect_left(%r, %r)" % (ring, entry))
    p = entry[0]
    i = ip.ctx.fresh(z3.IntSort(), 'bisect')
    j = z3.Int('j?')
    n = ring.length()
    ip.ctx.assume(z3.And(0 <= i, i <= n))
    ip.ctx.assume(z3.ForAll([j], z3.Implies(z3.And(0 <= j, j < i), E_POS(ring.term[j]) < p)))
    ip.ctx.assume(z3.ForAll([j], z3.Implies(z3.And(i <= j, j < n), E_POS(ring.term[j]) >= p)))
    return i


class RingHarness(object):
  def __init__(self, ctx, index, specs=None):
    self.ctx = ctx
    self.index = index
    self.ring = SymSeq(TEntry, ctx.fresh(z3.SeqSort(Entry), 'ring'), 'ring')
    self.nodes = SymSet.fresh(ctx_ip(ctx), TNode, 'nodes')
    self.ring_len = ctx.fresh(z3.IntSort(), 'ring_len')
    self.nodes_len = ctx.fresh(z3.IntSort(), 'nodes_len')
    self.replica_count = ctx.fresh(z3.IntSort(), 'replica_count')
    self.hash_type = ctx.fresh(Atom, 'hash_type')
    self.obj = pyobj(index, CHR, {'ring': self.ring, 'ring_len': self.ring_len, 'nodes': self.nodes,
                                  'nodes_len': self.nodes_len, 'replica_count': self.replica_count,
                                  'hash_type': self.hash_type}, name='ring')
    self.e1 = z3.Function('e1', Node, z3.IntSort())
    self.e2 = z3.Function('e2', Node, z3.IntSort())
    # for a search key (p, ()) -- smaller than every entry (p, node) -- bisect_right, bisect and
    # bisect_left all return the first index whose position is >= p
    bis = Namespace('bisect', {n: Builtin(n, Bisect.bisect_left) for n in ('bisect_left', 'bisect_right', 'bisect')})
    self.ip = Interp(ctx, index, bindings={H: {'bisect': bis}}, specs=specs)
    self.ip.ext['new_set'] = lambda ip: SymSet.empty(ip, TNode, 'local_nodes')
    self.ip.ext[('gen_out', CHR + '.get_nodes')] = lambda ip: SymSeq.empty(TNode, 'out')
    self.ip.specs[CHR + '.compute_ring_position'] = Spec(CHR + '.compute_ring_position',
                                                         lambda ip, args, kw: POS(TAtom.enc(ip, args[1])))

  def I_ring(self):
    r = self.ring.term
    i, j = z3.Int('i?'), z3.Int('j?')
    n = z3.Const('n?', Node)
    L = z3.Length(r)
    return [
      ('ring_len', self.obj.fields['ring_len'] == L),
      ('nodes_len', self.obj.fields['nodes_len'] == self.nodes.card),
      ('sorted_unique', z3.ForAll([i, j], z3.Implies(z3.And(0 <= i, i < j, j < L), E_POS(r[i]) < E_POS(r[j])))),
      ('entries_are_nodes', z3.ForAll([i], z3.Implies(z3.And(0 <= i, i < L), z3.Select(self.nodes.mem, E_NODE(r[i]))))),
      ('two_entries_each', z3.ForAll([n], z3.Implies(
        z3.Select(self.nodes.mem, n),
        z3.And(0 <= self.e1(n), self.e1(n) < L, 0 <= self.e2(n), self.e2(n) < L, self.e1(n) != self.e2(n),
               E_NODE(r[self.e1(n)]) == n, E_NODE(r[self.e2(n)]) == n)))),
    ]

  def assume_I(self):
    for _, f in self.I_ring():
      self.ctx.assume(f)


class _IP(object):
  """minimal stand-in so that models can be created before the Interp exists"""
  def __init__(self, ctx):
    self.ctx = ctx

  def note_write(self, *a):
    pass


def ctx_ip(ctx):
  return _IP(ctx)


def install_get_nodes_loops(h, prefix='C05/'):
  ip = h.ip
  ip.label_prefix = prefix
  Q = CHR + '.get_nodes'

  # loop 0: `for node in self.nodes: yield node` (single-node special case)
  def inv0(fr):
    k = fr.loop_k[0]
    seq = fr.ghost['seq0']
    out = fr.gen_out
    return [('out_is_prefix', out.term == z3.SubSeq(seq.term, 0, k))]

  def havoc0(fr):
    fr.gen_out.havoc(ip, 'out')
  ip.loops[(Q, 0)] = LoopSpec('for node in self.nodes', inv0, havoc0, locals_modified=[])

  # loop 1: the walk around the ring
  def visited(fr, j):
    i0 = fr.ghost['i0']
    idx = fr['index']
    return z3.If(idx >= i0, z3.And(i0 <= j, j < idx), z3.Or(j >= i0, j < idx))

  def ghost_pre(fr):
    fr.ghost['i0'] = fr['index']
    # ghost: where[n] = index in `out` at which node n was yielded
    fr.ghost['where'] = z3.K(Node, z3.IntVal(0))

  def inv1(fr):
    r = h.ring.term
    L = z3.Length(r)
    j = z3.Int('j?')
    a, b = z3.Int('a?'), z3.Int('b?')
    n = z3.Const('n?', Node)
    local = fr['nodes']
    out = fr.gen_out
    i0 = fr.ghost['i0']
    idx = fr['index']
    where = fr.ghost['where']
    return [
      ('index_in_range', z3.And(0 <= idx, idx < L, 0 <= i0, i0 < L)),
      ('last_index', fr['last_index'] == z3.If(i0 == 0, L - 1, i0 - 1)),
      ('visited_nodes_collected', z3.ForAll([j], z3.Implies(z3.And(0 <= j, j < L, visited(fr, j)),
                                                            z3.Select(local.mem, E_NODE(r[j]))))),
      ('local_subset_nodes', z3.ForAll([n], z3.Implies(z3.Select(local.mem, n), z3.Select(h.nodes.mem, n)))),
      ('out_members_are_local', z3.ForAll([a], z3.Implies(z3.And(0 <= a, a < out.length()),
                                                          z3.Select(local.mem, out.term[a])))),
      ('local_nodes_are_in_out', z3.ForAll([n], z3.Implies(
        z3.Select(local.mem, n),
        z3.And(0 <= z3.Select(where, n), z3.Select(where, n) < out.length(), out.term[z3.Select(where, n)] == n)))),
      ('out_distinct', z3.ForAll([a, b], z3.Implies(z3.And(0 <= a, a < b, b < out.length()), out.term[a] != out.term[b]))),
      ('counts', z3.And(fr['nodes_len'] == local.card, out.length() == local.card)),
    ]

  def havoc1(fr):
    fr.locals['index'] = ip.ctx.fresh(z3.IntSort(), 'index')
    fr.locals['nodes_len'] = ip.ctx.fresh(z3.IntSort(), 'nodes_len_local')
    fr['nodes'].havoc(ip, 'local_nodes')
    fr.gen_out.havoc(ip, 'out')
    fr.ghost['where'] = ip.ctx.fresh(z3.ArraySort(Node, z3.IntSort()), 'where')
    fr.ghost['out_at_head'] = fr.gen_out.term
    h.last_where = fr.ghost['where']
    set_lemmas(ip.ctx, fr['nodes'], h.nodes)

  def ghost_step(fr):
    out = fr.gen_out.term
    before = fr.ghost['out_at_head']
    n0 = z3.Length(before)
    fr.ghost['where'] = z3.If(z3.Length(out) > n0, z3.Store(fr.ghost['where'], out[n0], n0), fr.ghost['where'])
  ip.loops[(Q, 1)] = LoopSpec('while nodes_len < ', inv1, havoc1,
                              ghost_pre=ghost_pre, ghost_step=ghost_step,
                              locals_modified=['index', 'nodes_len'])
  h.where_of = lambda fr: fr.ghost.get('where')


def get_nodes_post(h, out, where):
  """C05: the sequence yielded for a key is duplicate-free, consists of configured nodes only and
  contains every configured node (witness: where[n] is n's index), so its length is |nodes|."""
  a, b = z3.Int('a?'), z3.Int('b?')
  n = z3.Const('n?', Node)
  return [
    ('distinct', z3.ForAll([a, b], z3.Implies(z3.And(0 <= a, a < b, b < out.length()), out.term[a] != out.term[b]))),
    ('member', z3.ForAll([a], z3.Implies(z3.And(0 <= a, a < out.length()), z3.Select(h.nodes.mem, out.term[a])))),
    ('complete', z3.ForAll([n], z3.Implies(z3.Select(h.nodes.mem, n),
                                           z3.And(0 <= z3.Select(where, n), z3.Select(where, n) < out.length(),
                                                  out.term[z3.Select(where, n)] == n)))),
    ('length', out.length() == h.nodes.card),
  ]
