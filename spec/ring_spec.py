"""Pinned specification of the published carbon_ch / fnv1a_ch consistent-hash ring, written from
the algorithm as shipped in graphite-web (webapp/graphite/render/hashing.py) -- NOT from
carbon's source.  Used natively by replay/c06_ring.py as the reference the real
carbon.hashing.ConsistentHashRing is compared with, and its constants are repeated in
contracts/c06.py (FNV offset basis 0x811c9dc5, prime 0x01000193, 16-bit fold, md5 first 4 hex
digits, replica keys "%d-%s" % (i, instance) resp. "%s:%d" % ((server, instance), i), 100
replicas, bump-by-one on an occupied position, insertion in list order, lookup by bisect_left
with wrap-around)."""
import bisect
from hashlib import md5

FNV_OFFSET = 0x811c9dc5
FNV_PRIME = 0x01000193
REPLICAS = 100


def fnv32a(data):
  h = FNV_OFFSET
  for b in bytearray(data):
    h = ((h ^ b) * FNV_PRIME) % (1 << 32)
  return h


def position(key, hash_type):
  if hash_type == 'fnv1a_ch':
    big = fnv32a(key.encode('utf-8'))
    return (big >> 16) ^ (big & 0xffff)
  return int(md5(key.encode('utf-8')).hexdigest()[:4], 16)


def replica_key(node, i, hash_type):
  if hash_type == 'fnv1a_ch':
    return "%d-%s" % (i, node[1])
  return "%s:%d" % (node, i)


def build_ring(nodes, hash_type, replicas=REPLICAS):
  ring = []
  for node in nodes:
    for i in range(replicas):
      p = position(replica_key(node, i, hash_type), hash_type)
      taken = set(e[0] for e in ring)
      while p in taken:
        p += 1
      bisect.insort(ring, (p, node))
  return ring


def add_node(ring, node, hash_type, replicas=REPLICAS):
  """the published add_node on an existing ring (in place)"""
  for i in range(replicas):
    p = position(replica_key(node, i, hash_type), hash_type)
    taken = set(e[0] for e in ring)
    while p in taken:
      p += 1
    bisect.insort(ring, (p, node))
  return ring


def remove_node(ring, node):
  """the published remove_node: every entry of the node goes, wherever it was bumped to"""
  ring[:] = [e for e in ring if e[1] != node]
  return ring


def lookup_all(ring, key, hash_type, n_nodes):
  """preference order of nodes for key: nodes in order of first occurrence walking the ring from
  the first entry whose position is >= position(key), wrapping around"""
  if not ring:
    return []
  p = position(key, hash_type)
  start = bisect.bisect_left(ring, (p, ())) % len(ring)
  out = []
  for k in range(len(ring)):
    node = ring[(start + k) % len(ring)][1]
    if node not in out:
      out.append(node)
      if len(out) == n_nodes:
        break
  return out


def lookup_at(ring, p):
  """node owning ring position p (0..65535)"""
  if not ring:
    return None
  return ring[bisect.bisect_left(ring, (p, ())) % len(ring)][1]
