#!/bin/sh
# usage: tools/try_seed.sh <patch.diff> <Cxx> [Cyy...]  -- run checks against a scratch copy of /repo/lib with the patch applied
P=$1; shift
T=$(mktemp -d /tmp/pyvc_seed_XXXX)
cp -r /repo/lib $T/lib
if ! patch -p1 -s -d $T -i "$P"; then echo "patch does not apply"; rm -rf $T; exit 9; fi
for c in "$@"; do
  PYVC_REPO=$T timeout 1500 /verif/check $c 2>&1 | grep -E "^(property|refuted|VIOLATION|UNDECIDED|CHECKER|KNOWN)" | cut -c1-260
  echo "exit($c)=$?"
done
rm -rf $T
