#!/bin/sh
# usage: tools/confirm_seed.sh Cxx-name /tmp/wt_Cxx /tmp/seed_Cxx   (worktree has the change applied)
# (no `git stash`: the stash is shared by all worktrees of a repository)
ID=$1; WT=$2; SD=$3
cd $WT || exit 9
git diff > /tmp/confirm_$ID.diff
cmp -s /tmp/confirm_$ID.diff $SD/patch.diff || echo "note: worktree diff differs from $SD/patch.diff"
T=$(/venv/bin/python -m pytest -q -p no:cacheprovider --timeout=900 --continue-on-collection-errors 2>&1 | tail -1)
PYTHONPATH=$WT/lib timeout 900 /venv/bin/python $SD/demo.py >/tmp/demo_with_$ID.out 2>&1; W=$?
git apply -R /tmp/confirm_$ID.diff || exit 8
PYTHONPATH=$WT/lib timeout 900 /venv/bin/python $SD/demo.py >/tmp/demo_without_$ID.out 2>&1; WO=$?
git apply /tmp/confirm_$ID.diff
echo "$ID tests: $T | demo with change exit=$W | without exit=$WO"
echo "$T" | grep -q "179 passed" && [ $W -ne 0 ] && [ $WO -eq 0 ] && echo CONFIRMED || echo NOT-CONFIRMED
rm -f /tmp/confirm_$ID.diff /tmp/demo_with_$ID.out /tmp/demo_without_$ID.out
