#!/bin/sh
# usage: tools/confirm_seed.sh Cxx-name /tmp/wt_Cxx /tmp/seed_Cxx   (worktree has the change applied)
ID=$1; WT=$2; SD=$3
cd $WT || exit 9
T=$(/venv/bin/python -m pytest -q -p no:cacheprovider --timeout=900 --continue-on-collection-errors 2>&1 | tail -1)
PYTHONPATH=$WT/lib timeout 900 /venv/bin/python $SD/demo.py >/tmp/demo_with.out 2>&1; W=$?
git stash -q
PYTHONPATH=$WT/lib timeout 900 /venv/bin/python $SD/demo.py >/tmp/demo_without.out 2>&1; WO=$?
git stash pop -q
echo "$ID tests: $T | demo with change exit=$W | without exit=$WO"
echo "$T" | grep -q "179 passed" && [ $W -ne 0 ] && [ $WO -eq 0 ] && echo CONFIRMED || echo NOT-CONFIRMED
