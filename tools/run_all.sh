#!/bin/sh
# run every claimed check (quick tier by default) against /repo, 4 at a time; prints one line each
cd "$(dirname "$0")/.."
TIER=${1:-quick}
python3 - "$TIER" <<'PY'
import json, subprocess, sys, concurrent.futures as cf
tier = sys.argv[1]
man = json.load(open('MANIFEST.json'))
def run(c):
  cmd = c['quick_cmd'] if tier == 'quick' else c.get('thorough_cmd', c['quick_cmd'])
  p = subprocess.run(cmd, shell=True, capture_output=True, text=True)
  last = [l for l in p.stdout.splitlines() if l.startswith(('property', 'VIOLATION', 'KNOWN', 'UNDECIDED', 'CHECKER'))]
  return c['property_id'], p.returncode, last
with cf.ThreadPoolExecutor(int(__import__("os").environ.get("RUN_ALL_PAR", "4"))) as ex:
  only = __import__('os').environ.get('RUN_ALL_ONLY', '').split()
  for pid, rc, last in ex.map(run, [c for c in man['checks'] if not only or c['property_id'] in only]):
    print(pid, 'exit', rc, '|', ' | '.join(last)[:300])
PY
