#!/usr/bin/env python3
"""Regenerate MANIFEST.json from the table below (keeps it valid and in one place)."""
import json
import os

HERE = os.path.dirname(os.path.dirname(os.path.abspath(__file__)))

TECH = "contract-based deductive verification: VCs generated from the AST of the real functions against sidecar contracts, discharged by z3 (cvc5 on unknowns)"

CLAIMED = {
  'C01': dict(
    text="lineReceived, datagramReceived, stringReceived, metricReceived and Event.__call__ are verified from source: a well-formed line / datagram line / pickle entry yields exactly one dispatch with the decoded name and (float(timestamp), float(value)) (positional for pickle), the handler keeps no state between frames, every event handler is called once in order; delimiter and base classes are pinned syntactically. Independence of TCP segmentation is Twisted's (assumed contract), validated by an exhaustive bounded stand-in.",
    note="A-TWISTED-FRAMING (bounded: all segmentations of short streams on the real protocol classes, labelled bounded, not counted as proved); string/pickle library behaviour through raise/return contracts (A-STR, A-PICKLE) with the line's fields as uninterpreted functions of the text; A-ENGINE, A-SMT",
    tech=TECH + "; per-frame/per-item effect-log contracts; bounded stand-in only for the Twisted framing dependency"),
  'C02': dict(
    text="store, pop, drain_metric, get_datapoints and the cache-query handlers are verified from source against whole-view contracts (data' = data[m][ts:=v] / data \\ {m}, result = strictly sorted items) and the lock invariant size == sum of held datapoints, for every state and input; interleavings with the other thread are covered by rely/guarantee (havoc under the proved guarantee of store between atomic steps), not by sampling schedules.",
    note="A-GIL (atomic dict ops, Lock is a mutex), A-THREADS (one writer thread), container models of dict/defaultdict/deque/sorted (A-LIB), strategy.choose_item through its interface contract, the history induction accepted = held + drained is a meta-step over the per-operation contracts; home-made VC generator (A-ENGINE), z3/cvc5 (A-SMT)",
    tech=TECH + "; lock invariant + rely/guarantee for the two threads"),
  'C03': dict(
    text="One iteration of the writer loop (writeCachedDataPoints, all four loops cut by invariants) is verified from source from an arbitrary state with a fully nondeterministic backend (exists/create/write may return anything or raise anything, no bound on faults): a drained batch leads to exactly one write for its own metric carrying exactly its points after exists() said yes and is then counted as committed, or to an errors count + log.err when write raises, or to a droppedCreates count when the file is missing; nothing is written twice or without a batch; an exists() failure escapes to writeForever, which logs it and backs off.",
    note="A-BACKEND (backend calls are arbitrary and do not touch carbon's state), batch ownership from C02's pop contract, drain_metric and TokenBucket through their contracts, instrumentation/tagQueue/log do not raise; per-iteration contract + 'each batch is taken by exactly one iteration' gives the per-pass statement (meta-step); A-ENGINE, A-SMT",
    tech=TECH + "; effect-log (ghost) contract per loop iteration, nondeterministic externals"),
  'C04': dict(
    text="writeForever is verified from source under a rely that lets the storing thread act and the stop arrive between any two atomic steps of the writer (including inside time.sleep): on return nothing accepted before the stop is left behind unless the final pass was cut short by a logged backend failure; shutdownModifyUpdateSpeed's postcondition and the shutdown wiring are obligations.",
    note="A-TWISTED-DEFER (running turns False once, the reactor thread is quiescent afterwards, before-shutdown triggers run first), contract of writeCachedDataPoints (normal return = nothing eligible left) from the iteration unit; that 'nothing eligible' means 'nothing cached' at lag 0 is discharged for the three queue generators (clauses shared with C17: None only for timesorted with a lag set and nothing older than the lag), for max / bucketmax / random it is the C17 choose_item contract; ghost flags running/dirty abstract the cache contents; A-ENGINE, A-SMT",
    tech=TECH + "; ghost state + rely/guarantee over the stop event"),
  'C05': dict(
    text="ConsistentHashRing.get_nodes (ring walk with a quantified loop invariant and the pigeonhole exit argument), ConsistentHashingRouter.getDestinations (both branches, loop contracts with ghost first-occurrence witnesses), FastHashRing.get_nodes and _update_nodes are verified from source for every ring, node set, key, replication factor and DIVERSE_REPLICAS value: the result is duplicate-free, consists only of configured destinations with their configured port, has exactly min(RF, eligible) elements and no two share a server when diverse.",
    note="bisect_left / sorted / set and list models and three finite-set cardinality lemmas are assumed (A-LIB); the ring position is an uninterpreted function of the key (pinned in C06), which is also what makes the result a function of (ring, key); I_ring / I_router / I_fast are preconditions established by add/remove (C06); aggregated routers are C16; A-ENGINE, A-SMT",
    tech=TECH + "; inductive loop invariants over a symbolic ring, ghost witnesses"),
  'C06': dict(
    text="The hash functions are verified from source against a specification pinned in the contract (FNV-1a loop invariant over 32-bit vectors with the published offset basis and prime; carbonHash composes fold / md5-prefix exactly as the published algorithm); get_node is proved to be the bisect lookup with wrap-around; get_nodes is proved to yield the nodes in order of their first entry along the cyclic walk (the carrying contract of minimal disruption); remove_node is proved to delete exactly the node's entries and keep all others in order; minimal disruption is a lemma over these contracts. Ring construction (add_node), compatibility with the published algorithm over ALL 65536 positions, and history independence are decided by a bounded native comparison with an independent specification; history independence is a recorded known finding when replica positions collide.",
    note="add_node is under a discharged per-call contract (bisect.insort's library contract assumed); that __init__'s loop of add_node calls, and whole join / leave histories, yield the published ring is bounded (comparison with /verif/spec/ring_spec.py on the same history, labelled bounded); md5, UTF-8, int(.,16), bisect_left and comprehension filtering are assumed library contracts; known finding D10 (collision-bumped entries survive removal) with native witness; A-ENGINE, A-SMT",
    tech=TECH + "; bit-vector loop invariant, pinned spec functions, lemma over contracts; bounded native comparison for ring construction and history independence"),
  'C07': dict(
    text="Every queue operation of the relay client (enqueue, enqueue_from_left, takeSomeFromQueue with a loop invariant, sendDatapoint, sendHighPriorityDatapoint, scheduleSend, the protocol's sendQueued / sendDatapointsNow, checkQueue, the two queue callbacks, destinationDown with a per-item re-injection contract) is verified from source against a whole-view contract over the queue as a sequence: arrivals append (self-metrics prepend), a send writes exactly the prefix of length min(batch, |queue|) and leaves the rest, a drop happens only without room below the hard limit and is counted, the limit is never exceeded by normal items, a removed destination re-injects every item in order; no AlreadyCalledError can occur.",
    note="A-TWISTED-DEFER (Deferred/callLater semantics modelled); single reactor thread; the history statement (accepted == written ++ queue) is the induction over events of the per-operation view equations (meta-step); re-injection does not re-enter the drained queue (router no longer returns the destination); CarbonClientManager.sendDatapoint / getFactories / getDestinations are under a discharged contract (pooled replicas off: the datapoint goes once to the factory of each destination the router names on this call, or to the no-destination buffer); startClient / stopClient and FakeClientFactory are bounded only (replay/manager_native.py: the real manager, router and pipeline over event sequences), SSL set-up not under contract; connection-quality resets are under contract with an arbitrary monitor verdict; A-ENGINE, A-SMT",
    tech=TECH + "; sequence-view contracts per operation, loop invariant for the batching generator"),
  'C08': dict(
    text="MetricBuffer.input is verified to append the value to the buffer of the aligned interval and nothing else; compute_value (both loops under invariants over a snapshot) to emit exactly once, for exactly the intervals that received data since their last emission, the uninterpreted rule function of exactly the values buffered for that interval, to delete only buffers that were already emitted (age rule, then the size trim that leaves at most MAX_AGGREGATION_INTERVALS + 2), and to release an idle series; AggregationProcessor.process to feed each matching rule's buffer exactly once with the same datapoint and to forward the unchanged datapoint exactly when FORWARD_ALL is on and no rule maps the metric to itself; get_aggregate_metric to return the uncached result whatever the cache holds (memo invariant, expiring entries included); avg / count against their definitions. The pattern-language clause is decided only by a bounded stand-in on the real build_regex.",
    note="integer timestamps; aggregation function, regex match and template interpolation uninterpreted; the pattern clause (Python re semantics) is bounded, labelled bounded, not counted as proved; percentile only range-checked; LoopingCall scheduling, RuleManager file parsing, run_pipeline not under contract; D12 (trailing newline) found by the stand-in and fixed; A-CLOCK; A-ENGINE, A-SMT",
    tech=TECH + "; loop invariants over a snapshot of the interval map, effect-log contracts per iteration; bounded native enumeration for the regex clause"),
  'C09': dict(
    text="Back-pressure release is verified as a safety invariant at every handler exit / atomic step. Cache side (two threads, rely/guarantee): cacheTooFull implies size >= low watermark outside the window between pop's lock release and the return of _check_available_space; store only raises the flag at >= MAX, pop is always followed by the check, the check restores the invariant under interference. Relay side: queueFull.called implies |queue| >= low watermark and queueHasSpace is armed, preserved by sendDatapoint, sendQueued, resumeProducing, the callbacks; destinationUp releases the pauses held for a destination outside the router (last one gone, or dropped while full). Receivers: connectionMade pauses iff receivers are paused and registers for both events; wiring in service.py/events.py is a syntactic obligation. Two genuine defects are recorded as known findings with native witnesses (D7, D8).",
    note="liveness is reduced to 'an outstanding pause has its release condition armed'; that the writer keeps draining / timers fire is assumed; A-GIL, A-THREADS for the cache side, A-TWISTED-DEFER for the relay side; D7 (resume fired by the writer thread inside connectionMade) and D8 (destination dropped while full) are known findings, their obligations are excluded from the discharged count while the native witnesses still fail; A-ENGINE, A-SMT",
    tech=TECH + "; invariants at handler exits, rely/guarantee for the cache side"),
  'C10': dict(
    text="_MetricCache.store is verified from source for every cache state, datapoint and limit setting: size never exceeds CACHE_SIZE_HARD_MAX, a refusal fires cacheOverflow exactly once and leaves the whole view (keys, contents, new_metrics, size) unchanged, a duplicate timestamp is updated even when full. conf.py's derivation of the limits and events.py's handlers are checked syntactically.",
    note="store's body is one lock region (A-GIL); MAX_CACHE_SIZE is +inf or a real >= 1; events modelled by their default handlers; bucketmax store() is covered in C17; A-ENGINE, A-SMT",
    tech=TECH),
  'C11': dict(
    text="Exception-freedom of the three receivers and of metricReceived is verified from source for every argument value (arbitrary bytes, arbitrary unpickled object, loads() raising any Exception, nan/inf numbers): no path ends in an uncaught exception, a malformed item produces no dispatch and a well-formed neighbour is dispatched exactly once (per-item loop contracts).",
    note="library raise-contracts A-STR (decode, split/unpack, float, int) and A-PICKLE (loads raises any Exception or returns any plain object; float(obj)/unpack/.encode raise-contracts); log.* calls dropped by the extraction are assumed not to raise; only Twisted's own length limits close a connection (A-TWISTED-FRAMING); A-ENGINE, A-SMT",
    tech=TECH + "; exception-freedom obligations against library raise-contracts"),
  'C12': dict(
    text="MetricReceiver.metricReceived is verified from source on every path: a datapoint reaches events.metricReceived iff it is not blacklisted, not rejected by a non-empty whitelist and its value is not NaN; exactly -1 is replaced by the clock, MIN_TIMESTAMP_RESOLUTION rounds down to a multiple, name and value are passed unchanged; RegexList membership is verified with a loop invariant; a syntactic obligation shows all three listeners dispatch only through metricReceived.",
    note="re.search is an uninterpreted predicate (which patterns match is an input, not modelled); timestamps finite here (non-finite ones are C11); floats as tagged reals (A-REAL); RegexList.read_list (file parsing) not under contract; A-ENGINE, A-SMT",
    tech=TECH),
  'C13': dict(
    text="Both definitions of SafeUnpickler.find_class are verified from source for every (module, name): a normal return implies membership in an allow-list pinned in the contract, nothing is imported or looked up off the list, everything else raises UnpicklingError; loads() is shown to run load() on the restricted subclass; get_unpickler is secure unless the flag is set; call sites and the default setting are syntactic obligations. The step to 'no byte string reaches a global' is the assumed contract A-PICKLE on CPython, cross-checked by a bounded opcode-route sweep.",
    note="A-PICKLE (CPython's Unpickler routes every global through find_class; bounded sweep of opcode routes x loaded-module attributes, labelled bounded, not counted as proved); strings as opaque atoms with exact literal equality; A-ENGINE, A-SMT",
    tech=TECH + "; pinned allow-list postcondition; bounded stand-in only for the dependency contract A-PICKLE"),
  'C14': dict(
    text="TaggedSeries.encode and WhisperDatabase._getFilesystemPath / getFilesystemPath are verified from source to compose the string operations so that the resulting path is confined to the data directory for every name, tagged or not, for both TAG_HASH_FILENAMES values: untagged names lose every '.' and any leading separator, tagged names start with '_tagged', the hash slices and a dot-free rendering; determinism and injectivity on well-formed untagged names are obligations / a lemma.",
    note="the str methods, sha256 hexdigest and os.path.join enter as axioms R1-R5 (A-STR), validated together with the real functions end to end by an exhaustive bounded stand-in over a 7-symbol alphabet (labelled bounded, not counted as proved); symlinks inside the data directory are out of scope; CeresDatabase is not covered (ceres not installed; for Ceres a name starting with '/' is not stripped by encode(sep='.')); A-ENGINE, A-SMT",
    tech=TECH + "; string operations axiomatised at predicate level, bounded validation of the axioms"),
  'C15': dict(
    text="Batching is verified from source (takeSomeFromQueue prefix contract, sendQueued writes exactly that batch, the line client emits one line per datapoint in order, the pickle client one frame carrying the batch with protocol 2) and the emitted line is characterised structurally (\"%s %s %d\" of name, value text, timestamp; value text = %.10f with trailing zeros stripped for floats, %d otherwise), which is the receivers' C01 precondition. The numeric clause (value within 5e-11 / one ulp) is decided only by a bounded stand-in on the real client/listener pair.",
    note="the decimal text round trip is outside z3/cvc5's theories: bounded (boundary magnitudes, neighbours, +-inf, ints, seeded random doubles), labelled bounded and not counted as proved; one known finding (5e-11 bound exceeded by < 1 ulp after re-parsing); A-STR, A-PICKLE; protobuf not covered; A-ENGINE, A-SMT",
    tech=TECH + "; bounded native stand-in only for the IEEE decimal round trip"),
  'C16': dict(
    text="RelayRulesRouter.getDestinations (nested loops, ghost source-index witnesses) is verified from source to yield exactly the configured destinations of the matching rules, in file order, up to and including the first matching rule not marked continue; loadRelayRules is verified with an ordered-filter invariant (pattern rules in file order built from their own section, exactly one default rule last, the documented configuration errors otherwise); AggregatedConsistentHashingRouter.getDestinations is verified to return exactly the union of the hash destinations of the aggregate names (or of the metric itself when no rule applies), from which co-location is a lemma.",
    note="rule.matches / get_aggregate_metric are uninterpreted functions of (rule, key) (regex semantics not modelled); hash_router.getDestinations is an uninterpreted function of the name (C05 determinism); A-CONF for the parser; parseDestinations and regex compilation are opaque functions of the section text; A-ENGINE, A-SMT",
    tech=TECH + "; nested loop invariants with ghost witnesses, ordered-filter invariant"),
  'C17': dict(
    text="store / pop / drain_metric are verified exception-free under the other thread's rely for every strategy interface; the three generator strategies (naive, sorted, timesorted) are verified as coroutines with loop invariants (remaining snapshot duplicate-free, still cached, not yet handed out in this pass; a new snapshot only when the previous one is exhausted; timesorted: only metrics older than the lag); max returns a metric of maximal count, random a cached metric; MetricCache() selects the configured class; I_nonempty gives non-empty batches; under bucketmax I_bucket is a lock-invariant conjunct proved at every lock release of drain_metric (this exposed D4, fixed) and store/choose_item are exception-free and maximal under it.",
    note="rely/guarantee + coroutine reading of generators (environment acts at each yield); counts / watermarks through assumed contracts; preservation of I_bucket by BucketMaxStrategy.store / choose_item is decided only by an exhaustive bounded stand-in (both solvers time out), labelled bounded; the 'repeated draining empties the cache' clause is a meta-step over the contracts; A-GIL, A-THREADS, A-CLOCK; A-ENGINE, A-SMT",
    tech=TECH + "; lock invariants, rely/guarantee, generators as coroutines with loop invariants"),
  'C18': dict(
    text="TaggedSeries.format is verified from source to be a function of the tag map (two iteration orders of the same map give the same text, because the rendered list goes through sorted()), path is format of the tags, validateTagAndValue rejects exactly the documented violations, and both processors hand on parse(name).path when the parser accepts a name and the received name unchanged when it rejects it. Idempotence, order independence at the parse level and agreement of the two syntaxes are decided only by a structured exhaustive bounded stand-in on the real parser; it reports one known finding (names that look like OpenMetrics).",
    note="A-LIB (sorted is a function of the multiset); the parser (split / slicing / re.match chains) is outside the solvers' reach: bounded, labelled bounded, not counted as proved; known finding D11 recorded with its witness; A-ENGINE, A-SMT",
    tech=TECH + "; bounded native enumeration for the parse-level clauses"),
  'C19': dict(
    text="loadStorageSchemas and loadAggregationSchemas are verified from source with an ordered-filter loop invariant: the returned list is exactly the sections, in file order, that have the required keys (built from their own options), followed by the default schema; the writer's create section is verified to pass create() the retentions and (xFilesFactor, method) of the first matching schema in list order; parseRetentionDef is verified against a pinned unit table and the duration/precision formula; Archive truncation and the documented defaults [(60,10080)], (None,None) are obligations.",
    note="A-CONF (OrderedConfigParser semantics; its read() does file I/O and is not under contract); string functions (strip/split/isdigit/int/re.match and groups) and regex matching are uninterpreted (A-STR), so what is proved is how the code combines them; schema.matches in the writer is an uninterpreted predicate; A-ENGINE, A-SMT",
    tech=TECH + "; ordered-filter loop invariants with ghost index witnesses, first-match loop invariants"),
  'C20': dict(
    text="All four TokenBucket methods are verified from source against a potential-function invariant over reals for every state, cost, clock sequence and window start; the window bound rate*w + 2*burst is a lemma over that invariant; the blocking wait bound and the new-burst clause are postconditions.",
    note="floats as reals (A-REAL), monotone clock / sleep lasts at least d (A-CLOCK), single user thread per bucket, capacity > 0, rate > 0, cost >= 0; A-ENGINE, A-SMT",
    tech=TECH + "; potential-function invariant, z3 nlsat"),
}

PENDING_REASON = "not claimed yet: the contracts for this property are not finished in this revision (the technique applies; see DESIGN.md section 5)"

ALL = ['C%02d' % i for i in range(1, 21)]


def main():
  checks = []
  for pid in ALL:
    if pid not in CLAIMED:
      continue
    c = CLAIMED[pid]
    checks.append({
      "property_id": pid,
      "quick_cmd": "./check %s --tier quick" % pid,
      "thorough_cmd": "./check %s --tier thorough" % pid,
      "evidence_file": "/verif/evidence/%s.json" % pid,
      "replay_cmd_template": "./check %s --replay {path}" % pid,
      "engine": "pyvc",
      "level_claimed": {"category": "proof", "text": c['text'], "design_ref": "DESIGN.md section 5 / %s" % pid},
      "level_note": c['note'],
      "technique": c['tech'],
    })
  man = {
    "version": 1,
    "setup_cmd": "make -C /verif setup",
    "hooks": {
      "guard": "CARBON_VERIF",
      "enable": "no source hook is needed: contracts are sidecar files under /verif/contracts, the engine parses /repo's working tree on every run and native replays use harness-side doubles",
      "baseline_off_cmd": "cd /repo && /venv/bin/python -m pytest -ra -q -p no:cacheprovider --timeout=900 --continue-on-collection-errors",
      "source_commits": [],
      "add_only": True,
    },
    "engines": [{
      "name": "pyvc", "path": "/verif/pyvc", "serves_properties": sorted(CLAIMED),
      "kind_free_text": "verification-condition generator: symbolic execution of the real function ASTs from /repo against sidecar contracts (requires/ensures/loop invariants/lock invariants/ghost state, rely/guarantee for the two threads), one VC per path x clause, discharged by z3 5.1 (cvc5 1.0.3 on unknowns); refutations are replayed natively on the real code"}],
    "checks": checks,
    "not_applicable": [{"property_id": p, "reason": PENDING_REASON} for p in ALL if p not in CLAIMED],
    "notes": "see DESIGN.md; genuine defects repaired by fix: commits in /repo are listed in known_findings.json",
  }
  with open(os.path.join(HERE, 'MANIFEST.json'), 'w') as f:
    json.dump(man, f, indent=1)
  print("claimed:", sorted(CLAIMED))


if __name__ == '__main__':
  main()
