mk() { n=$1; p=$2; e=$3; f=$5; rm -rf /tmp/mk && mkdir -p /tmp/mk/a /tmp/mk/b && cp -r /repo/lib /tmp/mk/a/lib && cp -r /repo/lib /tmp/mk/b/lib && python3 -c "
import sys,re
p='/tmp/mk/b/lib/carbon/$f'; s=open(p).read(); old=sys.argv[1]; new=sys.argv[2]
assert old in s, 'pattern not found'
s=s.replace(old,new,1); open(p,'w').write(s)" "$4" "$6" && (cd /tmp/mk && (for x in $p; do echo "# property: $x"; done; IFS='|'; for x in $e; do echo "# expect: $x"; done; diff -u a/lib/carbon/$f b/lib/carbon/$f) > /verif/selftest/mutants/$n.patch); rm -rf /tmp/mk; grep -c '^[-+]' /verif/selftest/mutants/$n.patch; }
# harmless edit: mkh name "Cnn Cmm" "old text" file "new text"   -> selftest/harmless/<name>.patch (must stay exit 0)
mkh() { n=$1; p=$2; f=$4; rm -rf /tmp/mk && mkdir -p /tmp/mk/a /tmp/mk/b && cp -r /repo/lib /tmp/mk/a/lib && cp -r /repo/lib /tmp/mk/b/lib && python3 -c "
import sys,re
p='/tmp/mk/b/lib/carbon/$f'; s=open(p).read(); old=sys.argv[1]; new=sys.argv[2]
assert old in s, 'pattern not found'
s=s.replace(old,new,1); open(p,'w').write(s)" "$3" "$5" && (cd /tmp/mk && (for x in $p; do echo "# property: $x"; done; diff -u a/lib/carbon/$f b/lib/carbon/$f) > /verif/selftest/harmless/$n.patch); (cd /tmp/mk/b && /venv/bin/python -c "import ast,sys; ast.parse(open('lib/carbon/$f').read())") ; rm -rf /tmp/mk; grep -c '^[-+]' /verif/selftest/harmless/$n.patch; }
