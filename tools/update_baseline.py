#!/usr/bin/env python3
"""Record, per property, the obligation labels that are discharged on the unchanged tree (from the
evidence files of a clean run against /repo).  Committed; read by the runner to decide whether an
obligation that the solvers leave open 'passed on the unchanged tree and now fails'."""
import glob
import json
import os

HERE = os.path.dirname(os.path.dirname(os.path.abspath(__file__)))
out = {}
for p in sorted(glob.glob(os.path.join(HERE, 'evidence', 'C*.json'))):
  e = json.load(open(p))
  if e.get('violations'):
    continue
  labs = e['coverage'].get('obligation_labels', {})
  out[e['property_id']] = sorted(l for l, v in labs.items() if v['instances'] == v['discharged'])
json.dump(out, open(os.path.join(HERE, 'baseline', 'obligations.json'), 'w'), indent=0)
print({k: len(v) for k, v in out.items()})
