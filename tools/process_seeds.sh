#!/bin/sh
# usage: tools/process_seeds.sh <batch-number> Cxx [Cyy ...]   -- confirm each seed of /tmp/seed<N>_Cxx in /tmp/wt<N>_Cxx and run the property's check on it
N=$1; shift
for c in "$@"; do
  echo "=== $c"
  /verif/tools/confirm_seed.sh $c /tmp/wt${N}_$c /tmp/seed${N}_$c 2>&1 | tail -2
  /verif/tools/try_seed.sh /tmp/seed${N}_$c/patch.diff $c 2>&1 | grep -v "^KNOWN" | cut -c1-260 | head -8
done
