import argparse
import importlib
import json
import os
import sys
import traceback

HERE = os.path.dirname(os.path.abspath(__file__))
sys.path.insert(0, HERE)
sys.setrecursionlimit(10000)


def main():
  ap = argparse.ArgumentParser()
  ap.add_argument('prop')
  ap.add_argument('--tier', default=os.environ.get('VERIF_TIER', 'quick'), choices=['quick', 'thorough'])
  ap.add_argument('--unit', default=None)
  ap.add_argument('--replay', default=None)
  ap.add_argument('-v', action='store_true')
  a = ap.parse_args()
  seed = int(os.environ.get('VERIF_SEED', '0') or 0)
  os.chdir(HERE)
  try:
    mod = importlib.import_module('contracts.' + a.prop.lower())
  except Exception:         # (ImportError, or a defect of the contract files themselves)
    traceback.print_exc()
    print("CHECKER-ERROR: contracts for %s cannot be loaded" % a.prop)
    return 3
  if a.replay:
    with open(a.replay) as f:
      rep = json.load(f)
    print(json.dumps(rep, indent=1)[:6000])
    fn = getattr(mod, 'replay_file', None)
    if fn:
      return fn(rep)
    return 1 if rep.get('native_confirms') else 0
  from pyvc.runner import run_property
  try:
    prop = mod.build()
    return run_property(prop, tier=a.tier, seed=seed, only_unit=a.unit, verbose=a.v)
  except Exception:
    traceback.print_exc()
    print("CHECKER-ERROR: crash")
    return 3


if __name__ == '__main__':
  # exit 1 is reserved for a reported violation: anything that goes wrong in the checker itself is 3
  try:
    rc = main()
  except SystemExit as e:
    rc = e.code if isinstance(e.code, int) else 3
    if rc == 1:
      rc = 3
  except BaseException:
    traceback.print_exc()
    print("CHECKER-ERROR: crash")
    rc = 3
  sys.exit(rc)
