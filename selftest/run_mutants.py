#!/usr/bin/env python3
"""Self-test of the checker: apply each deliberately broken body (selftest/mutants/*.patch) to a
scratch copy of /repo/lib under /tmp, run the property's check against it (PYVC_REPO), and require
exit 1 with the expected obligation refuted; apply each harmless edit (selftest/harmless/*.patch)
and require that no violation is reported (exit 0; exit 2 / 3 = contract no longer applies is listed as
'undec', exit 1 is a false alarm and fails).  Patches carry '# property: Cnn' and '# expect: <obligation substring>'
header lines.  Usage: run_mutants.py [name-substring ...]"""
import glob
import os
import re
import shutil
import subprocess
import sys
import tempfile

HERE = os.path.dirname(os.path.abspath(__file__))
VERIF = os.path.dirname(HERE)


def run_one(patch, expect_fail):
  text = open(patch).read()
  props = re.findall(r'^# property: (\S+)', text, re.M)
  expects = re.findall(r'^# expect: (.+)$', text, re.M)
  tmp = tempfile.mkdtemp(prefix='pyvc_mut_')
  try:
    shutil.copytree('/repo/lib', os.path.join(tmp, 'lib'))
    p = subprocess.run(['patch', '-p1', '-s', '-d', tmp, '-i', patch], capture_output=True, text=True)
    if p.returncode != 0:
      return False, "patch does not apply: " + p.stdout + p.stderr
    ok = True
    msgs = []
    for prop in props:
      env = dict(os.environ, PYVC_REPO=tmp)
      r = subprocess.run([os.path.join(VERIF, 'check'), prop], capture_output=True, text=True, env=env, cwd=VERIF)
      out = r.stdout + r.stderr
      if expect_fail:
        hit = r.returncode == 1 and all(any(e.strip() in l for l in out.splitlines() if l.startswith('refuted obligation')) for e in expects)
        if not hit:
          ok = False
        msgs.append("%s exit=%d refuted=%s" % (prop, r.returncode, [l.split(': ', 1)[1] for l in out.splitlines() if l.startswith('refuted obligation')]))
      else:
        # a harmless edit must never be reported as a violation (exit 1 = false alarm = FAIL); a
        # sidecar contract that no longer applies (exit 2 / 3: undecided, bounded parts still ran
        # and passed) is a loss of decision, reported as 'undec' and counted separately
        if r.returncode == 1 or any(l.startswith('VIOLATION') for l in out.splitlines()):
          ok = False
        elif r.returncode != 0 and ok:
          ok = None
        msgs.append("%s exit=%d %s" % (prop, r.returncode, [l for l in out.splitlines() if l.startswith(('refuted', 'CHECKER', 'UNDECIDED'))][:4]))
    return ok, '; '.join(msgs)
  finally:
    shutil.rmtree(tmp, ignore_errors=True)


def run_seed(d):
  """seeded/<name>/: patch.diff (paths relative to the repository root) + meta.json {property}; the
  property's check must exit 1 with a VIOLATION line"""
  import json
  meta = json.load(open(os.path.join(d, 'meta.json')))
  prop = meta['property']
  tmp = tempfile.mkdtemp(prefix='pyvc_seed_')
  try:
    shutil.copytree('/repo/lib', os.path.join(tmp, 'lib'))
    p = subprocess.run(['patch', '-p1', '-s', '-d', tmp, '-i', os.path.join(d, 'patch.diff')], capture_output=True, text=True)
    if p.returncode != 0:
      return False, "patch does not apply: " + p.stdout + p.stderr
    env = dict(os.environ, PYVC_REPO=tmp)
    r = subprocess.run([os.path.join(VERIF, 'check'), prop], capture_output=True, text=True, env=env, cwd=VERIF)
    out = r.stdout + r.stderr
    ref = [l.split(': ', 1)[1] for l in out.splitlines() if l.startswith('refuted obligation')]
    nofail = sum(1 for l in out.splitlines() if l.startswith('VIOLATION') and l.rstrip().endswith('no-failing-input-found'))
    nviol = sum(1 for l in out.splitlines() if l.startswith('VIOLATION'))
    return r.returncode == 1 and nviol > 0, "%s exit=%d refuted=%s (%d of %d without a failing input)" % (prop, r.returncode, sorted(set(ref)), nofail, nviol)
  finally:
    shutil.rmtree(tmp, ignore_errors=True)


def main():
  sel = sys.argv[1:]
  bad = 0
  undec = 0
  for d in sorted(glob.glob(os.path.join(VERIF, 'seeded', '*'))):
    if sel and not any(s in d for s in sel):
      continue
    ok, msg = run_seed(d)
    print("%s %-9s %-45s %s" % ('ok  ' if ok else 'FAIL', 'seeded', os.path.basename(d), msg))
    if not ok:
      bad += 1
  for kind, expect_fail in (('mutants', True), ('harmless', False)):
    for patch in sorted(glob.glob(os.path.join(HERE, kind, '*.patch'))):
      if sel and not any(s in patch for s in sel):
        continue
      ok, msg = run_one(patch, expect_fail)
      print("%s %-9s %-45s %s" % ('ok  ' if ok else ('undec' if ok is None else 'FAIL'), kind, os.path.basename(patch), msg))
      if ok is None:
        undec += 1
      elif not ok:
        bad += 1
  print("summary: %d failed, %d harmless edits left undecided (exit 2/3, no alarm)" % (bad, undec))
  return 1 if bad else 0


if __name__ == '__main__':
  sys.exit(main())
