# nothing is fetched; nothing is written outside /verif
setup:
	@python3-vt -c "import z3; print('z3', z3.get_version_string())"
	@test -x /usr/bin/cvc5 && /usr/bin/cvc5 --version | head -1 || echo "cvc5 missing (z3 only)"
	@test -x /venv/bin/python && /venv/bin/python -c "import twisted; print('native python ok, twisted', twisted.__version__)"
	@python3-vt -m compileall -q pyvc contracts pyvc_main.py >/dev/null
	@mkdir -p evidence out/replays
	@echo setup ok

selftest:
	python3-vt selftest/run_mutants.py

.PHONY: setup selftest
