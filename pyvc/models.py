"""z3-backed models of Python's built-in containers and of the world outside /repo.

These are the engine's *assumed contracts* for list / dict / set / deque / defaultdict
(A-LIB in DESIGN.md section 4).  Every fact a model adds to the path condition is a theorem about
finite Python containers (cardinalities are ghost integers maintained incrementally; the facts
`card >= 0`, `k in m ==> card >= 1`, `card > 0 ==> some key exists` are re-stated for every
version of a map).  The thorough tier cross-checks the models against CPython by running the
same interpreter on concrete inputs (pyvc.selfcheck).
"""
import ast
import z3

from .core import EngineError, is_z3
from .values import (Atom, Val, Model, ModelMethod, PyObj, ExcVal, SymExc, PyRaise, znum,
                     coerce_pair, is_num, Inf)

# -------------------------------------------------------------------------------------------------
# element types (codecs between interpreter values and z3 terms)


class Ty(object):
  sort = None

  def enc(self, ip, v):
    raise NotImplementedError

  def dec(self, term):
    return term

  def fresh(self, ctx, hint='v'):
    return self.dec(ctx.fresh(self.sort, hint))


class _TInt(Ty):
  sort = z3.IntSort()

  def enc(self, ip, v):
    if isinstance(v, bool):
      v = int(v)
    if isinstance(v, int):
      return z3.IntVal(v)
    if is_z3(v) and z3.is_int(v):
      return v
    raise EngineError("expected int, got %r" % (v,))


class _TReal(Ty):
  sort = z3.RealSort()

  def enc(self, ip, v):
    v = znum(v)
    if z3.is_int(v):
      v = z3.ToReal(v)
    return v


class _TBool(Ty):
  sort = z3.BoolSort()

  def enc(self, ip, v):
    if isinstance(v, bool):
      return z3.BoolVal(v)
    return v


class _TAtom(Ty):
  sort = Atom

  def enc(self, ip, v):
    if isinstance(v, str):
      return ip.atom(v)
    if is_z3(v) and v.sort() == Atom:
      return v
    raise EngineError("expected str/Atom, got %r" % (v,))


class TSort(Ty):
  def __init__(self, sort):
    self.sort = sort

  def enc(self, ip, v):
    if is_z3(v) and v.sort() == self.sort:
      return v
    raise EngineError("expected %s, got %r" % (self.sort, v))


TInt = _TInt()
TReal = _TReal()
TBool = _TBool()
TAtom = _TAtom()
TVal = TSort(Val)

_TUPLE_CACHE = {}


class TTuple(Ty):
  def __init__(self, *tys):
    self.tys = tys
    key = tuple(str(t.sort) for t in tys)
    if key not in _TUPLE_CACHE:
      name = 'Tup_' + '_'.join(k.replace(' ', '').replace('(', '').replace(')', '') for k in key)
      _TUPLE_CACHE[key] = z3.TupleSort(name, [t.sort for t in tys])
    self.sort, self.mk, self.acc = _TUPLE_CACHE[key]

  def enc(self, ip, v):
    if is_z3(v) and v.sort() == self.sort:
      return v
    if isinstance(v, PyList):
      v = tuple(v.items)
    if not isinstance(v, tuple) or len(v) != len(self.tys):
      raise EngineError("expected %d-tuple, got %r" % (len(self.tys), v))
    return self.mk(*[t.enc(ip, x) for t, x in zip(self.tys, v)])

  def dec(self, term):
    return tuple(t.dec(z3.simplify(a(term))) for t, a in zip(self.tys, self.acc))


# -------------------------------------------------------------------------------------------------
# lists


def _infer_ty(ip, v):
  if isinstance(v, tuple):
    return TTuple(*[_infer_ty(ip, x) for x in v])
  if isinstance(v, bool):
    return TBool
  if isinstance(v, int):
    return TInt
  if isinstance(v, str):
    return TAtom
  if is_z3(v):
    if z3.is_int(v):
      return TInt
    if z3.is_real(v):
      return TReal
    if z3.is_bool(v):
      return TBool
    if v.sort() == Atom:
      return TAtom
    return TSort(v.sort())
  raise EngineError("cannot infer the element type of %r" % (v,))


class PyList(Model):
  """A list whose *length* is concrete on this path (elements may be symbolic)."""
  model_name = 'list'

  def __init__(self, items):
    self.items = list(items)
    self.birth = 0

  def __repr__(self):
    return "PyList(%d)" % len(self.items)

  def concrete_items(self, ip):
    return list(self.items)

  def py_append(self, ip, v):
    self.items.append(v)
    ip.note_write(self)

  def py_extend(self, ip, other):
    self.items.extend(ip.iter_concrete(other))
    ip.note_write(self)

  def py_insert(self, ip, i, v):
    if not isinstance(i, int):
      raise EngineError("symbolic insert index")
    self.items.insert(i, v)
    ip.note_write(self)

  def py_pop(self, ip, i=-1):
    if not isinstance(i, int):
      raise EngineError("symbolic pop index")
    if not self.items:
      raise PyRaise(ExcVal('IndexError', ('pop from empty list',)))
    ip.note_write(self)
    try:
      return self.items.pop(i)
    except IndexError:
      raise PyRaise(ExcVal('IndexError', ('pop index out of range',)))

  def py_clear(self, ip):
    self.items = []
    ip.note_write(self)

  def py_remove(self, ip, v):
    for i, x in enumerate(self.items):
      if ip.ctx.branch(ip.eq(x, v), 'list.remove'):
        del self.items[i]
        ip.note_write(self)
        return None
    raise PyRaise(ExcVal('ValueError', ('list.remove(x): x not in list',)))

  def py___len__(self, ip):
    return len(self.items)

  def py___bool__(self, ip):
    return bool(self.items)

  def py___contains__(self, ip, v):
    return ip.contains(tuple(self.items), v)

  def py___getitem__(self, ip, i):
    if isinstance(i, int):
      try:
        return self.items[i]
      except IndexError:
        raise PyRaise(ExcVal('IndexError', ('list index out of range',)))
    raise EngineError("symbolic index into concrete-length list")

  def py___setitem__(self, ip, i, v):
    if isinstance(i, int):
      try:
        self.items[i] = v
      except IndexError:
        raise PyRaise(ExcVal('IndexError', ('list assignment index out of range',)))
      ip.note_write(self)
      return
    raise EngineError("symbolic index into concrete-length list")

  def py___delitem__(self, ip, i):
    if isinstance(i, int):
      try:
        del self.items[i]
      except IndexError:
        raise PyRaise(ExcVal('IndexError', ()))
      ip.note_write(self)
      return
    raise EngineError("symbolic del index")

  def py_slice(self, ip, lo, hi):
    if (lo is None or isinstance(lo, int)) and (hi is None or isinstance(hi, int)):
      return PyList(self.items[lo:hi])
    raise EngineError("symbolic slice of concrete-length list")

  def py_index(self, ip, v):
    for i, x in enumerate(self.items):
      if ip.ctx.branch(ip.eq(x, v), 'list.index'):
        return i
    raise PyRaise(ExcVal('ValueError', ()))

  def py_unpack(self, ip, n):
    if len(self.items) != n:
      raise PyRaise(ExcVal('ValueError', ("unpack: expected %d values, got %d" % (n, len(self.items)),)))
    return list(self.items)

  def py___eq__(self, ip, other):
    if isinstance(other, PyList):
      return ip.eq(tuple(self.items), tuple(other.items))
    return False

  def to_symseq(self, ip, ty):
    t = z3.Empty(z3.SeqSort(ty.sort))
    for x in self.items:
      t = z3.Concat(t, z3.Unit(ty.enc(ip, x)))
    return SymSeq(ty, t)


class AnyValue(Model):
  """A value about which nothing is known (used when a loop body re-assigns a local that the loop
  contract does not describe): every observation answers with a fresh unconstrained result."""
  def __init__(self, hint='any'):
    self.hint = hint
    self._none = None
    self.ghost = True

  def is_none(self, ip):
    if self._none is None:
      self._none = ip.ctx.fresh(z3.BoolSort(), self.hint + '.is_none')
    return self._none

  def py___bool__(self, ip):
    return ip.ctx.fresh(z3.BoolSort(), self.hint + '.truth')

  def py___eq__(self, ip, other):
    if other is None:
      return self.is_none(ip)
    return ip.ctx.fresh(z3.BoolSort(), self.hint + '.eq')

  def py___float__(self, ip):
    k = ip.ctx.choose(3, 'float(any)')
    if k == 1:
      raise PyRaise(ExcVal('TypeError', ()))
    if k == 2:
      raise PyRaise(ExcVal('ValueError', ()))
    return ip.ctx.fresh(z3.RealSort(), self.hint + '.float')

  def py___int__(self, ip):
    k = ip.ctx.choose(3, 'int(any)')
    if k == 1:
      raise PyRaise(ExcVal('TypeError', ()))
    if k == 2:
      raise PyRaise(ExcVal('ValueError', ()))
    return ip.ctx.fresh(z3.IntSort(), self.hint + '.int')


class WeakContainer(Model):
  """A list / set / dict whose contents are not tracked at all: every query answers with a
  fresh unconstrained value and every update is a no-op.  Sound over-approximation of a
  container the loop contracts do not describe (used after NeedWeak)."""
  def __init__(self, site):
    self.site_weak = site
    self.ghost = True

  def _noop(self, ip, *a, **k):
    return None

  py_add = py_append = py_appendleft = py_discard = py_update = py_clear = py_extend = py_insert = _noop
  py___setitem__ = _noop

  def py_remove(self, ip, v):
    if ip.ctx.choose(2, 'weak.remove') == 1:
      raise PyRaise(ExcVal('KeyError', ()))

  def py___delitem__(self, ip, k):
    if ip.ctx.choose(2, 'weak.del') == 1:
      raise PyRaise(ExcVal('KeyError', ()))

  def py___contains__(self, ip, v):
    return ip.ctx.fresh(z3.BoolSort(), 'weak.in')

  def py___len__(self, ip):
    n = ip.ctx.fresh(z3.IntSort(), 'weak.len')
    ip.ctx.assume(n >= 0)
    return n

  def py___bool__(self, ip):
    return ip.ctx.fresh(z3.BoolSort(), 'weak.bool')

  def py___getitem__(self, ip, k):
    raise EngineError("read of an element of an untracked container (site %r)" % (self.site_weak,))

  def py_get(self, ip, k, default=None):
    raise EngineError("read of an element of an untracked container (site %r)" % (self.site_weak,))

  def as_symseq(self, ip):
    raise EngineError("iteration over an untracked container (site %r)" % (self.site_weak,))


class PySetLit(Model):
  """A set with a concrete list of (possibly symbolic, possibly equal) candidates."""
  def __init__(self, items):
    self.items = list(items)

  def py_add(self, ip, v):
    for x in self.items:
      if ip.ctx.branch(ip.eq(x, v), 'set.add dup'):
        return
    self.items.append(v)
    ip.note_write(self)

  def py_discard(self, ip, v):
    for i, x in enumerate(self.items):
      if ip.ctx.branch(ip.eq(x, v), 'set.discard'):
        del self.items[i]
        ip.note_write(self)
        return

  def py___contains__(self, ip, v):
    return ip.contains(tuple(self.items), v)

  def py___len__(self, ip):
    return len(self.items)

  def concrete_items(self, ip):
    return list(self.items)


def _is_ground_seq(t):
  """a concatenation of units / empty (concrete length): needs no hints"""
  if z3.is_app_of(t, z3.Z3_OP_SEQ_EMPTY) or z3.is_app_of(t, z3.Z3_OP_SEQ_UNIT):
    return True
  if z3.is_app_of(t, z3.Z3_OP_SEQ_CONCAT):
    return all(_is_ground_seq(c) for c in t.children())
  return False


class SymSeq(Model):
  """list / deque / generator output of symbolic length: a z3 sequence."""
  model_name = 'seq'

  def __init__(self, ty, term, name='seq'):
    self.ty = ty
    self.term = term
    self.name = name
    self.perm_facts = []      # facts that hold for any permutation of this sequence
    self.birth = 0

  def __repr__(self):
    return "SymSeq(%s)" % self.name

  @staticmethod
  def fresh(ip, ty, hint='seq'):
    s = SymSeq(ty, ip.ctx.fresh(z3.SeqSort(ty.sort), hint), hint)
    s.birth = ip.ctx.counter
    return s

  @staticmethod
  def empty(ty, name='seq'):
    return SymSeq(ty, z3.Empty(z3.SeqSort(ty.sort)), name)

  def copy(self):
    s = SymSeq(self.ty, self.term, self.name)
    s.perm_facts = list(self.perm_facts)
    return s

  def length(self):
    return z3.Length(self.term)

  def at(self, ip, k):
    return self.ty.dec(self.term[k])

  def raw_at(self, k):
    return self.term[k]

  def havoc(self, ip, hint=None):
    self.term = ip.ctx.fresh(z3.SeqSort(self.ty.sort), hint or self.name)
    self.perm_facts = []
    ip.note_write(self)

  def set_term(self, ip, t):
    self.term = t
    ip.note_write(self)

  # python API
  def py_append(self, ip, v):
    old = self.term
    e = self.ty.enc(ip, v)
    new = z3.Concat(old, z3.Unit(e))
    if not z3.is_app_of(old, z3.Z3_OP_SEQ_EMPTY) and not _is_ground_seq(old):
      # pointwise consequences of the definition, stated explicitly for the quantifier engine
      i = z3.Int('i?')
      n = z3.Length(old)
      ip.ctx.assume(z3.Length(new) == n + 1)
      ip.ctx.assume(new[n] == e)
      ip.ctx.assume(z3.ForAll([i], z3.Implies(z3.And(0 <= i, i < n), new[i] == old[i])))
    self.set_term(ip, new)

  def py_insert(self, ip, i, v):
    from .values import znum
    i = znum(i)
    n = self.length()
    i = z3.If(i < 0, z3.If(i + n < 0, 0, i + n), z3.If(i > n, n, i))
    self.set_term(ip, z3.Concat(z3.SubSeq(self.term, 0, i), z3.Unit(self.ty.enc(ip, v)),
                                z3.SubSeq(self.term, i, n - i)))

  def py_appendleft(self, ip, v):
    self.set_term(ip, z3.Concat(z3.Unit(self.ty.enc(ip, v)), self.term))

  def py___len__(self, ip):
    return self.length()

  def py___bool__(self, ip):
    return self.length() > 0

  def py___contains__(self, ip, v):
    if getattr(self, 'map_of', None) is not None:
      # `x in [f(e) for e in seq]`: an index witness instead of the sequence theory's contains
      j = z3.Int('j?')
      return z3.Exists([j], z3.And(0 <= j, j < self.length(), self.term[j] == self.ty.enc(ip, v)))
    return z3.Contains(self.term, z3.Unit(self.ty.enc(ip, v)))

  def _norm_index(self, ip, i):
    i = znum(i)
    n = self.length()
    if ip.ctx.branch(i < 0, 'negidx'):
      i = i + n
    if ip.ctx.branch(z3.Or(i < 0, i >= n), 'index out of range'):
      raise PyRaise(ExcVal('IndexError', ('index out of range',)))
    return i

  def py___getitem__(self, ip, i):
    i = self._norm_index(ip, i)
    return self.at(ip, i)

  def py_popleft(self, ip):
    if ip.ctx.branch(self.length() == 0, 'popleft-empty'):
      raise PyRaise(ExcVal('IndexError', ('pop from an empty deque',)))
    v = self.at(ip, 0)
    old = self.term
    new = z3.SubSeq(old, 1, z3.Length(old) - 1)
    i = z3.Int('i?')
    ip.ctx.assume(z3.Length(new) == z3.Length(old) - 1)
    ip.ctx.assume(z3.ForAll([i], z3.Implies(z3.And(0 <= i, i < z3.Length(old) - 1), new[i] == old[i + 1])))
    self.set_term(ip, new)
    return v

  def py_pop(self, ip, i=None):
    if ip.ctx.branch(self.length() == 0, 'pop-empty'):
      raise PyRaise(ExcVal('IndexError', ('pop from empty list',)))
    if i is None:
      v = self.at(ip, self.length() - 1)
      old = self.term
      new = z3.SubSeq(old, 0, z3.Length(old) - 1)
      j = z3.Int('i?')
      ip.ctx.assume(z3.Length(new) == z3.Length(old) - 1)
      ip.ctx.assume(z3.ForAll([j], z3.Implies(z3.And(0 <= j, j < z3.Length(old) - 1), new[j] == old[j])))
      self.set_term(ip, new)
      return v
    i = self._norm_index(ip, i)
    v = self.at(ip, i)
    self.set_term(ip, z3.Concat(z3.SubSeq(self.term, 0, i),
                                z3.SubSeq(self.term, i + 1, self.length() - i - 1)))
    return v

  def py_clear(self, ip):
    self.set_term(ip, z3.Empty(z3.SeqSort(self.ty.sort)))

  def py_minmax(self, ip, is_min, key):
    if key is not None:
      raise EngineError("min/max with key over a symbolic sequence")
    n = self.length()
    if ip.ctx.branch(n == 0, 'min/max of empty'):
      raise PyRaise(ExcVal('ValueError', ('min()/max() arg is an empty sequence',)))
    w = ip.ctx.fresh(z3.IntSort(), 'argext')
    i = z3.Int('i?')
    ip.ctx.assume(z3.And(0 <= w, w < n))
    v = self.term[w]
    ip.ctx.assume(z3.ForAll([i], z3.Implies(z3.And(0 <= i, i < n), (v <= self.term[i]) if is_min else (v >= self.term[i]))))
    return self.ty.dec(v)

  def py_slice(self, ip, lo, hi):
    n = self.length()

    def clamp(x, dflt):
      if x is None:
        return dflt
      x = znum(x)
      x = z3.If(x < 0, z3.If(x + n < 0, 0, x + n), z3.If(x > n, n, x))
      return x
    a = clamp(lo, z3.IntVal(0))
    b = clamp(hi, n)
    ln = z3.If(b > a, b - a, 0)
    out = SymSeq.fresh(ip, self.ty, self.name + '[:]')
    i = z3.Int('i?')
    ip.ctx.assume(out.term == z3.SubSeq(self.term, a, ln))
    ip.ctx.assume(out.length() == ln)
    ip.ctx.assume(z3.ForAll([i], z3.Implies(z3.And(0 <= i, i < ln), out.term[i] == self.term[a + i])))
    # facts that hold for every contiguous sub-sequence (membership, distinctness, sortedness)
    for f in getattr(self, 'sub_facts', []):
      for fact in f(out.term):
        ip.ctx.assume(fact)
    out.sub_facts = list(getattr(self, 'sub_facts', []))
    out.slice_of = (self, a, ln)
    return out

  def as_symseq(self, ip):
    return self

  def to_symseq(self, ip, ty):
    return self

  def _filter_comp(self, ip, node, fr):
    """[x for x in seq if cond(x)] with a pure condition: the order-preserving sub-list of the
    elements that satisfy the condition (A-LIB); ghost index maps src / dst are kept on the result"""
    import ast as _ast
    from .interp import Frame
    g = node.generators[0]
    if not (isinstance(node.elt, _ast.Name) and isinstance(g.target, _ast.Name) and node.elt.id == g.target.id):
      raise EngineError("filter comprehension with a non-identity element expression")
    ctx = ip.ctx

    def cond_at(term):
      sub = Frame(fr.func, fr.env, parent=fr)
      ip.assign(g.target, self.ty.dec(term), sub)
      mark = len(ctx.pc)
      c = z3.BoolVal(True)
      for cnode in g.ifs:
        v = ip.truth(ip.eval(cnode, sub))
        c = z3.And(c, v if is_z3(v) else z3.BoolVal(bool(v)))
      if len(ctx.pc) != mark:
        raise EngineError("comprehension condition is not pure")
      return c
    out = SymSeq.fresh(ip, self.ty, 'filtered')
    src = z3.Function(ctx.fresh_name('fsrc'), z3.IntSort(), z3.IntSort())
    dst = z3.Function(ctx.fresh_name('fdst'), z3.IntSort(), z3.IntSort())
    a, b, j = z3.Int('a?'), z3.Int('b?'), z3.Int('j?')
    n, m = out.length(), self.length()
    ctx.assume(n <= m)
    ctx.assume(z3.ForAll([a], z3.Implies(z3.And(0 <= a, a < n),
                                         z3.And(0 <= src(a), src(a) < m, out.term[a] == self.term[src(a)],
                                                cond_at(self.term[src(a)]), dst(src(a)) == a))))
    ctx.assume(z3.ForAll([a, b], z3.Implies(z3.And(0 <= a, a < b, b < n), src(a) < src(b))))
    ctx.assume(z3.ForAll([j], z3.Implies(z3.And(0 <= j, j < m, cond_at(self.term[j])),
                                         z3.And(0 <= dst(j), dst(j) < n, src(dst(j)) == j))))
    out.filter_src, out.filter_dst, out.filter_of = src, dst, self
    return out

  def py_listcomp(self, ip, node, fr):
    """[elt for target in <this sequence>] without conditions, for a pure element expression:
    a sequence of the same length whose i-th element is elt evaluated on the i-th element."""
    from .interp import Frame
    g = node.generators[0]
    if g.ifs:
      return self._filter_comp(ip, node, fr)
    i = z3.Int('i?')
    sub = Frame(fr.func, fr.env, parent=fr)
    ip.assign(g.target, self.ty.dec(self.term[i]), sub)
    mark = len(ip.ctx.pc)
    v = ip.eval(node.elt, sub)
    if len(ip.ctx.pc) != mark:
      raise EngineError("comprehension element expression is not pure (it branched or assumed)")
    ety = ip.ext.get(('listcomp_type', fr.func.qualname if fr.func else None))
    if ety is None:
      ety = _infer_ty(ip, v)
    out = SymSeq.fresh(ip, ety, 'comp')
    n = self.length()
    ip.ctx.assume(out.length() == n)
    ip.ctx.assume(z3.ForAll([i], z3.Implies(z3.And(0 <= i, i < n), out.term[i] == ety.enc(ip, v))))
    out.map_of = (self, i, v)
    return out


# -------------------------------------------------------------------------------------------------
# maps


class SymMap(Model):
  """dict: key-membership array, value array, ghost cardinality."""
  model_name = 'dict'

  def __init__(self, kty, vty, keys, vals, card, name='map'):
    self.kty = kty
    self.vty = vty
    self.keys = keys
    self.vals = vals
    self.card = card
    self.name = name
    self.birth = 0

  def __repr__(self):
    return "SymMap(%s)" % self.name

  @staticmethod
  def fresh(ip, kty, vty, hint='map'):
    c = ip.ctx
    m = SymMap(kty, vty, c.fresh(z3.ArraySort(kty.sort, z3.BoolSort()), hint + '.keys'),
               c.fresh(z3.ArraySort(kty.sort, vty.sort), hint + '.vals'),
               c.fresh(z3.IntSort(), hint + '.card'), hint)
    m.birth = c.counter
    m.emit_facts(ip)
    return m

  @staticmethod
  def empty(ip, kty, vty, name='map'):
    m = SymMap(kty, vty, z3.K(kty.sort, z3.BoolVal(False)),
               ip.ctx.fresh(z3.ArraySort(kty.sort, vty.sort), name + '.vals0'), z3.IntVal(0), name)
    m.birth = ip.ctx.counter
    return m

  def snapshot(self):
    return SymMap(self.kty, self.vty, self.keys, self.vals, self.card, self.name + "'")

  def facts(self, ctx):
    k = z3.Const('k?' + str(self.kty.sort), self.kty.sort)
    wit = ctx.fresh(self.kty.sort, self.name + '.wit')
    return [self.card >= 0,
            z3.ForAll([k], z3.Implies(z3.Select(self.keys, k), self.card >= 1)),
            z3.Or(self.card == 0, z3.Select(self.keys, wit))]

  def emit_facts(self, ip):
    for f in self.facts(ip.ctx):
      ip.ctx.assume(f)

  def havoc(self, ip, hint=None):
    c = ip.ctx
    h = hint or self.name
    self.keys = c.fresh(z3.ArraySort(self.kty.sort, z3.BoolSort()), h + '.keys')
    self.vals = c.fresh(z3.ArraySort(self.kty.sort, self.vty.sort), h + '.vals')
    self.card = c.fresh(z3.IntSort(), h + '.card')
    ip.note_write(self)
    self.emit_facts(ip)

  def has(self, ip, k):
    return z3.Select(self.keys, self.kty.enc(ip, k))

  def raw_get(self, ip, k):
    return z3.Select(self.vals, self.kty.enc(ip, k))

  def _set(self, ip, k, vterm):
    present = z3.Select(self.keys, k)
    newcard = ip.ctx.fresh(z3.IntSort(), self.name + '.card')
    ip.ctx.assume(newcard == self.card + z3.If(present, 0, 1))
    self.card = newcard
    self.keys = z3.Store(self.keys, k, z3.BoolVal(True))
    self.vals = z3.Store(self.vals, k, vterm)
    ip.note_write(self)
    self.emit_facts(ip)

  def _del(self, ip, k):
    present = z3.Select(self.keys, k)
    newcard = ip.ctx.fresh(z3.IntSort(), self.name + '.card')
    ip.ctx.assume(newcard == self.card - z3.If(present, 1, 0))
    self.card = newcard
    self.keys = z3.Store(self.keys, k, z3.BoolVal(False))
    ip.note_write(self)
    self.emit_facts(ip)

  # python API
  def py___contains__(self, ip, k):
    try:
      return self.has(ip, k)
    except EngineError:
      return False

  def py___len__(self, ip):
    return self.card

  def py___bool__(self, ip):
    return self.card > 0

  def py___getitem__(self, ip, k):
    kk = self.kty.enc(ip, k)
    if ip.ctx.branch(z3.Select(self.keys, kk), 'key present'):
      return self.vty.dec(z3.Select(self.vals, kk))
    raise PyRaise(ExcVal('KeyError', (k,)))

  def py_get(self, ip, k, default=None):
    kk = self.kty.enc(ip, k)
    if ip.ctx.branch(z3.Select(self.keys, kk), 'key present'):
      return self.vty.dec(z3.Select(self.vals, kk))
    return default

  def py___setitem__(self, ip, k, v):
    self._set(ip, self.kty.enc(ip, k), self.vty.enc(ip, v))

  def py_setdefault(self, ip, k, default=None):
    kk = self.kty.enc(ip, k)
    if ip.ctx.branch(z3.Select(self.keys, kk), 'key present'):
      return self.vty.dec(z3.Select(self.vals, kk))
    self._set(ip, kk, self.vty.enc(ip, default))
    return default

  def py___delitem__(self, ip, k):
    kk = self.kty.enc(ip, k)
    if not ip.ctx.branch(z3.Select(self.keys, kk), 'key present'):
      raise PyRaise(ExcVal('KeyError', (k,)))
    self._del(ip, kk)

  _NO = object()

  def py_pop(self, ip, k, default=_NO):
    kk = self.kty.enc(ip, k)
    if ip.ctx.branch(z3.Select(self.keys, kk), 'key present'):
      v = self.vty.dec(z3.Select(self.vals, kk))
      self._del(ip, kk)
      return v
    if default is SymMap._NO:
      raise PyRaise(ExcVal('KeyError', (k,)))
    return default

  def py_clear(self, ip):
    self.keys = z3.K(self.kty.sort, z3.BoolVal(False))
    self.card = z3.IntVal(0)
    ip.note_write(self)

  def items_seq(self, ip, hint='items'):
    """list(d.items()) in an arbitrary but fixed order: a sequence of (k, v) pairs without
    repeated keys that covers the map exactly."""
    pty = TTuple(self.kty, self.vty)
    s = SymSeq.fresh(ip, pty, hint)
    keys, vals, card = self.keys, self.vals, self.card
    kty = self.kty
    idx = z3.Function(ip.ctx.fresh_name('idx'), kty.sort, z3.IntSort())

    def facts(term):
      i = z3.Int('i?')
      j = z3.Int('j?')
      k = z3.Const('k?' + str(kty.sort), kty.sort)
      n = z3.Length(term)
      fst = pty.acc[0]
      snd = pty.acc[1]
      return [
        n == card,
        z3.ForAll([i], z3.Implies(z3.And(0 <= i, i < n),
                                  z3.And(z3.Select(keys, fst(term[i])),
                                         z3.Select(vals, fst(term[i])) == snd(term[i])))),
        z3.ForAll([i, j], z3.Implies(z3.And(0 <= i, i < j, j < n),
                                     fst(term[i]) != fst(term[j]))),
      ]

    def cover(term):
      k = z3.Const('k?' + str(kty.sort), kty.sort)
      n = z3.Length(term)
      fst = pty.acc[0]
      return [z3.ForAll([k], z3.Implies(z3.Select(keys, k),
                                        z3.And(0 <= idx(k), idx(k) < n, fst(term[idx(k)]) == k)))]
    for f in facts(s.term) + cover(s.term):
      ip.ctx.assume(f)
    s.perm_facts = [facts]      # `cover` needs a fresh index function per permutation
    s.cover_src = (keys, kty, pty)
    return s

  def keys_seq(self, ip, hint='keys'):
    s = SymSeq.fresh(ip, self.kty, hint)
    keys, card, kty = self.keys, self.card, self.kty
    idx = z3.Function(ip.ctx.fresh_name('kidx'), kty.sort, z3.IntSort())
    i = z3.Int('i?')
    j = z3.Int('j?')
    k = z3.Const('k?' + str(kty.sort), kty.sort)
    n = s.length()
    for f in [n == card,
              z3.ForAll([i], z3.Implies(z3.And(0 <= i, i < n), z3.Select(keys, s.term[i]))),
              z3.ForAll([i, j], z3.Implies(z3.And(0 <= i, i < j, j < n), s.term[i] != s.term[j])),
              z3.ForAll([k], z3.Implies(z3.Select(keys, k),
                                        z3.And(0 <= idx(k), idx(k) < n, s.term[idx(k)] == k)))]:
      ip.ctx.assume(f)
    return s

  def py_items(self, ip):
    return self.items_seq(ip)

  def py_keys(self, ip):
    return self.keys_seq(ip)

  def as_symseq(self, ip):
    return self.keys_seq(ip)


class SymSet(Model):
  model_name = 'set'

  def __init__(self, ty, mem, card, name='set'):
    self.ty = ty
    self.mem = mem
    self.card = card
    self.name = name
    self.birth = 0

  @staticmethod
  def fresh(ip, ty, hint='set'):
    c = ip.ctx
    s = SymSet(ty, c.fresh(z3.ArraySort(ty.sort, z3.BoolSort()), hint + '.mem'),
               c.fresh(z3.IntSort(), hint + '.card'), hint)
    s.birth = c.counter
    s.emit_facts(ip)
    return s

  @staticmethod
  def empty(ip, ty, name='set'):
    s = SymSet(ty, z3.K(ty.sort, z3.BoolVal(False)), z3.IntVal(0), name)
    s.birth = ip.ctx.counter
    return s

  def snapshot(self):
    return SymSet(self.ty, self.mem, self.card, self.name + "'")

  def emit_facts(self, ip):
    k = z3.Const('k?' + str(self.ty.sort), self.ty.sort)
    wit = ip.ctx.fresh(self.ty.sort, self.name + '.wit')
    ip.ctx.assume(self.card >= 0)
    ip.ctx.assume(z3.ForAll([k], z3.Implies(z3.Select(self.mem, k), self.card >= 1)))
    ip.ctx.assume(z3.Or(self.card == 0, z3.Select(self.mem, wit)))

  def havoc(self, ip, hint=None):
    c = ip.ctx
    h = hint or self.name
    self.mem = c.fresh(z3.ArraySort(self.ty.sort, z3.BoolSort()), h + '.mem')
    self.card = c.fresh(z3.IntSort(), h + '.card')
    ip.note_write(self)
    self.emit_facts(ip)

  def has(self, ip, v):
    return z3.Select(self.mem, self.ty.enc(ip, v))

  def py___contains__(self, ip, v):
    return self.has(ip, v)

  def py___len__(self, ip):
    return self.card

  def py___bool__(self, ip):
    return self.card > 0

  def py_add(self, ip, v):
    k = self.ty.enc(ip, v)
    present = z3.Select(self.mem, k)
    nc = ip.ctx.fresh(z3.IntSort(), self.name + '.card')
    ip.ctx.assume(nc == self.card + z3.If(present, 0, 1))
    self.card = nc
    self.mem = z3.Store(self.mem, k, z3.BoolVal(True))
    ip.note_write(self)
    self.emit_facts(ip)

  def py_discard(self, ip, v):
    k = self.ty.enc(ip, v)
    present = z3.Select(self.mem, k)
    nc = ip.ctx.fresh(z3.IntSort(), self.name + '.card')
    ip.ctx.assume(nc == self.card - z3.If(present, 1, 0))
    self.card = nc
    self.mem = z3.Store(self.mem, k, z3.BoolVal(False))
    ip.note_write(self)
    self.emit_facts(ip)

  def py_update(self, ip, *others):
    """set.update(iterable, ...): exact union.  mem' = mem U {s[i] | 0 <= i < len(s)}; the membership
    of the sequence is a fresh predicate with a skolemised witness index (no nested existential);
    card <= card' <= card + len(s), and card' == card when nothing new is added."""
    c = ip.ctx
    ty = self.ty
    for other in others:
      s = ip.as_symseq(other)
      if s.ty.sort != ty.sort:
        raise EngineError("set.update with elements of another sort")
      n = s.length()
      inseq = z3.Function(c.fresh_name('inseq'), ty.sort, z3.BoolSort())
      w = z3.Function(c.fresh_name('inseq_at'), ty.sort, z3.IntSort())
      i = z3.Int('i?')
      k = z3.Const('k?' + str(ty.sort), ty.sort)
      c.assume(z3.ForAll([i], z3.Implies(z3.And(0 <= i, i < n), inseq(s.term[i]))))
      c.assume(z3.ForAll([k], z3.Implies(inseq(k), z3.And(0 <= w(k), w(k) < n, s.term[w(k)] == k))))
      old_mem, old_card = self.mem, self.card
      nm = c.fresh(z3.ArraySort(ty.sort, z3.BoolSort()), self.name + '.mem')
      nc = c.fresh(z3.IntSort(), self.name + '.card')
      c.assume(z3.ForAll([k], z3.Select(nm, k) == z3.Or(z3.Select(old_mem, k), inseq(k))))
      c.assume(z3.And(old_card <= nc, nc <= old_card + n))
      c.assume(z3.Implies(z3.ForAll([k], z3.Implies(inseq(k), z3.Select(old_mem, k))), nc == old_card))
      self.mem, self.card = nm, nc
      ip.note_write(self)
      self.emit_facts(ip)

  def py_remove(self, ip, v):
    if not ip.ctx.branch(self.has(ip, v), 'set.remove present'):
      raise PyRaise(ExcVal('KeyError', (v,)))
    self.py_discard(ip, v)

  def elems_seq(self, ip, hint='elems'):
    s = SymSeq.fresh(ip, self.ty, hint)
    mem, card, ty = self.mem, self.card, self.ty
    idx = z3.Function(ip.ctx.fresh_name('sidx'), ty.sort, z3.IntSort())
    i = z3.Int('i?')
    j = z3.Int('j?')
    k = z3.Const('k?' + str(ty.sort), ty.sort)
    n = s.length()
    for f in [n == card,
              z3.ForAll([i], z3.Implies(z3.And(0 <= i, i < n), z3.Select(mem, s.term[i]))),
              z3.ForAll([i, j], z3.Implies(z3.And(0 <= i, i < j, j < n), s.term[i] != s.term[j])),
              z3.ForAll([k], z3.Implies(z3.Select(mem, k),
                                        z3.And(0 <= idx(k), idx(k) < n, s.term[idx(k)] == k)))]:
      ip.ctx.assume(f)
    s.idx_fn = idx
    return s

  def as_symseq(self, ip):
    return self.elems_seq(ip)

  def py_listcomp(self, ip, node, fr):
    return self.elems_seq(ip).py_listcomp(ip, node, fr)


# -------------------------------------------------------------------------------------------------
# the world outside /repo


class Lock(Model):
  """threading.Lock used as a context manager: the body is one atomic step; the harness hooks
  assume the lock invariant on acquire and prove it on release."""
  def __init__(self, name='lock'):
    self.name = name

  def enter(self, ip):
    ip.yield_point(self)           # acquiring is a scheduling point
    h = ip.ctx.hooks.get('lock_acquire')
    ip.ctx.lock_depth += 1
    if ip.ctx.lock_depth > 1:
      ip.ctx.check('lock/no_reentry', z3.BoolVal(False), kind='safety')
    if h:
      h(ip, self)
    return None

  def exit(self, ip):
    h = ip.ctx.hooks.get('lock_release')
    if h:
      h(ip, self)
    ip.ctx.lock_depth -= 1


class Namespace(Model):
  """A module-like object (settings, state, events, ...) with declared attributes only."""
  def __init__(self, name, attrs=None, shared=False, item_access=False):
    self.name = name
    self.attrs = dict(attrs or {})
    self.shared = shared
    self.item_access = item_access
    self.ghost = False

  def __repr__(self):
    return "<ns %s>" % self.name

  def py_getattr(self, ip, name):
    if name in getattr(self, 'missing', ()):
      # carbon's Settings is a dict with __getattr__ = dict.__getitem__: an unset option raises KeyError
      raise PyRaise(ExcVal('KeyError', (name,)))
    if name in self.attrs:
      return self.attrs[name]
    if name == 'get' and self.item_access:
      # dict-like settings object: settings.get(key[, default])
      from .values import Builtin
      return Builtin(self.name + '.get', lambda ip2, a, k: self.py_get(ip2, *a))
    raise EngineError("%s.%s is not declared by the harness" % (self.name, name))

  def py_setattr(self, ip, name, value):
    self.attrs[name] = value
    ip.note_write(self, name)

  def py___getitem__(self, ip, k):
    if not self.item_access or not isinstance(k, str):
      raise EngineError("%s[%r]" % (self.name, k))
    return self.py_getattr(ip, k)

  def py_get(self, ip, k, default=None):
    if isinstance(k, str) and k in getattr(self, 'missing', ()):
      return default
    if isinstance(k, str) and k in self.attrs:
      return self.attrs[k]
    if isinstance(k, str) and self.item_access:
      raise EngineError("%s.get(%r) is not declared by the harness" % (self.name, k))
    return default


class EffectLog(object):
  """Ghost: the sequence of calls to externals on this path (concrete length)."""
  def __init__(self):
    self.events = []

  def add(self, name, args=(), outcome='ret', value=None):
    self.events.append((name, tuple(args), outcome, value))

  def names(self):
    return [e[0] for e in self.events]

  def of(self, name):
    return [e for e in self.events if e[0] == name]

  def clear(self):
    self.events = []


class External(Model):
  """A function outside /repo with an assumed contract: logs the call, may raise, returns."""
  def __init__(self, name, log, ret=None, raises=None, pre=None):
    self.name = name
    self.log = log
    self.ret = ret            # ip, args, kwargs -> value
    self.raises = raises      # None | 'any' | list of class names | callable(ip,args)-> list
    self.pre = pre

  def __repr__(self):
    return "<external %s>" % self.name

  def py___call__(self, ip, *args, **kwargs):
    if self.pre:
      self.pre(ip, args, kwargs)
    raises = self.raises
    if callable(raises):
      raises = raises(ip, args)
    if raises:
      if raises == 'any':
        if ip.ctx.choose(2, 'raise:' + self.name) == 1:
          exc = ExcVal(None, (), sym=SymExc(self.name))
          self.log.add(self.name, args, 'raise', exc)
          raise PyRaise(exc)
      else:
        d = ip.ctx.choose(1 + len(raises), 'raise:' + self.name)
        if d > 0:
          exc = ExcVal(raises[d - 1], ())
          self.log.add(self.name, args, 'raise', exc)
          raise PyRaise(exc)
    v = self.ret(ip, args, kwargs) if self.ret else None
    self.log.add(self.name, args, 'ret', v)
    return v
