"""Path exploration by deterministic re-execution, path conditions, obligations.

A *unit* is a Python callable ``run(ctx)`` that sets up a symbolic pre-state (assuming the
``requires`` of the function under contract), asks the interpreter to execute the real function
body, and then states the ``ensures`` with ``ctx.check(label, formula)``.

Exploration re-runs ``run`` once per path.  Every symbolic branch consults a decision trace; a
decision beyond the end of the trace is resolved by a feasibility query and the alternative is
queued.  Because ``run`` is deterministic for a fixed trace (fresh-name counters restart at 0
for every run) no state ever has to be copied.
"""
import z3

FEAS_TIMEOUT_MS = 5000


class PathEnd(Exception):
  """The current path is over (infeasible, or deliberately cut after a loop body)."""


class EngineError(Exception):
  """Unsupported construct / checker problem: exit code 3, never a verdict."""


class Obligation(object):
  __slots__ = ('label', 'goal', 'pc', 'path', 'kind', 'meta', 'unit', 'uid')

  def __init__(self, label, goal, pc, path, kind, meta, unit):
    self.label = label
    self.goal = goal
    self.pc = pc
    self.path = path
    self.kind = kind
    self.meta = meta or {}
    self.unit = unit
    self.uid = None

  def smt2(self):
    s = z3.Solver()
    for a in self.pc:
      s.add(a)
    s.add(z3.Not(self.goal))
    return "(set-logic ALL)\n" + s.to_smt2()

  def smt2_relaxed(self):
    """the same VC without the quantified hypotheses (unsat here => unsat with them)"""
    s = z3.Solver()
    for a in self.pc:
      if not has_quantifier(a):
        s.add(a)
    s.add(z3.Not(self.goal))
    return "(set-logic ALL)\n" + s.to_smt2()


_QCACHE = {}


def has_quantifier(e):
  k = e.get_id()
  r = _QCACHE.get(k)
  if r is not None:
    return r[1]
  todo = [e]
  seen = set()
  r = False
  while todo:
    x = todo.pop()
    i = x.get_id()
    if i in seen:
      continue
    seen.add(i)
    if z3.is_quantifier(x):
      r = True
      break
    todo.extend(x.children())
  # (the entry keeps the term alive: z3 recycles the ids of freed terms, and a recycled id must
  # not inherit the verdict of the term that had it before)
  _QCACHE[k] = (e, r)
  return r


def is_z3(v):
  return isinstance(v, z3.ExprRef)


def as_bool(v):
  """Python bool / z3 Bool -> z3 Bool"""
  if isinstance(v, bool):
    return z3.BoolVal(v)
  if is_z3(v) and z3.is_bool(v):
    return v
  raise EngineError("not a boolean term: %r" % (v,))


class Ctx(object):
  """One path."""

  def __init__(self, explorer, trace, unit_name):
    self.explorer = explorer
    self.trace = list(trace)
    self.pos = 0
    self.pc = []
    self.obligations = []
    self.covers = []
    self.counter = 0
    self.unit = unit_name
    self.solver = z3.Solver()
    self.solver.set('timeout', FEAS_TIMEOUT_MS)
    self.notes = []          # free-form per-path notes (shown in samples)
    self.ghost = {}          # harness-owned ghost state
    self.lock_depth = 0
    self.hooks = {}          # harness hooks: 'yield_point', 'lock_acquire', 'lock_release'
    self.path_events = []    # human readable trail of decisions
    self.completed = False

  # ---- naming ------------------------------------------------------------------------------
  def fresh_name(self, hint):
    self.counter += 1
    return "%s!%d" % (hint, self.counter)

  def fresh(self, sort, hint='v'):
    return z3.Const(self.fresh_name(hint), sort)

  # ---- assumptions -------------------------------------------------------------------------
  def assume(self, cond):
    if isinstance(cond, bool):
      if not cond:
        raise PathEnd()
      return
    cond = z3.simplify(cond)
    if z3.is_true(cond):
      return
    if z3.is_false(cond):
      raise PathEnd()
    self.pc.append(cond)
    self._add(cond)

  def _add(self, cond):
    """the feasibility solver only sees quantifier-free facts (a weaker theory can only make
    more branches look feasible, which is sound); covers use the full path condition"""
    if not has_quantifier(cond):
      self.solver.add(cond)

  def full_feasible(self):
    s = z3.Solver()
    s.set('timeout', 2000)
    for a in self.pc:
      s.add(a)
    return s.check() != z3.unsat

  def _feasible(self, cond):
    self.explorer.feas_queries += 1
    self.solver.push()
    try:
      self.solver.add(cond)
      r = self.solver.check()
    finally:
      self.solver.pop()
    return r != z3.unsat

  def feasible_now(self):
    self.explorer.feas_queries += 1
    return self.solver.check() != z3.unsat

  # ---- decisions ---------------------------------------------------------------------------
  def branch(self, cond, hint=''):
    """Return a Python bool for a (possibly symbolic) condition, forking the path if needed."""
    if isinstance(cond, bool):
      return cond
    cond = z3.simplify(as_bool(cond))
    if z3.is_true(cond):
      return True
    if z3.is_false(cond):
      return False
    if self.pos < len(self.trace):
      d = self.trace[self.pos]
    else:
      t = self._feasible(cond)
      f = self._feasible(z3.Not(cond))
      if t and f:
        d = 1
        self.explorer.push(self.trace[:self.pos] + [0])
      elif t:
        d = 1
      elif f:
        d = 0
      else:
        raise PathEnd()
      self.trace.append(d)
    self.pos += 1
    c = cond if d else z3.Not(cond)
    self.pc.append(c)
    self._add(c)
    if hint:
      self.path_events.append("%s=%s" % (hint, bool(d)))
    return bool(d)

  def choose(self, n, hint=''):
    """Demonic n-way choice (all alternatives explored)."""
    if n <= 0:
      raise PathEnd()
    if n == 1:
      return 0
    if self.pos < len(self.trace):
      d = self.trace[self.pos]
    else:
      d = 0
      for k in range(n - 1, 0, -1):
        self.explorer.push(self.trace[:self.pos] + [k])
      self.trace.append(d)
    self.pos += 1
    if hint:
      self.path_events.append("%s#%d" % (hint, d))
    return d

  # ---- obligations -------------------------------------------------------------------------
  def check(self, label, cond, kind='ensures', meta=None, assume_after=True):
    """Proof obligation: path condition ==> cond."""
    cond = as_bool(cond)
    ob = Obligation(label, cond, list(self.pc), tuple(self.trace[:self.pos]), kind, meta,
                    self.unit)
    ob.meta.setdefault('trail', list(self.path_events))
    self.obligations.append(ob)
    pref = self.explorer.label_prefixes
    if pref is not None and not any(label.startswith(p) for p in pref):
      # a clause of another property sharing this unit: it is decided by that property's check;
      # assuming it here could hide a failure of this property's clauses behind it
      return
    if assume_after and not z3.is_false(z3.simplify(cond)):
      # (a clause that is literally false on this path is recorded but not assumed, so that the
      # clauses after it are still generated)
      self.assume(cond)

  def cover(self, label):
    """Reachability cover: this point must be reachable on some path (vacuity guard)."""
    if label in self.explorer.covers_hit:
      self.covers.append((label, True))
      return
    # cheap first (quantifier-free part unsat => certainly unreachable), then the full path condition
    hit = self.feasible_now() and self.full_feasible()
    if hit:
      self.explorer.covers_hit.add(label)
    self.covers.append((label, hit))

  def stop(self):
    raise PathEnd()

  def note(self, s):
    self.notes.append(s)


class Explorer(object):
  def __init__(self, max_paths=4000):
    self.work = []
    self.max_paths = max_paths
    self.feas_queries = 0
    self.covers_hit = set()
    self.label_prefixes = None       # when set: only clauses with these label prefixes are assumed after being checked

  def push(self, trace):
    self.work.append(trace)

  def explore(self, unit_name, run):
    """returns (obligations, covers_hit, n_paths, n_completed)"""
    self.work = [[]]
    self.covers_hit = set()
    obligations = []
    covers = {}
    n_paths = 0
    n_completed = 0
    while self.work:
      trace = self.work.pop()
      n_paths += 1
      if n_paths > self.max_paths:
        raise EngineError("unit %s: more than %d paths" % (unit_name, self.max_paths))
      ctx = Ctx(self, trace, unit_name)
      try:
        run(ctx)
        ctx.completed = True
        n_completed += 1
      except PathEnd:
        pass
      except Exception as e:
        # an exception on a path whose feasibility query had timed out (busy machine) is not the
        # code's: re-examine the path condition with a generous budget before passing it on
        if type(e).__name__ not in ('PyRaise', 'EngineError', 'KeyError', 'AttributeError', 'TypeError', 'IndexError'):
          raise
        chk = z3.Solver()
        chk.set('timeout', 60000)
        for a in ctx.pc:
          if not has_quantifier(a):
            chk.add(a)
        if chk.check() != z3.unsat:
          raise
      for ob in ctx.obligations:
        obligations.append(ob)
      for (c, hit) in ctx.covers:
        # a cover only counts if the path condition at that point is satisfiable
        covers.setdefault(c, 0)
        if hit:
          covers[c] += 1
    return obligations, covers, n_paths, n_completed
