"""Symbolic interpreter for the Python subset of the functions under contract.

A construct that is not supported raises EngineError (exit 3); nothing is silently skipped,
except what DESIGN.md 1.1 lists as dropped: docstrings and calls to ``log.*`` (the whole call
expression, arguments included, is treated as an effect-free no-op returning None).
"""
import ast
import re
import z3

from .core import EngineError, PathEnd, is_z3
from .values import (Atom, Val, Inf, INF, Model, ModelMethod, Builtin, RepoFunc, RepoClass,
                     ModelClass, BoundMethod, Closure, PyObj, ExcClass, ExcVal, SymExc, PyRaise,
                     exc_is_subclass, znum, coerce_pair, is_num, to_z3num)


class _Return(Exception):
  def __init__(self, value):
    self.value = value


class _Break(Exception):
  pass


class _Continue(Exception):
  pass


class NeedWeak(Exception):
  """The body of a cut loop writes to a container that the loop contract does not havoc.  The
  unit is re-explored with that allocation site abstracted to a fully nondeterministic
  container (sound over-approximation: any content at any time)."""
  def __init__(self, site):
    Exception.__init__(self, "weak site %r" % (site,))
    self.site = site


WEAK_SITES = set()


class AnchorMoved(Exception):
  """A loop contract's anchor no longer matches the source: UNDECIDED, not a violation."""


class ContractMismatch(Exception):
  """The function under contract read an attribute that the sidecar harness's pre-state object
  does not define (typically state added by a change to the code) and the resulting AttributeError
  left the function: the contract does not describe this code -- UNDECIDED, never a violation."""


class LoopSpec(object):
  """Contract of one loop, attached by (function, ordinal) plus a fingerprint of the header.

  anchor   : prefix of the unparsed loop header (``while <test>`` / ``for <target> in <iter>``)
  inv      : fr -> [(label, z3 Bool)]       inductive invariant (fr is the live Frame)
  havoc    : fr -> None                      assigns fresh symbolic values to everything the body
                                             may modify (locals are checked syntactically, model
                                             objects dynamically: a write to something that was
                                             not havocked is an EngineError)
  ghost_pre / ghost_step : fr -> None        ghost updates before the loop / at the end of a body
  variant  : fr -> z3 Int                    optional termination measure
  """
  def __init__(self, anchor, inv, havoc, ghost_pre=None, ghost_step=None, variant=None,
               locals_modified=None, label_prefix=None):
    self.label_prefix = label_prefix
    self.anchor = anchor
    self.inv = inv
    self.havoc = havoc
    self.ghost_pre = ghost_pre
    self.ghost_step = ghost_step
    self.variant = variant
    self.locals_modified = locals_modified


class Frame(object):
  def __init__(self, func, module_env, parent=None):
    self.func = func
    self.locals = {}
    self.env = module_env
    self.parent = parent        # lexically enclosing frame (closures)
    self.gen_out = None
    self.globals_declared = set()
    self.loop_k = {}            # loop ordinal -> ghost index (for-loops under invariant)
    self.ghost = {}

  def __getitem__(self, name):
    return self.lookup(name)

  def lookup(self, name):
    f = self
    while f is not None:
      if name in f.locals:
        return f.locals[name]
      f = f.parent
    raise KeyError(name)

  def __setitem__(self, name, value):
    self.locals[name] = value


class ModuleEnv(object):
  """Global namespace of one repo module as seen by the interpreter: harness bindings first,
  then the functions/classes the module defines (read from source)."""
  def __init__(self, ip, name, bindings):
    self.ip = ip
    self.name = name
    self.bindings = dict(bindings)
    self.consts = {}

  def lookup(self, name):
    if name in self.bindings:
      return self.bindings[name]
    mi = self.ip.index.module(self.name)
    if name in mi.functions:
      return RepoFunc(mi.functions[name][-1])
    if name in mi.classes:
      return RepoClass(mi.classes[name][self.ip.class_ordinals.get((self.name, name), -1)])
    if name in mi.assigns:
      # module-level constant (e.g. UnitMultipliers, defaultSchema): evaluated from source on demand
      if name not in self.consts:
        self.consts[name] = self.ip.eval(mi.assigns[name], Frame(None, self))
      return self.consts[name]
    if name in self.ip.builtins:
      return self.ip.builtins[name]
    std = self.stdlib_import(name)
    if std is not None:
      return std
    raise EngineError("unbound global %r in module %s (bind it in the harness)" % (name, self.name))

  def stdlib_import(self, name):
    """`from math import isnan, isinf, isfinite` at module level: float classification predicates,
    dispatched to the value model (py_isnan / py_isinf) or decided on plain numbers."""
    mi = self.ip.index.module(self.name)
    for node in mi.tree.body:
      if isinstance(node, ast.ImportFrom) and node.module == 'math':
        for a in node.names:
          if (a.asname or a.name) == name and a.name in ('isnan', 'isinf', 'isfinite'):
            return Builtin('math.' + a.name, _math_pred(a.name))
    return None


def _math_pred(which):
  def call(ip, args, kw):
    import math
    x = args[0]
    if isinstance(x, Model) and hasattr(x, 'py_' + which):
      return getattr(x, 'py_' + which)(ip)
    if isinstance(x, Inf):
      return which == 'isinf'
    if isinstance(x, (int, float)) and not isinstance(x, bool):
      return getattr(math, which)(x)
    if is_z3(x) and (z3.is_int(x) or z3.is_real(x)):
      return which == 'isfinite'       # z3 numbers are finite reals / integers
    raise EngineError("math.%s(%r)" % (which, x))
  return call


class Spec(object):
  """Contract of a function under contract, used two ways: *verified* against the body (unit),
  and *assumed* at call sites.  ``apply(ip, args, kwargs)`` implements the call-site use:
  check the requires (obligations), havoc the frame, assume the ensures, return the result or
  raise PyRaise."""
  def __init__(self, qualname, apply):
    self.qualname = qualname
    self.apply = apply


class Interp(object):
  def __init__(self, ctx, index, bindings=None, specs=None, loops=None, inline_depth=12):
    self.ctx = ctx
    self.index = index
    self.module_bindings = bindings or {}     # module name -> {name: value}
    self.envs = {}
    self.specs = specs or {}                  # qualname -> Spec
    self.loops = loops or {}                  # (qualname, ordinal) -> LoopSpec
    self.class_ordinals = {}                  # (module, class) -> which definition is live
    self.depth = 0
    self.inline_depth = inline_depth
    self.no_spec_for = set()                  # qualnames being verified (body executed, not contract)
    self.builtins = {}
    self.atoms = {}
    self.writes = []                          # (obj, field) log for loop frame checks
    self.ext = {}                             # harness extension points (float_of_str, ...)
    self.call_stack = []
    self.class_attr_values = {}
    self.label_prefix = ''
    from . import builtins as B
    B.install(self)

  # ------------------------------------------------------------------------------------------
  def env(self, module):
    if module not in self.envs:
      self.envs[module] = ModuleEnv(self, module, self.module_bindings.get(module, {}))
    return self.envs[module]

  def atom(self, s):
    """Atom constant for a string literal; distinct literals are distinct atoms."""
    if s not in self.atoms:
      a = z3.Const('str:' + s, Atom)
      for o in self.atoms.values():
        self.ctx.assume(a != o)
      self.atoms[s] = a
    return self.atoms[s]

  def note_write(self, obj, field=None):
    self.writes.append((obj, field))

  # ------------------------------------------------------------------------------------------
  # calling
  def run(self, qualname, args, kwargs=None, self_obj=None):
    """Execute the body of the function under contract (its own Spec, if any, is not used)."""
    fi = self.index.func(qualname)
    self.no_spec_for.add(fi.qualname)
    fn = RepoFunc(fi)
    if self_obj is not None:
      args = [self_obj] + list(args)
    return self.call_repo(fn, list(args), kwargs or {}, top=True)

  def call(self, f, args, kwargs=None):
    kwargs = kwargs or {}
    if isinstance(f, BoundMethod):
      if isinstance(f.func, RepoFunc):
        return self.call_repo(f.func, [f.obj] + list(args), kwargs)
      return f.func(self, f.obj, *args, **kwargs)
    if isinstance(f, RepoFunc):
      return self.call_repo(f, list(args), kwargs)
    if isinstance(f, ModelMethod):
      return f.fn(self, *args, **kwargs)
    if isinstance(f, Builtin):
      return f.fn(self, list(args), kwargs)
    if isinstance(f, Closure):
      return self.call_lambda(f, list(args), kwargs)
    if isinstance(f, RepoClass):
      return self.instantiate(f.info, list(args), kwargs)
    if isinstance(f, ModelClass):
      if f.ctor is None:
        raise EngineError("model class %s is not constructible" % f.name)
      return f.ctor(self, *args, **kwargs)
    if isinstance(f, ExcClass):
      return ExcVal(f.name, tuple(args))
    if isinstance(f, UnboundModelMethod):
      return f.cls.methods[f.name](self, *args, **kwargs)
    if isinstance(f, SuperProxy):
      raise EngineError("calling super object")
    if isinstance(f, Model) and hasattr(f, 'py___call__'):
      return f.py___call__(self, *args, **kwargs)
    if isinstance(f, PyObj):
      m = self.getattr(f, '__call__')
      return self.call(m, args, kwargs)
    if is_z3(f):
      h = self.ext.get(('call', f.sort().name()))
      if h is not None:
        return h(self, f, args, kwargs)
    raise EngineError("cannot call %r" % (f,))

  def bind_args(self, node_args, args, kwargs, frame, fname):
    a = node_args
    params = [p.arg for p in a.posonlyargs + a.args]
    defaults = a.defaults
    n_req = len(params) - len(defaults)
    args = list(args)
    kwargs = dict(kwargs)
    for i, p in enumerate(params):
      if i < len(args):
        frame.locals[p] = args[i]
      elif p in kwargs:
        frame.locals[p] = kwargs.pop(p)
      elif i >= n_req:
        frame.locals[p] = self.eval(defaults[i - n_req], frame)
      else:
        raise PyRaise(ExcVal('TypeError', ("%s() missing argument %s" % (fname, p),)))
    extra = args[len(params):]
    if a.vararg is not None:
      frame.locals[a.vararg.arg] = tuple(extra)
    elif extra:
      raise PyRaise(ExcVal('TypeError', ("%s() takes %d positional arguments" % (fname, len(params)),)))
    for i, p in enumerate(a.kwonlyargs):
      if p.arg in kwargs:
        frame.locals[p.arg] = kwargs.pop(p.arg)
      elif a.kw_defaults[i] is not None:
        frame.locals[p.arg] = self.eval(a.kw_defaults[i], frame)
      else:
        raise PyRaise(ExcVal('TypeError', ("missing kw-only %s" % p.arg,)))
    if a.kwarg is not None:
      frame.locals[a.kwarg.arg] = DictLit(kwargs)
    elif kwargs:
      raise PyRaise(ExcVal('TypeError', ("%s() got unexpected keyword %s" % (fname, sorted(kwargs)[0]),)))

  def call_repo(self, fn, args, kwargs, top=False):
    fi = fn.info
    if not top and fi.qualname in self.specs and fi.qualname not in self.no_spec_for:
      return self.specs[fi.qualname].apply(self, args, kwargs)
    if not top and fi.qualname in self.specs and self.depth > 0 and fi.qualname in self.no_spec_for \
        and fi.qualname in self.call_stack:
      # recursive call of the function being verified: use its contract
      return self.specs[fi.qualname].apply(self, args, kwargs)
    if self.depth >= self.inline_depth:
      raise EngineError("inline depth exceeded at %s" % fi.qualname)
    self.index.mark_used(fi if fi.parent is None else fi.parent)
    frame = Frame(fi, self.env(fi.module), parent=fn.closure)
    self.bind_args(fi.node.args, args, kwargs, frame, fi.name)
    if 'staticmethod' in fi.decorators or 'classmethod' in fi.decorators:
      pass
    self.depth += 1
    self.call_stack.append(fi.qualname)
    try:
      if top:
        try:
          return self._run_body(fi, frame)
        except PyRaise as e:
          miss = getattr(e.exc, 'harness_miss', None)
          if miss:
            raise ContractMismatch("%s reads %s, which the contract's pre-state does not define" % (fi.qualname, miss))
          raise
      return self._run_body(fi, frame)
    finally:
      self.depth -= 1
      self.call_stack.pop()

  def _run_body(self, fi, frame):
    if True:
      if fi.is_generator:
        from .models import PyList
        mk = self.ext.get(('gen_out', fi.qualname))
        frame.gen_out = mk(self) if mk else PyList([])
        try:
          self.exec_block(fi.node.body, frame)
        except _Return:
          pass
        return frame.gen_out
      try:
        self.exec_block(fi.node.body, frame)
      except _Return as r:
        return r.value
      return None

  def call_lambda(self, clo, args, kwargs):
    frame = Frame(clo.frame.func, clo.frame.env, parent=clo.frame)
    self.bind_args(clo.node.args, args, kwargs, frame, '<lambda>')
    return self.eval(clo.node.body, frame)

  def instantiate(self, ci, args, kwargs):
    hook = self.ext.get(('new', ci.module + ':' + ci.name))
    if hook is not None:
      return hook(self, ci, args, kwargs)
    obj = PyObj(ci)
    self.ctx.counter += 1
    obj.birth = self.ctx.counter
    base = self.builtin_base(ci)
    if base is not None:
      obj.base = base
    init = self.find_method(ci, '__init__')
    if init is not None:
      self.call(BoundMethod(obj, init[0]) if isinstance(init[0], RepoFunc)
                else BoundMethod(obj, init[0]), args, kwargs)
    return obj

  def builtin_base(self, ci):
    """If the class derives from a model class that carries per-instance state (defaultdict),
    create that state."""
    for b in self.mro(ci)[1:]:
      if isinstance(b, ModelClass) and getattr(b, 'instance_model', None):
        return b.instance_model(self)
    return None

  # ------------------------------------------------------------------------------------------
  # classes
  def mro(self, ci):
    """depth-first, left-to-right (sufficient for carbon's hierarchies; stated assumption)."""
    out = [ci]
    for bexpr in ci.base_exprs:
      b = self.eval(bexpr, Frame(None, self.env(ci.module)))
      if isinstance(b, RepoClass):
        for x in self.mro(b.info):
          if x not in out:
            out.append(x)
      elif isinstance(b, ModelClass):
        stack = [b]
        while stack:
          x = stack.pop(0)
          if x not in out:
            out.append(x)
          stack = list(x.bases) + stack
      elif isinstance(b, ExcClass):
        out.append(b)
      elif b is OBJECT:
        pass
      else:
        raise EngineError("unsupported base class %r of %s" % (b, ci.name))
    return out

  def find_method(self, ci, name, after=None):
    """-> (callable, owner) or None"""
    mro = self.mro(ci)
    if after is not None:
      idx = [i for i, c in enumerate(mro) if getattr(c, 'name', None) == after.name]
      mro = mro[idx[0] + 1:] if idx else mro
    for c in mro:
      if isinstance(c, ModelClass):
        if name in c.methods:
          return (c.methods[name], c)
      elif isinstance(c, ExcClass):
        continue
      else:
        if name in c.methods:
          return (RepoFunc(c.methods[name]), c)
        alias = c.attrs.get(name)
        if isinstance(alias, ast.Name) and alias.id in c.methods:
          # class-level alias such as `__bool__ = __nonzero__`
          return (RepoFunc(c.methods[alias.id]), c)
    return None

  def find_class_attr(self, ci, name):
    for c in self.mro(ci):
      if isinstance(c, ModelClass):
        continue
      if isinstance(c, ExcClass):
        continue
      if name in c.attrs:
        # a class-level attribute is evaluated once per interpreter (= per process): a mutable one
        # (a class-level dict used as a cache, say) is shared by all later accesses
        key = (c.module, c.name, getattr(c, 'ordinal', 0), name)
        if key not in self.class_attr_values:
          self.class_attr_values[key] = self.eval(c.attrs[name], Frame(None, self.env(c.module)))
        return self.class_attr_values[key]
    raise KeyError(name)

  # ------------------------------------------------------------------------------------------
  # attributes
  def yield_point(self, obj=None):
    h = self.ctx.hooks.get('yield_point')
    if h is not None and self.ctx.lock_depth == 0:
      h(self, obj)

  def getattr(self, obj, name):
    if isinstance(obj, PyObj):
      if obj.shared:
        self.yield_point(obj)
      if name in obj.fields:
        return obj.fields[name]
      if obj.cls is not None:
        m = self.find_method(obj.cls, name)
        if m is not None:
          f, owner = m
          if isinstance(f, RepoFunc):
            if 'property' in f.info.decorators:
              return self.call_repo(f, [obj], {})
            if 'staticmethod' in f.info.decorators:
              return f
            if 'classmethod' in f.info.decorators:
              return BoundMethod(RepoClass(obj.cls), f)
            return BoundMethod(obj, f)
          return BoundMethod(obj, f)
        try:
          return self.find_class_attr(obj.cls, name)
        except KeyError:
          pass
      if obj.base is not None:
        return obj.base.py_getattr(self, name)
      if name == '__class__':
        return RepoClass(obj.cls)
      exc = ExcVal('AttributeError', ("%r object has no attribute %r" % (obj.name, name),))
      if obj.birth == 0:
        # an object the harness built (not one the code under contract constructed itself)
        exc.harness_miss = "%s.%s" % (obj.name, name)
      raise PyRaise(exc)
    if isinstance(obj, Model):
      if obj.shared:
        self.yield_point(obj)
      return obj.py_getattr(self, name)
    if isinstance(obj, RepoClass):
      ci = obj.info
      m = self.find_method(ci, name)
      if m is not None:
        f, owner = m
        if isinstance(f, RepoFunc) and 'classmethod' in f.info.decorators:
          return BoundMethod(obj, f)
        return f
      try:
        return self.find_class_attr(ci, name)
      except KeyError:
        pass
      if name == '__name__':
        return ci.name
      raise PyRaise(ExcVal('AttributeError', ("class %s has no attribute %r" % (ci.name, name),)))
    if isinstance(obj, ModelClass):
      if name in obj.methods:
        return UnboundModelMethod(obj, name)
      raise EngineError("model class %s has no attribute %s" % (obj.name, name))
    if isinstance(obj, SuperProxy):
      target = obj.obj
      if not isinstance(target, PyObj) or not isinstance(obj.cls, RepoClass):
        raise EngineError("super() on %r" % (target,))
      m = self.find_method(target.cls, name, after=obj.cls.info)
      if m is None:
        if name == '__init__':
          return Builtin('object.__init__', lambda ip, a, k: None)
        raise PyRaise(ExcVal('AttributeError', (name,)))
      return BoundMethod(target, m[0])
    if isinstance(obj, ExcVal):
      if name == 'args':
        return tuple(obj.args)
      raise EngineError("exception attribute %s" % name)
    from . import builtins as B
    return B.value_getattr(self, obj, name)

  def setattr(self, obj, name, value):
    if isinstance(obj, PyObj):
      if obj.shared:
        self.yield_point(obj)
      obj.fields[name] = value
      self.note_write(obj, name)
      return
    if isinstance(obj, Model):
      if obj.shared:
        self.yield_point(obj)
      obj.py_setattr(self, name, value)
      return
    raise EngineError("cannot set attribute %s on %r" % (name, obj))

  # ------------------------------------------------------------------------------------------
  # truthiness, comparison, arithmetic
  def truth(self, v):
    """-> Python bool or z3 Bool"""
    if v is None:
      return False
    if isinstance(v, bool):
      return v
    if isinstance(v, (int, float, str, bytes, tuple)):
      return bool(v)
    if isinstance(v, Inf):
      return True
    if is_z3(v):
      if z3.is_bool(v):
        return v
      if z3.is_int(v):
        return v != 0
      if z3.is_real(v):
        return v != 0
      h = self.ext.get(('truth', v.sort().name()))
      if h is not None:
        return h(self, v)
      if v.sort().kind() == z3.Z3_UNINTERPRETED_SORT:
        # an opaque value (e.g. a datapoint value): its truthiness is some function of the value
        return z3.Function('truthy/' + v.sort().name(), v.sort(), z3.BoolSort())(v)
      if z3.is_seq(v):
        return z3.Length(v) > 0
      raise EngineError("truthiness of term of sort %s" % v.sort())
    if isinstance(v, Model):
      if hasattr(v, 'py___bool__'):
        return v.py___bool__(self)
      if hasattr(v, 'py___len__'):
        n = v.py___len__(self)
        return self.truth(n)
      return True
    if isinstance(v, PyObj):
      if v.cls is not None:
        m = self.find_method(v.cls, '__bool__') or self.find_method(v.cls, '__len__')
        if m is not None:
          return self.truth(self.call(BoundMethod(v, m[0]), []))
        try:
          alias = self.find_class_attr(v.cls, '__bool__')
          return self.truth(self.call(BoundMethod(v, alias), []))
        except KeyError:
          pass
      if v.base is not None:
        return self.truth(v.base)
      return True
    if isinstance(v, (RepoFunc, BoundMethod, Closure, Builtin, RepoClass, ModelClass, ModelMethod,
                      ExcVal)):
      return True
    raise EngineError("truthiness of %r" % (v,))

  def branch(self, v, hint=''):
    return self.ctx.branch(self.truth(v), hint)

  def eq(self, a, b):
    """-> Python bool or z3 Bool"""
    if (a is None or b is None) and hasattr(b if a is None else a, 'is_none'):
      return (b if a is None else a).is_none(self)
    if a is None or b is None:
      if a is None and b is None:
        return True
      return False if not isinstance(a if b is None else b, OptVal) else \
          (a if b is None else b).is_none
    if isinstance(a, Model) and hasattr(a, 'py___eq__'):
      return a.py___eq__(self, b)
    if isinstance(b, Model) and hasattr(b, 'py___eq__'):
      return b.py___eq__(self, a)
    if isinstance(a, Inf) or isinstance(b, Inf):
      if isinstance(a, Inf) and isinstance(b, Inf):
        return a.sign == b.sign
      o = b if isinstance(a, Inf) else a
      if isinstance(o, PosReal):
        return o.is_inf
      return False
    if isinstance(a, PosReal) or isinstance(b, PosReal):
      raise EngineError("== on extended reals")
    if isinstance(a, tuple) and isinstance(b, tuple):
      if len(a) != len(b):
        return False
      conj = [self.eq(x, y) for x, y in zip(a, b)]
      if all(isinstance(c, bool) for c in conj):
        return all(conj)
      return z3.And([c if not isinstance(c, bool) else z3.BoolVal(c) for c in conj])
    if isinstance(a, tuple) or isinstance(b, tuple):
      t, o = (a, b) if isinstance(a, tuple) else (b, a)
      if is_z3(o):
        h = self.ext.get(('tuple_enc', o.sort().name()))
        if h is not None:
          return h(self, t) == o
      return False
    if is_z3(a) or is_z3(b):
      if isinstance(a, str):
        a = self.atom(a)
      if isinstance(b, str):
        b = self.atom(b)
      if isinstance(a, bool) and is_z3(b) and z3.is_bool(b):
        return b if a else z3.Not(b)
      if isinstance(b, bool) and is_z3(a) and z3.is_bool(a):
        return a if b else z3.Not(a)
      if is_num(a) and is_num(b):
        x, y = coerce_pair(a, b)
        return x == y
      if is_z3(a) and is_z3(b):
        if a.sort() == b.sort():
          return a == b
        return False
      return False
    if isinstance(a, (PyObj, Model)) or isinstance(b, (PyObj, Model)):
      if hasattr(a, 'py___eq__'):
        return a.py___eq__(self, b)
      o = b if isinstance(a, (PyObj, Model)) else a
      mdl = a if isinstance(a, (PyObj, Model)) else b
      if isinstance(mdl, Model) and (is_z3(o) or is_num(o) or isinstance(o, (str, tuple))):
        # a model without an equality contract compared with a plain value: refusing is better
        # than silently answering by identity
        raise EngineError("== between model %s and a plain value (no equality contract)" % type(mdl).__name__)
      return a is b
    return a == b

  def is_same(self, a, b):
    if a is None or b is None:
      o = b if a is None else a
      if hasattr(o, 'is_none'):
        return o.is_none(self)
      return self.eq(a, b)
    if isinstance(a, (bool, int, str)) and isinstance(b, (bool, int, str)):
      return a is b or a == b
    return a is b

  def compare(self, op, a, b):
    if isinstance(op, ast.Eq):
      return self.eq(a, b)
    if isinstance(op, ast.NotEq):
      return self.neg(self.eq(a, b))
    if isinstance(op, ast.Is):
      return self.is_same(a, b)
    if isinstance(op, ast.IsNot):
      return self.neg(self.is_same(a, b))
    if isinstance(op, ast.In):
      return self.contains(b, a)
    if isinstance(op, ast.NotIn):
      return self.neg(self.contains(b, a))
    # ordering
    if isinstance(a, Inf) or isinstance(b, Inf) or isinstance(a, PosReal) or isinstance(b, PosReal):
      return order_ext(op, a, b)
    if isinstance(a, Model) and hasattr(a, 'py_compare'):
      return a.py_compare(self, op, b, False)
    if isinstance(b, Model) and hasattr(b, 'py_compare'):
      return b.py_compare(self, op, a, True)
    if isinstance(a, tuple) and isinstance(b, tuple):
      if all(isinstance(x, (int, float, str)) for x in a + b):
        return {ast.Lt: a < b, ast.LtE: a <= b, ast.Gt: a > b, ast.GtE: a >= b}[type(op)]
      raise EngineError("tuple ordering")
    if is_num(a) and is_num(b) and not (is_z3(a) or is_z3(b)):
      return {ast.Lt: a < b, ast.LtE: a <= b, ast.Gt: a > b, ast.GtE: a >= b}[type(op)]
    if is_num(a) and is_num(b):
      x, y = coerce_pair(a, b)
      return {ast.Lt: x < y, ast.LtE: x <= y, ast.Gt: x > y, ast.GtE: x >= y}[type(op)]
    if isinstance(a, (bool,)) or isinstance(b, bool):
      return self.compare(op, int(a) if isinstance(a, bool) else a, int(b) if isinstance(b, bool) else b)
    raise EngineError("ordering comparison of %r and %r" % (a, b))

  def neg(self, c):
    if isinstance(c, bool):
      return not c
    return z3.Not(c)

  def contains(self, container, item):
    if isinstance(container, (tuple, list)):
      res = [self.eq(item, x) for x in container]
      if all(isinstance(c, bool) for c in res):
        return any(res)
      return z3.Or([c if not isinstance(c, bool) else z3.BoolVal(c) for c in res])
    if isinstance(container, str):
      if isinstance(item, str):
        return item in container
      h = self.ext.get('str_contains')
      if h:
        return h(self, container, item)
      raise EngineError("symbolic `in` on concrete str")
    if isinstance(container, DictLit):
      return container.find(self, item) is not MISSING
    if isinstance(container, Model):
      return container.py___contains__(self, item)
    if isinstance(container, PyObj):
      if container.shared:
        self.yield_point(container)
      m = self.find_method(container.cls, '__contains__') if container.cls else None
      if m is not None:
        return self.truth(self.call(BoundMethod(container, m[0]), [item]))
      if container.base is not None:
        return container.base.py___contains__(self, item)
    if is_z3(container):
      h = self.ext.get(('contains', container.sort().name()))
      if h:
        return h(self, container, item)
    raise EngineError("`in` on %r" % (container,))

  def binop(self, op, a, b):
    t = type(op)
    if t is ast.Mod and isinstance(a, str):
      return self.str_format(a, b)
    if t is ast.Add and isinstance(a, str) and isinstance(b, str):
      return a + b
    if t is ast.Add and isinstance(a, tuple) and isinstance(b, tuple):
      return a + b
    if isinstance(a, Model) and hasattr(a, 'py_binop'):
      return a.py_binop(self, op, b, False)
    if isinstance(b, Model) and hasattr(b, 'py_binop'):
      return b.py_binop(self, op, a, True)
    if t is ast.Add and (isinstance(a, str) or isinstance(b, str) or
                         (is_z3(a) and a.sort() == Atom) or (is_z3(b) and b.sort() == Atom)):
      h = self.ext.get('str_concat')
      if h:
        return h(self, a, b)
      raise EngineError("symbolic string concatenation")
    if isinstance(a, Inf) or isinstance(b, Inf):
      raise EngineError("arithmetic on inf constant")
    if isinstance(a, bool):
      a = int(a)
    if isinstance(b, bool):
      b = int(b)
    if is_z3(a) and z3.is_bv(a) or is_z3(b) and z3.is_bv(b):
      return self.bv_binop(op, a, b)
    if not (is_num(a) and is_num(b)):
      raise EngineError("binop %s on %r, %r" % (t.__name__, a, b))
    if not (is_z3(a) or is_z3(b)):
      try:
        return {ast.Add: lambda: a + b, ast.Sub: lambda: a - b, ast.Mult: lambda: a * b,
                ast.Div: lambda: a / b, ast.FloorDiv: lambda: a // b, ast.Mod: lambda: a % b,
                ast.Pow: lambda: a ** b, ast.BitXor: lambda: a ^ b, ast.BitAnd: lambda: a & b,
                ast.BitOr: lambda: a | b, ast.RShift: lambda: a >> b,
                ast.LShift: lambda: a << b}[t]()
      except ZeroDivisionError:
        raise PyRaise(ExcVal('ZeroDivisionError', ()))
    x, y = coerce_pair(a, b)
    if t is ast.Add:
      return x + y
    if t is ast.Sub:
      return x - y
    if t is ast.Mult:
      return x * y
    if t is ast.Div:
      if self.ctx.branch(y == 0, 'div0'):
        raise PyRaise(ExcVal('ZeroDivisionError', ()))
      if z3.is_int(x):
        x = z3.ToReal(x)
        y = z3.ToReal(y)
      return x / y
    if t in (ast.FloorDiv, ast.Mod):
      if self.ctx.branch(y == 0, 'div0'):
        raise PyRaise(ExcVal('ZeroDivisionError', ()))
      if z3.is_int(x):
        # Python floor semantics; z3 div/mod are Euclidean (same for y > 0)
        if self.ctx.branch(y > 0, 'divisor>0'):
          q = x / y
          r = x % y
          if not z3.is_int_value(y):
            # true facts about floor division by a symbolic positive divisor near the origin
            # (spares the solver non-linear reasoning in the common wrap-around cases)
            self.ctx.assume(z3.Implies(z3.And(0 <= x, x < y), z3.And(r == x, q == 0)))
            self.ctx.assume(z3.Implies(z3.And(y <= x, x < 2 * y), z3.And(r == x - y, q == 1)))
            self.ctx.assume(z3.Implies(z3.And(-y <= x, x < 0), z3.And(r == x + y, q == -1)))
            self.ctx.assume(z3.And(0 <= r, r < y))
        else:
          # y < 0: floor(x/y) = floor((-x)/(-y)); Euclidean div with a positive divisor is floor
          q = (-x) / (-y)
          r = x - q * y
        return q if t is ast.FloorDiv else r
      # reals: q = floor(x / y), introduced by its defining inequalities (kept linear in q for a
      # constant divisor; for a symbolic divisor the products are the same terms the code builds)
      qi = self.ctx.fresh(z3.IntSort(), 'floordiv')
      q = z3.ToReal(qi)
      if self.ctx.branch(y > 0, 'divisor>0'):
        self.ctx.assume(z3.And(q * y <= x, x < q * y + y))
      else:
        self.ctx.assume(z3.And(q * y >= x, x > q * y + y))
      return q if t is ast.FloorDiv else x - q * y
    if t is ast.Pow and not is_z3(b):
      r = 1
      for _ in range(int(b)):
        r = r * x
      return r
    raise EngineError("unsupported symbolic binop %s" % t.__name__)

  def bv_binop(self, op, a, b):
    t = type(op)
    if t is ast.Mod and is_z3(a) and isinstance(b, int) and b == 2 ** a.size():
      return a          # x % 2**w on a w-bit vector: arithmetic already wraps
    if t in (ast.RShift, ast.LShift) and isinstance(b, int):
      b = z3.BitVecVal(b, a.size())
    if not is_z3(a):
      a = z3.BitVecVal(a, b.size())
    if not is_z3(b):
      b = z3.BitVecVal(b, a.size())
    if t is ast.BitXor:
      return a ^ b
    if t is ast.BitAnd:
      return a & b
    if t is ast.BitOr:
      return a | b
    if t is ast.RShift:
      return z3.LShR(a, b)
    if t is ast.LShift:
      return a << b
    if t is ast.Mult:
      return a * b
    if t is ast.Add:
      return a + b
    if t is ast.Mod:
      raise EngineError("bv mod")
    raise EngineError("bv op %s" % t.__name__)

  def str_format(self, fmt, arg):
    """'%..' % args with symbolic parts -> an uninterpreted Atom function of the template."""
    nspec = len(re.findall(r'%(?!%)', fmt.replace('%%', ''))) if isinstance(fmt, str) else None
    if nspec is not None and '%(' not in fmt:
      if isinstance(arg, tuple):
        if len(arg) != nspec:
          raise PyRaise(ExcVal('TypeError', ('not all arguments converted during string formatting',)))
      elif isinstance(arg, Model) and hasattr(arg, 'tuple_len_other_than'):
        # a bare operand that may itself be a tuple is taken as the argument tuple
        if self.ctx.branch(arg.tuple_len_other_than(self, nspec), 'format operand is a tuple of the wrong length'):
          raise PyRaise(ExcVal('TypeError', ('not all arguments converted during string formatting',)))
      elif nspec != 1:
        raise PyRaise(ExcVal('TypeError', ('not enough arguments for format string',)))
    args = arg if isinstance(arg, tuple) else (arg,)
    if all(isinstance(x, (int, float, str)) and not isinstance(x, bool) for x in args):
      try:
        return fmt % arg
      except Exception:
        pass
    h = self.ext.get('str_format')
    if h:
      return h(self, fmt, args)
    raise EngineError("symbolic %%-format %r (bind ext['str_format'])" % fmt)

  # ------------------------------------------------------------------------------------------
  # expressions
  def eval(self, node, fr):
    m = getattr(self, 'e_' + type(node).__name__, None)
    if m is None:
      raise EngineError("unsupported expression %s at line %d" % (type(node).__name__, getattr(node, 'lineno', 0)))
    return m(node, fr)

  def e_Constant(self, n, fr):
    return n.value

  def e_Name(self, n, fr):
    try:
      return fr.lookup(n.id)
    except KeyError:
      pass
    return fr.env.lookup(n.id)

  def e_Tuple(self, n, fr):
    out = []
    for e in n.elts:
      if isinstance(e, ast.Starred):
        v = self.eval(e.value, fr)
        out.extend(self.iter_concrete(v))
      else:
        out.append(self.eval(e, fr))
    return tuple(out)

  def site_of(self, n, fr):
    return (fr.func.qualname if fr.func else '?', getattr(n, 'lineno', 0), getattr(n, 'col_offset', 0))

  def weak_or(self, n, fr, make):
    site = self.site_of(n, fr)
    if site in WEAK_SITES:
      from .models import WeakContainer
      return WeakContainer(site)
    o = make()
    try:
      o.site = site
    except AttributeError:
      pass
    return o

  def e_List(self, n, fr):
    from .models import PyList
    return self.weak_or(n, fr, lambda: PyList([self.eval(e, fr) for e in n.elts]))

  def e_Set(self, n, fr):
    from .models import PySetLit
    return self.weak_or(n, fr, lambda: PySetLit([self.eval(e, fr) for e in n.elts]))

  def e_Dict(self, n, fr):
    site = self.site_of(n, fr)
    if site in WEAK_SITES:
      from .models import WeakContainer
      return WeakContainer(site)
    if not n.keys:
      h = self.ext.get(('new_dict', fr.func.qualname if fr.func else None))
      if h is not None:
        return h(self)
    d = DictLit({})
    d.site = site
    for k, v in zip(n.keys, n.values):
      kk = self.eval(k, fr)
      d.items[kk] = self.eval(v, fr)
    return d

  def e_Attribute(self, n, fr):
    obj = self.eval(n.value, fr)
    return self.getattr(obj, n.attr)

  def e_Subscript(self, n, fr):
    obj = self.eval(n.value, fr)
    if isinstance(n.slice, ast.Slice):
      lo = self.eval(n.slice.lower, fr) if n.slice.lower is not None else None
      hi = self.eval(n.slice.upper, fr) if n.slice.upper is not None else None
      if n.slice.step is not None:
        raise EngineError("slice step")
      return self.getslice(obj, lo, hi)
    idx = self.eval(n.slice, fr)
    return self.getitem(obj, idx)

  def getitem(self, obj, idx):
    if isinstance(obj, tuple) or isinstance(obj, (str, bytes)):
      if isinstance(idx, int):
        try:
          return obj[idx]
        except IndexError:
          raise PyRaise(ExcVal('IndexError', ()))
      if is_z3(idx) and isinstance(obj, tuple):
        raise EngineError("symbolic index into tuple")
      raise EngineError("index %r into %r" % (idx, obj))
    if isinstance(obj, Model):
      if obj.shared:
        self.yield_point(obj)
      return obj.py___getitem__(self, idx)
    if isinstance(obj, PyObj):
      if obj.shared:
        self.yield_point(obj)
      m = self.find_method(obj.cls, '__getitem__') if obj.cls else None
      if m is not None:
        return self.call(BoundMethod(obj, m[0]), [idx])
      if obj.base is not None:
        return obj.base.py___getitem__(self, idx)
    if isinstance(obj, DictLit):
      return obj.get(self, idx)
    if is_z3(obj):
      h = self.ext.get(('getitem', obj.sort().name()))
      if h:
        return h(self, obj, idx)
    raise EngineError("subscript on %r" % (obj,))

  def getslice(self, obj, lo, hi):
    if isinstance(obj, (tuple, str, bytes)) and (lo is None or isinstance(lo, int)) and \
        (hi is None or isinstance(hi, int)):
      return obj[lo:hi]
    if isinstance(obj, Model) and hasattr(obj, 'py_slice'):
      return obj.py_slice(self, lo, hi)
    if is_z3(obj):
      h = self.ext.get(('slice', obj.sort().name()))
      if h:
        return h(self, obj, lo, hi)
    raise EngineError("slice of %r" % (obj,))

  def setitem(self, obj, idx, value):
    if isinstance(obj, Model):
      if obj.shared:
        self.yield_point(obj)
      return obj.py___setitem__(self, idx, value)
    if isinstance(obj, PyObj):
      if obj.shared:
        self.yield_point(obj)
      m = self.find_method(obj.cls, '__setitem__') if obj.cls else None
      if m is not None:
        return self.call(BoundMethod(obj, m[0]), [idx, value])
      if obj.base is not None:
        return obj.base.py___setitem__(self, idx, value)
    if isinstance(obj, DictLit):
      obj.items[idx] = value
      return
    raise EngineError("item assignment on %r" % (obj,))

  def delitem(self, obj, idx):
    if isinstance(obj, Model):
      if obj.shared:
        self.yield_point(obj)
      return obj.py___delitem__(self, idx)
    if isinstance(obj, PyObj) and obj.base is not None:
      if obj.shared:
        self.yield_point(obj)
      return obj.base.py___delitem__(self, idx)
    raise EngineError("del item on %r" % (obj,))

  def e_Compare(self, n, fr):
    left = self.eval(n.left, fr)
    result = None
    for op, rnode in zip(n.ops, n.comparators):
      right = self.eval(rnode, fr)
      c = self.compare(op, left, right)
      if result is None:
        result = c
      else:
        result = self.and_(result, c)
      if len(n.ops) > 1 and isinstance(result, bool) and not result:
        return False
      left = right
    return result

  def and_(self, a, b):
    if isinstance(a, bool):
      return b if a else False
    if isinstance(b, bool):
      return a if b else False
    return z3.And(a, b)

  def e_BoolOp(self, n, fr):
    # short-circuit: fork on each operand's truth (values other than the last are only tested)
    is_and = isinstance(n.op, ast.And)
    v = None
    for i, e in enumerate(n.values):
      v = self.eval(e, fr)
      if i == len(n.values) - 1:
        return v
      t = self.branch(v, 'boolop')
      if is_and and not t:
        return v if not is_z3(v) else False
      if not is_and and t:
        return v if not is_z3(v) else True
    return v

  def e_UnaryOp(self, n, fr):
    v = self.eval(n.operand, fr)
    if isinstance(n.op, ast.Not):
      return self.neg(self.truth(v))
    if isinstance(n.op, ast.USub):
      if isinstance(v, Inf):
        return Inf(-v.sign)
      if is_z3(v):
        return -v
      return -v
    if isinstance(n.op, ast.UAdd):
      return v
    raise EngineError("unary op")

  def e_BinOp(self, n, fr):
    if isinstance(n.op, ast.Mod) and isinstance(n.left, ast.Constant) and isinstance(n.left.value, str):
      return self.binop(n.op, n.left.value, self.eval(n.right, fr))
    a = self.eval(n.left, fr)
    b = self.eval(n.right, fr)
    return self.binop(n.op, a, b)

  def e_IfExp(self, n, fr):
    if self.branch(self.eval(n.test, fr), 'ifexp'):
      return self.eval(n.body, fr)
    return self.eval(n.orelse, fr)

  def e_Lambda(self, n, fr):
    return Closure(n, fr)

  def e_JoinedStr(self, n, fr):
    raise EngineError("f-string")

  def is_log_call(self, n, fr):
    f = n.func
    if isinstance(f, ast.Attribute) and isinstance(f.value, ast.Name) and f.value.id == 'log':
      try:
        fr.lookup('log')
        return False
      except KeyError:
        pass
      # a harness may keep selected log functions observable (e.g. log.err in the writer)
      return f.attr not in self.ext.get('keep_log', ())
    return False

  def e_Call(self, n, fr):
    if self.is_log_call(n, fr):
      if self.ext.get('eval_log_args'):
        # the call itself is dropped, but its argument expressions are still evaluated so that
        # an exception raised while building the log text is seen (unsupported forms are skipped)
        for a in n.args:
          try:
            self.eval(a, fr)
          except EngineError:
            pass
      return None           # extraction drop: log.* calls are effect-free no-ops
    if isinstance(n.func, ast.Name) and n.func.id == 'super':
      return self.make_super(n, fr)
    f = self.eval(n.func, fr)
    if isinstance(f, Builtin) and f.name in ('set', 'list', 'dict') and not n.args and not n.keywords:
      return self.weak_or(n, fr, lambda: self.call(f, [], {}))
    args = []
    for a in n.args:
      if isinstance(a, ast.Starred):
        args.extend(self.iter_concrete(self.eval(a.value, fr)))
      else:
        args.append(self.eval(a, fr))
    kwargs = {}
    for k in n.keywords:
      if k.arg is None:
        d = self.eval(k.value, fr)
        if isinstance(d, DictLit):
          kwargs.update(d.items)
        else:
          raise EngineError("**kwargs of non-literal")
      else:
        kwargs[k.arg] = self.eval(k.value, fr)
    return self.call(f, args, kwargs)

  def make_super(self, n, fr):
    if len(n.args) == 2:
      cls = self.eval(n.args[0], fr)
      obj = self.eval(n.args[1], fr)
    else:
      raise EngineError("zero-argument super()")
    return SuperProxy(cls, obj)

  def e_ListComp(self, n, fr):
    from .models import PyList
    if len(n.generators) != 1:
      raise EngineError("nested comprehension")
    g = n.generators[0]
    it = self.eval(g.iter, fr)
    if isinstance(it, Model) and hasattr(it, 'py_listcomp'):
      return it.py_listcomp(self, n, fr)
    out = []
    sub = Frame(fr.func, fr.env, parent=fr)
    for x in self.iter_concrete(it):
      self.assign(g.target, x, sub)
      ok = True
      for cond in g.ifs:
        if not self.branch(self.eval(cond, sub), 'comp-if'):
          ok = False
          break
      if ok:
        out.append(self.eval(n.elt, sub))
    return PyList(out)

  def e_GeneratorExp(self, n, fr):
    return self.e_ListComp(n, fr)

  def e_Yield(self, n, fr):
    f = fr
    while f is not None and f.gen_out is None:
      f = f.parent
    if f is None:
      raise EngineError("yield outside generator")
    v = self.eval(n.value, fr) if n.value is not None else None
    f.gen_out.py_append(self, v)
    h = self.ctx.hooks.get('on_yield')
    if h is not None:
      # coroutine-style generators: the environment (the consumer and the other thread) takes
      # its step while the generator is suspended here
      h(self, v, fr)
    return None

  def iter_concrete(self, v):
    """iterate a value whose length is concrete"""
    from .models import PyList
    if isinstance(v, (tuple, list)):
      return list(v)
    if isinstance(v, str):
      return list(v)
    if isinstance(v, PyList):
      return list(v.items)
    if isinstance(v, DictLit):
      return list(v.items.keys())
    if isinstance(v, Model) and hasattr(v, 'concrete_items'):
      return v.concrete_items(self)
    raise EngineError("cannot iterate %r without a loop contract" % (v,))

  # ------------------------------------------------------------------------------------------
  # statements
  def exec_block(self, stmts, fr):
    for st in stmts:
      self.exec(st, fr)

  def exec(self, st, fr):
    m = getattr(self, 's_' + type(st).__name__, None)
    if m is None:
      raise EngineError("unsupported statement %s at line %d" % (type(st).__name__, st.lineno))
    h = self.ctx.hooks.get('statement')
    if h is not None:
      h(self, st, fr)
    return m(st, fr)

  def s_Expr(self, st, fr):
    if isinstance(st.value, ast.Constant):
      return        # docstring
    self.eval(st.value, fr)

  def s_Pass(self, st, fr):
    pass

  def s_Global(self, st, fr):
    fr.globals_declared.update(st.names)

  def s_Import(self, st, fr):
    for a in st.names:
      fr.locals[a.asname or a.name] = fr.env.lookup(a.name)

  def s_ImportFrom(self, st, fr):
    for a in st.names:
      h = self.ext.get(('import', st.module, a.name))
      if h is None:
        raise EngineError("from %s import %s inside a function (bind ext[('import',..)])" % (st.module, a.name))
      fr.locals[a.asname or a.name] = h

  def s_FunctionDef(self, st, fr):
    parent_fi = fr.func
    fi = self.index.nested(parent_fi if parent_fi.parent is None else parent_fi.parent, st.name) \
        if parent_fi is not None else None
    if fi is None:
      raise EngineError("nested def outside function")
    fr.locals[st.name] = RepoFunc(fi, closure=fr)

  def s_Return(self, st, fr):
    raise _Return(self.eval(st.value, fr) if st.value is not None else None)

  def s_Break(self, st, fr):
    raise _Break()

  def s_Continue(self, st, fr):
    raise _Continue()

  def s_Assign(self, st, fr):
    v = self.eval(st.value, fr)
    for t in st.targets:
      self.assign(t, v, fr)

  def s_AugAssign(self, st, fr):
    if isinstance(st.target, ast.Name):
      cur = self.e_Name(st.target, fr)
      self.assign(st.target, self.binop(st.op, cur, self.eval(st.value, fr)), fr)
    elif isinstance(st.target, ast.Attribute):
      obj = self.eval(st.target.value, fr)
      cur = self.getattr(obj, st.target.attr)
      self.setattr(obj, st.target.attr, self.binop(st.op, cur, self.eval(st.value, fr)))
    elif isinstance(st.target, ast.Subscript):
      obj = self.eval(st.target.value, fr)
      idx = self.eval(st.target.slice, fr)
      cur = self.getitem(obj, idx)
      self.setitem(obj, idx, self.binop(st.op, cur, self.eval(st.value, fr)))
    else:
      raise EngineError("augassign target")

  def assign(self, target, v, fr):
    if isinstance(target, ast.Name):
      if target.id in fr.globals_declared:
        fr.env.bindings[target.id] = v
        self.note_write(fr.env, target.id)
      else:
        fr.locals[target.id] = v
      return
    if isinstance(target, (ast.Tuple, ast.List)):
      items = self.unpack(v, len(target.elts))
      for t, x in zip(target.elts, items):
        self.assign(t, x, fr)
      return
    if isinstance(target, ast.Attribute):
      obj = self.eval(target.value, fr)
      self.setattr(obj, target.attr, v)
      return
    if isinstance(target, ast.Subscript):
      obj = self.eval(target.value, fr)
      idx = self.eval(target.slice, fr)
      self.setitem(obj, idx, v)
      return
    raise EngineError("assignment target %s" % type(target).__name__)

  def unpack(self, v, n):
    from .models import PyList
    if isinstance(v, PyList):
      v = tuple(v.items)
    if isinstance(v, tuple):
      if len(v) != n:
        raise PyRaise(ExcVal('ValueError', ("unpack: expected %d values, got %d" % (n, len(v)),)))
      return list(v)
    if isinstance(v, Model) and hasattr(v, 'py_unpack'):
      return v.py_unpack(self, n)
    if is_z3(v):
      h = self.ext.get(('unpack', v.sort().name()))
      if h:
        return h(self, v, n)
    if v is None or isinstance(v, (int, float, bool)):
      raise PyRaise(ExcVal('TypeError', ("cannot unpack non-iterable",)))
    raise EngineError("unpack of %r" % (v,))

  def s_Delete(self, st, fr):
    for t in st.targets:
      if isinstance(t, ast.Subscript):
        self.delitem(self.eval(t.value, fr), self.eval(t.slice, fr))
      elif isinstance(t, ast.Name):
        del fr.locals[t.id]
      else:
        raise EngineError("del target")

  def s_If(self, st, fr):
    if self.is_version_check(st.test):
      # `if sys.version_info >= (3, 0):` -- the code runs on Python 3 (stated assumption)
      return self.exec_block(st.body, fr)
    if self.branch(self.eval(st.test, fr), 'if@%d' % st.lineno):
      self.exec_block(st.body, fr)
    else:
      self.exec_block(st.orelse, fr)

  @staticmethod
  def is_version_check(test):
    return isinstance(test, ast.Compare) and isinstance(test.left, ast.Attribute) and \
        test.left.attr == 'version_info' and isinstance(test.ops[0], ast.GtE)

  def s_Raise(self, st, fr):
    if st.exc is None:
      cur = fr.locals.get('$exc')
      f = fr
      while cur is None and f.parent is not None:
        f = f.parent
        cur = f.locals.get('$exc')
      if cur is None:
        raise EngineError("bare raise outside handler")
      raise PyRaise(cur)
    v = self.eval(st.exc, fr)
    if isinstance(v, ExcClass):
      v = ExcVal(v.name, ())
    if isinstance(v, RepoClass):
      v = self.instantiate(v.info, [], {})
    if isinstance(v, PyObj):
      v = ExcVal(v.cls.name, ())
    if not isinstance(v, ExcVal):
      raise EngineError("raise of %r" % (v,))
    raise PyRaise(v)

  def exc_matches(self, exc, cls):
    """exc: ExcVal; cls: ExcClass / tuple of them"""
    if isinstance(cls, tuple):
      for c in cls:
        if self.exc_matches(exc, c):
          return True
      return False
    if isinstance(cls, RepoClass):
      cls = ExcClass(cls.info.name)
    if not isinstance(cls, ExcClass):
      raise EngineError("except clause with %r" % (cls,))
    if exc.sym is not None:
      s = exc.sym
      if exc_is_subclass(s.bound, cls.name):
        return True
      if not exc_is_subclass(cls.name, s.bound):
        return False
      if cls.name not in s.memo:
        # demonic: the unknown exception may or may not be an instance of this narrower class;
        # consistent with earlier answers along the hierarchy
        for k, ans in s.memo.items():
          if ans and exc_is_subclass(k, cls.name):
            s.memo[cls.name] = True
            break
          if (not ans) and exc_is_subclass(cls.name, k):
            s.memo[cls.name] = False
            break
        else:
          s.memo[cls.name] = (self.ctx.choose(2, 'isinstance(%s,%s)' % (s.tag, cls.name)) == 1)
      return s.memo[cls.name]
    return exc_is_subclass(exc.cls_name, cls.name)

  def s_Try(self, st, fr):
    try:
      try:
        self.exec_block(st.body, fr)
      except PyRaise as pr:
        handled = False
        for h in st.handlers:
          if h.type is None:
            match = True
          else:
            match = self.exc_matches(pr.exc, self.eval(h.type, fr))
          if match:
            handled = True
            if h.name:
              fr.locals[h.name] = pr.exc
            saved = fr.locals.get('$exc')
            fr.locals['$exc'] = pr.exc
            try:
              self.exec_block(h.body, fr)
            finally:
              fr.locals['$exc'] = saved
            break
        if not handled:
          raise
      else:
        self.exec_block(st.orelse, fr)
    finally:
      if st.finalbody:
        self.exec_block(st.finalbody, fr)

  def s_With(self, st, fr):
    if len(st.items) != 1:
      raise EngineError("with: multiple items")
    item = st.items[0]
    cm = self.eval(item.context_expr, fr)
    if not (isinstance(cm, Model) and hasattr(cm, 'enter')):
      raise EngineError("with on %r" % (cm,))
    v = cm.enter(self)
    if item.optional_vars is not None:
      self.assign(item.optional_vars, v, fr)
    try:
      self.exec_block(st.body, fr)
    except PathEnd:
      raise
    except BaseException:
      cm.exit(self)
      raise
    cm.exit(self)

  # ---- loops -------------------------------------------------------------------------------
  def loop_ordinal(self, st, fr):
    root = fr.func
    fn_node = root.node
    k = 0
    for n in walk_no_nested(fn_node):
      if isinstance(n, (ast.While, ast.For)):
        if n is st:
          return k
        k += 1
    raise EngineError("loop not found in its function")

  def loop_spec(self, st, fr):
    if fr.func is None:
      return None, None
    ordn = self.loop_ordinal(st, fr)
    spec = self.loops.get((fr.func.qualname, ordn))
    if spec is None:
      return None, ordn
    if isinstance(st, ast.While):
      header = "while " + ast.unparse(st.test)
    else:
      header = "for %s in %s" % (ast.unparse(st.target), ast.unparse(st.iter))
    moved = not header.startswith(spec.anchor)
    if moved and isinstance(st, ast.For) and ' in ' in spec.anchor:
      # a for-loop is identified by what it iterates over; the name(s) of its target may change
      # (a contract that reads the target by name then fails with "no longer matches", never silently)
      moved = not ast.unparse(st.iter).startswith(spec.anchor.split(' in ', 1)[1])
    if moved:
      raise AnchorMoved("%s loop %d: header %r does not start with anchor %r" %
                        (fr.func.qualname, ordn, header, spec.anchor))
    return spec, ordn

  def assigned_locals(self, body):
    names = set()
    for st in body:
      for n in walk_no_nested(st):
        if isinstance(n, ast.Name) and isinstance(n.ctx, (ast.Store, ast.Del)):
          names.add(n.id)
    return names

  def check_inv(self, spec, fr, kind, prefix):
    for label, f in spec.inv(fr):
      self.ctx.check("%s/%s" % (prefix, label), f, kind=kind)

  def run_cut_loop(self, st, fr, spec, ordn, prefix, test_fn, body_pre=None, step=None):
    """Invariant-cut loop.  test_fn() -> truth value of 'another iteration happens'."""
    ctx = self.ctx
    if spec.ghost_pre:
      spec.ghost_pre(fr)
    self.check_inv(spec, fr, 'inv_init', prefix + '/init')
    mode = ctx.choose(2, 'loop%d' % ordn)
    # havoc
    declared = set(spec.locals_modified or ())
    before = {k: fr.locals.get(k, MISSING) for k in self.assigned_locals(st.body)}
    mark = len(self.writes)
    spec.havoc(fr)
    havocked = set(id(o) for (o, f) in self.writes[mark:])
    for k, v in before.items():
      # `locals_modified` names the locals whose value at the loop head is set by havoc() or
      # pinned by the invariant; every other pre-existing local the body assigns is havocked here
      if k in declared:
        continue
      now = fr.locals.get(k, MISSING)
      if v is not MISSING and now is v and not isinstance(v, (Model, PyObj)):
        # a local that the body re-assigns but the contract does not mention: havoc it to an
        # unconstrained value of the same kind when that is possible
        hv = self.auto_havoc_value(v, k)
        if hv is MISSING:
          raise EngineError("loop %s/%d: local %r is assigned in the body but not havocked" %
                            (fr.func.qualname, ordn, k))
        fr.locals[k] = hv
    for label, f in spec.inv(fr):
      ctx.assume(f)
    v0 = spec.variant(fr) if spec.variant else None
    if mode == 0:
      if not ctx.branch(test_fn(), 'loopcond'):
        ctx.stop()
      if body_pre:
        body_pre()
      mark = len(self.writes)
      birth = ctx.counter
      try:
        self.exec_block(st.body, fr)
      except _Continue:
        pass
      except _Break:
        self.frame_check(mark, havocked, birth, fr, ordn)
        return 'break'
      self.frame_check(mark, havocked, birth, fr, ordn)
      if step:
        step()
      if spec.ghost_step:
        spec.ghost_step(fr)
      self.check_inv(spec, fr, 'inv_step', prefix + '/step')
      if v0 is not None:
        v1 = spec.variant(fr)
        ctx.check(prefix + '/variant', z3.And(v0 >= 0, v1 < v0), kind='variant')
      ctx.stop()
    else:
      if ctx.branch(test_fn(), 'loopcond'):
        ctx.stop()
      return 'exit'

  def auto_havoc_value(self, v, hint):
    if isinstance(v, bool):
      return self.ctx.fresh(z3.BoolSort(), hint)
    if isinstance(v, int):
      return self.ctx.fresh(z3.IntSort(), hint)
    if isinstance(v, float):
      return self.ctx.fresh(z3.RealSort(), hint)
    if is_z3(v):
      return self.ctx.fresh(v.sort(), hint)
    from .models import AnyValue
    if v is None or isinstance(v, (str, tuple)):
      return AnyValue(hint)
    return MISSING

  def frame_check(self, mark, havocked, birth, fr, ordn):
    for (o, f) in self.writes[mark:]:
      if id(o) in havocked:
        continue
      if getattr(o, 'birth', 0) > birth or getattr(o, 'ghost', False):
        continue
      site = getattr(o, 'site', None)
      if site is not None:
        raise NeedWeak(site)
      raise EngineError("loop %s/%d: body writes %r.%s which the loop contract does not havoc" %
                        (fr.func.qualname, ordn, o, f))

  def s_While(self, st, fr):
    spec, ordn = self.loop_spec(st, fr)
    if spec is None:
      # bounded unrolling is only legal when the condition is decided concretely
      n = 0
      while True:
        c = self.truth(self.eval(st.test, fr))
        if is_z3(c):
          c = z3.simplify(c)
          if z3.is_true(c):
            c = True
          elif z3.is_false(c):
            c = False
          else:
            raise EngineError("while loop at line %d of %s needs a loop contract" %
                              (st.lineno, fr.func.qualname if fr.func else '?'))
        if not c:
          break
        n += 1
        if n > 256:
          raise EngineError("concrete loop too long")
        try:
          self.exec_block(st.body, fr)
        except _Break:
          return
        except _Continue:
          continue
      self.exec_block(st.orelse, fr)
      return
    prefix = "%s%s/loop%d" % (spec.label_prefix if spec.label_prefix is not None else self.label_prefix,
                              fr.func.name, ordn)
    r = self.run_cut_loop(st, fr, spec, ordn, prefix,
                          lambda: self.truth(self.eval(st.test, fr)))
    if r == 'exit':
      self.exec_block(st.orelse, fr)

  def s_For(self, st, fr):
    spec, ordn = self.loop_spec(st, fr)
    it = self.eval(st.iter, fr)
    if spec is None:
      items = self.iter_concrete(it)
      for x in items:
        self.assign(st.target, x, fr)
        try:
          self.exec_block(st.body, fr)
        except _Break:
          return
        except _Continue:
          continue
      self.exec_block(st.orelse, fr)
      return
    # invariant-cut for loop over a symbolic sequence: ghost index k
    seq = self.as_symseq(it)
    fr.loop_k[ordn] = 0
    fr.ghost['seq%d' % ordn] = seq
    prefix = "%s%s/loop%d" % (spec.label_prefix if spec.label_prefix is not None else self.label_prefix,
                              fr.func.name, ordn)

    orig_havoc = spec.havoc

    def havoc(frm):
      frm.loop_k[ordn] = self.ctx.fresh(z3.IntSort(), 'k%d' % ordn)
      self.ctx.assume(frm.loop_k[ordn] >= 0)
      self.ctx.assume(frm.loop_k[ordn] <= seq.length())
      orig_havoc(frm)

    wrapped = LoopSpec(spec.anchor, spec.inv, havoc, spec.ghost_pre, spec.ghost_step,
                       spec.variant, set(spec.locals_modified or ()) | self.target_names(st.target),
                       label_prefix=spec.label_prefix)

    def test():
      return fr.loop_k[ordn] < seq.length()

    def body_pre():
      self.assign(st.target, seq.at(self, fr.loop_k[ordn]), fr)

    def step():
      fr.loop_k[ordn] = fr.loop_k[ordn] + 1

    # `continue` inside the body must still advance k: handled by run_cut_loop (Continue -> step)
    r = self.run_cut_loop(st, fr, wrapped, ordn, prefix, test, body_pre, step)
    if r == 'exit':
      self.exec_block(st.orelse, fr)

  def target_names(self, t):
    return set(n.id for n in ast.walk(t) if isinstance(n, ast.Name))

  def as_symseq(self, it):
    from .models import SymSeq, PyList
    if isinstance(it, SymSeq):
      return it
    if isinstance(it, Model) and hasattr(it, 'as_symseq'):
      return it.as_symseq(self)
    if isinstance(it, PyObj) and it.base is not None and hasattr(it.base, 'as_symseq'):
      return it.base.as_symseq(self)
    raise EngineError("for-loop under contract over %r" % (it,))


MISSING = object()
OBJECT = object()


def walk_no_nested(node):
  """ast.walk in source order that does not descend into nested function definitions/lambdas."""
  todo = [node]
  first = True
  while todo:
    n = todo.pop(0)
    if not first and isinstance(n, (ast.FunctionDef, ast.Lambda, ast.ClassDef)):
      continue
    first = False
    yield n
    todo = list(ast.iter_child_nodes(n)) + todo


class DictLit(object):
  """A dict literal with concrete keys (``dict(connector=..)``, ``{}``-literals, **kwargs).  A
  symbolic key is compared with each concrete key in turn (forking)."""
  def __init__(self, items):
    self.items = dict(items)

  def find(self, ip, k):
    if is_z3(k):
      for kk in self.items:
        if ip.ctx.branch(ip.eq(kk, k), 'dict key'):
          return kk
      return MISSING
    try:
      return k if k in self.items else MISSING
    except TypeError:
      return MISSING

  def get(self, ip, k):
    kk = self.find(ip, k)
    if kk is not MISSING:
      return self.items[kk]
    raise PyRaise(ExcVal('KeyError', (k,)))


class SuperProxy(object):
  def __init__(self, cls, obj):
    self.cls = cls
    self.obj = obj


class UnboundModelMethod(object):
  def __init__(self, cls, name):
    self.cls = cls
    self.name = name


class OptVal(object):
  """A value that may be None: (is_none: z3 Bool, value)."""
  def __init__(self, is_none, value):
    self.is_none = is_none
    self.value = value


class PosReal(object):
  """A setting that is either +inf or a finite real: (is_inf: z3 Bool, value: z3 Real)."""
  def __init__(self, is_inf, value):
    self.is_inf = is_inf
    self.value = value


def order_ext(op, a, b):
  """ordering comparison where an operand is inf / PosReal"""
  def parts(x):
    if isinstance(x, Inf):
      return (z3.BoolVal(x.sign > 0), z3.BoolVal(x.sign < 0), z3.RealVal(0))
    if isinstance(x, PosReal):
      return (x.is_inf, z3.BoolVal(False), x.value)
    x = znum(x)
    if z3.is_int(x):
      x = z3.ToReal(x)
    return (z3.BoolVal(False), z3.BoolVal(False), x)
  ap, an, av = parts(a)
  bp, bn, bv = parts(b)
  # a < b
  lt = z3.Or(z3.And(an, z3.Not(bn)), z3.And(z3.Not(ap), bp),
             z3.And(z3.Not(ap), z3.Not(an), z3.Not(bp), z3.Not(bn), av < bv))
  same = z3.Or(z3.And(ap, bp), z3.And(an, bn),
               z3.And(z3.Not(ap), z3.Not(an), z3.Not(bp), z3.Not(bn), av == bv))
  t = type(op)
  if t is ast.Lt:
    return lt
  if t is ast.LtE:
    return z3.Or(lt, same)
  if t is ast.Gt:
    return z3.And(z3.Not(lt), z3.Not(same))
  if t is ast.GtE:
    return z3.Not(lt)
  raise EngineError("ext order")
