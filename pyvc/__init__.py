"""pyvc -- a small verification-condition generator for the Python subset used by
graphite-project/carbon.  See /verif/DESIGN.md section 1.

The engine parses the real source under /repo on every run (pyvc.source), executes the
functions under contract symbolically (pyvc.interp) over z3-backed models of the built-in
containers and of the external world (pyvc.models), collects one verification condition per
(path x proof obligation) (pyvc.core) and discharges them with z3 / cvc5 in a process pool
(pyvc.solve).
"""
