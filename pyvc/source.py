"""Mechanical extraction of the functions under contract from /repo's working tree.

Nothing here is a copy of carbon: every run parses the files named by the contracts, finds the
class / function by qualified name and hands the ``ast`` node to the interpreter.  The SHA-256 of
each file and the line span + SHA-256 of each function that was executed symbolically are
recorded for the evidence file.
"""
import ast
import hashlib
import os

from .core import EngineError

REPO = os.environ.get('PYVC_REPO', '/repo')
LIB = os.path.join(REPO, 'lib')


class FuncInfo(object):
  def __init__(self, module, cls, node, ordinal, src_lines, path):
    self.module = module            # 'carbon.cache'
    self.cls = cls                  # ClassInfo or None
    self.node = node
    self.name = node.name
    self.ordinal = ordinal
    self.path = path
    self.lineno = node.lineno
    self.end_lineno = node.end_lineno
    self.text = "\n".join(src_lines[node.lineno - 1:node.end_lineno])
    self.sha = hashlib.sha256(self.text.encode('utf8')).hexdigest()
    self.decorators = [d.id if isinstance(d, ast.Name) else ast.dump(d) for d in node.decorator_list]
    self.is_generator = _has_yield(node)
    self.parent = None              # enclosing FuncInfo for nested functions

  @property
  def qualname(self):
    base = self.module + ':'
    if self.cls is not None:
      base += self.cls.name
      if self.cls.ordinal:
        base += '#%d' % self.cls.ordinal
      base += '.'
    return base + self.name

  def __repr__(self):
    return "<func %s>" % self.qualname


def _has_yield(fn):
  class V(ast.NodeVisitor):
    found = False

    def visit_FunctionDef(self, n):
      if n is fn:
        self.generic_visit(n)

    def visit_Lambda(self, n):
      pass

    def visit_Yield(self, n):
      self.found = True

    def visit_YieldFrom(self, n):
      self.found = True
  v = V()
  v.visit(fn)
  return v.found


class ClassInfo(object):
  def __init__(self, module, node, ordinal):
    self.module = module
    self.node = node
    self.name = node.name
    self.ordinal = ordinal
    self.methods = {}
    self.attrs = {}                 # class-level simple assignments: name -> ast expr
    self.base_exprs = node.bases

  def __repr__(self):
    return "<class %s:%s>" % (self.module, self.name)


class ModuleInfo(object):
  def __init__(self, name, path):
    self.name = name
    self.path = path
    with open(path, 'rb') as f:
      raw = f.read()
    self.sha = hashlib.sha256(raw).hexdigest()
    self.text = raw.decode('utf8')
    self.lines = self.text.split('\n')
    self.tree = ast.parse(self.text, path)
    self.functions = {}             # name -> [FuncInfo]
    self.classes = {}               # name -> [ClassInfo]
    self.assigns = {}               # module-level NAME = expr (last one wins) -> ast expr
    self._index(self.tree.body)

  def _index(self, body):
    for st in body:
      if isinstance(st, ast.FunctionDef):
        lst = self.functions.setdefault(st.name, [])
        lst.append(FuncInfo(self.name, None, st, len(lst), self.lines, self.path))
      elif isinstance(st, ast.ClassDef):
        lst = self.classes.setdefault(st.name, [])
        ci = ClassInfo(self.name, st, len(lst))
        lst.append(ci)
        for m in st.body:
          if isinstance(m, ast.FunctionDef):
            ci.methods[m.name] = FuncInfo(self.name, ci, m, 0, self.lines, self.path)
          elif isinstance(m, ast.Assign) and len(m.targets) == 1 and isinstance(m.targets[0], ast.Name):
            ci.attrs[m.targets[0].id] = m.value
      elif isinstance(st, ast.Assign):
        for t in st.targets:
          if isinstance(t, ast.Name):
            self.assigns[t.id] = st.value
      elif isinstance(st, ast.If):
        self._index(st.body)
        self._index(st.orelse)
      elif isinstance(st, ast.Try):
        self._index(st.body)
        for h in st.handlers:
          self._index(h.body)
        self._index(st.orelse)
        self._index(st.finalbody)


class SourceIndex(object):
  def __init__(self):
    self.modules = {}
    self.used = {}                  # qualname -> FuncInfo  (functions executed symbolically)

  def module(self, name):
    if name not in self.modules:
      path = os.path.join(LIB, *name.split('.')) + '.py'
      if not os.path.exists(path):
        raise EngineError("no such repo module %s (%s)" % (name, path))
      self.modules[name] = ModuleInfo(name, path)
    return self.modules[name]

  def cls(self, spec):
    """'carbon.util:SafeUnpickler#1' -> ClassInfo"""
    mod, _, rest = spec.partition(':')
    name, _, ordn = rest.partition('#')
    lst = self.module(mod).classes.get(name)
    if not lst:
      raise EngineError("class %s not found" % spec)
    return lst[int(ordn or 0)]

  def func(self, spec):
    """'carbon.cache:_MetricCache.store' / 'carbon.hashing:fnv32a#1' /
    'carbon.client:CarbonClientFactory.takeSomeFromQueue.yield_max_datapoints'"""
    mod, _, rest = spec.partition(':')
    parts = rest.split('.')
    m = self.module(mod)
    head = parts[0]
    name, _, ordn = head.partition('#')
    ordn = int(ordn or 0)
    if name in m.classes and len(parts) >= 2:
      ci = m.classes[name][ordn]
      fi = ci.methods.get(parts[1])
      if fi is None:
        raise EngineError("method %s not found" % spec)
      rest_parts = parts[2:]
    elif name in m.functions:
      fi = m.functions[name][ordn]
      rest_parts = parts[1:]
    else:
      raise EngineError("function %s not found" % spec)
    for p in rest_parts:
      fi = self.nested(fi, p)
    return fi

  def nested(self, fi, name):
    for st in ast.walk(fi.node):
      if isinstance(st, ast.FunctionDef) and st is not fi.node and st.name == name:
        m = self.module(fi.module)
        n = FuncInfo(fi.module, fi.cls, st, 0, m.lines, m.path)
        n.parent = fi
        n.name = fi.name + '.' + name
        return n
    raise EngineError("nested function %s not found in %s" % (name, fi.qualname))

  def mark_used(self, fi):
    self.used[fi.qualname] = fi

  def evidence(self):
    funcs = []
    for q in sorted(self.used):
      fi = self.used[q]
      funcs.append({'function': q, 'file': os.path.relpath(fi.path, REPO),
                    'lines': [fi.lineno, fi.end_lineno], 'sha256': fi.sha})
    files = {os.path.relpath(m.path, REPO): m.sha for m in self.modules.values()}
    return funcs, files
