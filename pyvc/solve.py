"""Discharge verification conditions: z3 (python API, fresh context per VC, one process per VC in
a pool), then /usr/bin/cvc5 on whatever z3 leaves unknown.  On the thorough tier both solvers
see every VC and a sat/unsat disagreement is a checker error."""
import multiprocessing
import os
import subprocess
import tempfile
import time

Z3_TIMEOUT_QUICK = 20
Z3_TIMEOUT_THOROUGH = 120
CVC5 = '/usr/bin/cvc5'


def _z3_worker(job):
  uid, smt2, timeout_s, want_model = job
  import z3
  t0 = time.time()
  ctx = z3.Context()
  s = z3.Solver(ctx=ctx)
  s.set('timeout', int(timeout_s * 1000))
  try:
    s.from_string(smt2)
    r = s.check()
  except z3.Z3Exception as e:
    return (uid, 'error', {'error': str(e)}, time.time() - t0)
  res = str(r)
  info = {}
  if r == z3.sat and want_model:
    m = s.model()
    d = {}
    for decl in m.decls():
      try:
        d[decl.name()] = m[decl].sexpr() if hasattr(m[decl], 'sexpr') else str(m[decl])
      except Exception:
        d[decl.name()] = '?'
    info['model'] = d
  if r == z3.unknown:
    info['reason'] = s.reason_unknown()
  return (uid, res, info, time.time() - t0)


def _cvc5_worker(job):
  uid, smt2, timeout_s = job
  t0 = time.time()
  fd, path = tempfile.mkstemp(suffix='.smt2', dir=os.environ.get('PYVC_TMP', None))
  try:
    with os.fdopen(fd, 'w') as f:
      # z3 prints its internal in-bounds / underspecified nth; cvc5 knows both as seq.nth
      f.write(smt2.replace('seq.nth_i', 'seq.nth').replace('seq.nth_u', 'seq.nth'))
    try:
      p = subprocess.run([CVC5, '--strings-exp', '--tlimit=%d' % int(timeout_s * 1000), path],
                         capture_output=True, text=True, timeout=timeout_s + 5)
      out = (p.stdout or '').strip().split('\n')[0].strip()
      err = (p.stderr or '').strip()[:300]
    except subprocess.TimeoutExpired:
      out, err = 'unknown', 'timeout'
  finally:
    try:
      os.unlink(path)
    except OSError:
      pass
  if out not in ('sat', 'unsat', 'unknown'):
    return (uid, 'error', {'error': (out + ' ' + err)[:300]}, time.time() - t0)
  return (uid, out, {}, time.time() - t0)


def discharge(obligations, tier='quick', procs=None):
  """-> dict uid -> {'z3': (res, info, secs), 'cvc5': (res, info, secs) | None, 'verdict': ...}"""
  procs = procs or max(2, min(16, (os.cpu_count() or 4)))
  timeout = Z3_TIMEOUT_THOROUGH if tier == 'thorough' else Z3_TIMEOUT_QUICK
  jobs = []
  texts = {}
  for i, ob in enumerate(obligations):
    ob.uid = i
    texts[i] = ob.smt2()
    jobs.append((i, texts[i], timeout, True))
  results = {}
  if not jobs:
    return results
  ctx = multiprocessing.get_context('fork')
  with ctx.Pool(procs) as pool:
    for (uid, res, info, secs) in pool.imap_unordered(_z3_worker, jobs, chunksize=1):
      results[uid] = {'z3': (res, info, secs), 'cvc5': None}
    cj = []
    for uid, r in results.items():
      if tier == 'thorough' or r['z3'][0] in ('unknown', 'error'):
        cj.append((uid, texts[uid], timeout))
    if cj and os.path.exists(CVC5):
      for (uid, res, info, secs) in pool.imap_unordered(_cvc5_worker, cj, chunksize=1):
        results[uid]['cvc5'] = (res, info, secs)
  for uid, r in results.items():
    z = r['z3'][0]
    c = r['cvc5'][0] if r['cvc5'] else None
    if z in ('sat', 'unsat') and c in ('sat', 'unsat') and z != c:
      r['verdict'] = 'disagree'
    elif z == 'unsat' or (z not in ('sat',) and c == 'unsat'):
      r['verdict'] = 'discharged'
    elif z == 'sat':
      r['verdict'] = 'refuted'
    elif c == 'sat':
      r['verdict'] = 'refuted'
    else:
      r['verdict'] = 'unknown'
  return results


def relaxed_check(ob, timeout_s=20):
  """Second opinion on a VC both solvers left open: drop the *quantified* hypotheses.
  unsat  => the obligation is proved (fewer hypotheses sufficed);
  sat    => the path is feasible and the clause false as far as the ground facts go -- a candidate
            refutation whose model may violate a dropped (quantified) fact;
  unknown otherwise."""
  import z3
  from .core import has_quantifier
  s = z3.Solver()
  s.set('timeout', int(timeout_s * 1000))
  kept = 0
  for a in ob.pc:
    if not has_quantifier(a):
      s.add(a)
      kept += 1
  s.add(z3.Not(ob.goal))
  r = s.check()
  info = {'kept_hypotheses': kept, 'dropped_hypotheses': len(ob.pc) - kept}
  if r == z3.sat:
    m = s.model()
    d = {}
    for decl in m.decls()[:150]:
      try:
        d[decl.name()] = str(m[decl])[:200]
      except Exception:
        pass
    info['model'] = d
  return str(r), info
