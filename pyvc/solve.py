"""Discharge verification conditions: z3 (python API, fresh context per VC, one process per VC in
a pool), then /usr/bin/cvc5 on whatever z3 leaves unknown.  On the thorough tier both solvers
see every VC and a sat/unsat disagreement is a checker error.

Budgets are z3 *resource limits* (rlimit: a deterministic count of solver steps), not wall-clock
timeouts: the verdict on a VC is the same on an idle and on a busy machine, only the time differs
(the wall-clock limit is a backstop of ten minutes per solver call).  Measured on the unchanged tree, the most
expensive VC that is discharged needs 8.4 million units (C06 add_node, ~7 s); every other one needs
less than 0.5 million.  Stages for a VC z3 leaves open after RLIMIT_1:
  1b  the same VC without its quantified hypotheses, RLIMIT_1 (unsat there => unsat)
  2   cvc5 (wall-clock 60 s; it can only add verdicts)
  3   the full VC again with RLIMIT_2 (ten times the first budget)
Only what is still open after that is `unknown`."""
import multiprocessing
import os
import subprocess
import tempfile
import time

RLIMIT_1 = {'quick': 25 * 10 ** 6, 'thorough': 80 * 10 ** 6}
RLIMIT_2 = {'quick': 250 * 10 ** 6, 'thorough': 800 * 10 ** 6}
WALL_BACKSTOP_S = 600
WORKER_MEMORY_MB = 2500
CVC5_WALL_S = {'quick': 60, 'thorough': 45}
CVC5 = '/usr/bin/cvc5'


def _z3_worker(job):
  uid, smt2, rlimit, want_model = job
  import z3
  t0 = time.time()
  try:
    z3.set_param('memory_max_size', WORKER_MEMORY_MB)      # z3 answers unknown (memout) instead of growing
  except Exception:
    pass
  ctx = z3.Context()
  s = z3.Solver(ctx=ctx)
  s.set('rlimit', int(rlimit))
  s.set('timeout', WALL_BACKSTOP_S * 1000)
  try:
    s.from_string(smt2)
    r = s.check()
  except z3.Z3Exception as e:
    return (uid, 'error', {'error': str(e)}, time.time() - t0)
  res = str(r)
  info = {}
  if r == z3.sat and want_model:
    m = s.model()
    d = {}
    for decl in m.decls():
      try:
        d[decl.name()] = m[decl].sexpr() if hasattr(m[decl], 'sexpr') else str(m[decl])
      except Exception:
        d[decl.name()] = '?'
    info['model'] = d
  if r == z3.unknown:
    info['reason'] = s.reason_unknown()
  if os.environ.get('PYVC_STATS'):
    try:
      st = s.statistics()
      rl = [st.get_key_value(k) for k in st.keys() if k == 'rlimit count']
      with open(os.environ['PYVC_STATS'], 'a') as f:
        f.write('%s %.3f %s uid=%s\n' % (res, time.time() - t0, rl[0] if rl else -1, uid))
      if res == 'unknown' and os.environ.get('PYVC_DUMP'):
        with open(os.environ['PYVC_STATS'] + '.%s.smt2' % uid, 'w') as f:
          f.write(smt2)
    except Exception:
      pass
  return (uid, res, info, time.time() - t0)


def _cvc5_worker(job):
  uid, smt2, timeout_s = job
  t0 = time.time()
  fd, path = tempfile.mkstemp(suffix='.smt2', dir=os.environ.get('PYVC_TMP', None))
  try:
    with os.fdopen(fd, 'w') as f:
      # z3 prints its internal in-bounds / underspecified nth; cvc5 knows both as seq.nth
      f.write(smt2.replace('seq.nth_i', 'seq.nth').replace('seq.nth_u', 'seq.nth'))
    try:
      p = subprocess.run([CVC5, '--strings-exp', '--tlimit=%d' % int(timeout_s * 1000), path],
                         capture_output=True, text=True, timeout=timeout_s + 5)
      out = (p.stdout or '').strip().split('\n')[0].strip()
      err = (p.stderr or '').strip()[:300]
    except subprocess.TimeoutExpired:
      out, err = 'unknown', 'timeout'
  finally:
    try:
      os.unlink(path)
    except OSError:
      pass
  if out not in ('sat', 'unsat', 'unknown'):
    return (uid, 'error', {'error': (out + ' ' + err)[:300]}, time.time() - t0)
  return (uid, out, {}, time.time() - t0)


class _Pool(object):
  """map jobs over worker processes; a worker that dies (e.g. killed by the kernel for memory)
  yields an 'error' result for the job it held instead of hanging the whole check"""
  def __init__(self, procs):
    self.procs = procs

  def imap_unordered(self, fn, jobs, chunksize=1):
    import concurrent.futures as cf
    from concurrent.futures.process import BrokenProcessPool
    jobs = list(jobs)
    pending = list(jobs)
    attempts = 0
    while pending:
      attempts += 1
      done_uids = set()
      ex = cf.ProcessPoolExecutor(max_workers=self.procs, mp_context=multiprocessing.get_context('fork'))
      try:
        futs = {ex.submit(fn, j): j for j in pending}
        try:
          for f in cf.as_completed(futs):
            j = futs[f]
            try:
              r = f.result()
            except BrokenProcessPool:
              raise
            except Exception as e:
              r = (j[0], 'error', {'error': 'worker raised %r' % (e,)}, 0.0)
            done_uids.add(j[0])
            yield r
        except BrokenProcessPool:
          pass
      finally:
        ex.shutdown(wait=False, cancel_futures=True)
      pending = [j for j in pending if j[0] not in done_uids]
      if pending and attempts >= 2:
        # a worker died twice: give the remaining jobs an error verdict (checker error, never a violation)
        for j in pending:
          yield (j[0], 'error', {'error': 'solver worker process died (out of memory?)'}, 0.0)
        return
      if pending:
        self.procs = max(2, self.procs // 2)       # retry what is left with half the parallelism


def discharge(obligations, tier='quick', procs=None):
  """-> dict uid -> {'z3': (res, info, secs), 'cvc5': (res, info, secs) | None, 'verdict': ...}"""
  procs = procs or max(2, min(16, (os.cpu_count() or 4)))
  tier = 'thorough' if tier == 'thorough' else 'quick'
  r1, r2 = RLIMIT_1[tier], RLIMIT_2[tier]
  jobs = []
  texts = {}
  by_uid = {}
  for i, ob in enumerate(obligations):
    ob.uid = i
    by_uid[i] = ob
    texts[i] = ob.smt2()
    jobs.append((i, texts[i], r1, True))
  results = {}
  if not jobs:
    return results
  pool = _Pool(procs)
  if True:
    for (uid, res, info, secs) in pool.imap_unordered(_z3_worker, jobs, chunksize=1):
      results[uid] = {'z3': (res, info, secs), 'cvc5': None}
    open_ = [uid for uid, r in results.items() if r['z3'][0] in ('unknown', 'error')]
    # 1b: ground hypotheses only
    if open_:
      rj = [(uid, by_uid[uid].smt2_relaxed(), r1, False) for uid in open_]
      for (uid, res, info, secs) in pool.imap_unordered(_z3_worker, rj, chunksize=1):
        if res == 'unsat':
          results[uid]['z3'] = ('unsat', {'ground_hypotheses_only': True}, results[uid]['z3'][2] + secs)
      open_ = [uid for uid in open_ if results[uid]['z3'][0] in ('unknown', 'error')]
    # 2: cvc5
    cj = [(uid, texts[uid], CVC5_WALL_S[tier]) for uid in (list(results) if tier == 'thorough' else open_)]
    if cj and os.path.exists(CVC5):
      for (uid, res, info, secs) in pool.imap_unordered(_cvc5_worker, cj, chunksize=1):
        results[uid]['cvc5'] = (res, info, secs)
    # 3: the full VC with the large budget
    again = [uid for uid in open_ if not (results[uid]['cvc5'] and results[uid]['cvc5'][0] in ('sat', 'unsat'))]
    if again:
      for (uid, res, info, secs) in pool.imap_unordered(_z3_worker, [(uid, texts[uid], r2, True) for uid in again], chunksize=1):
        if res in ('sat', 'unsat'):
          results[uid]['z3'] = (res, dict(info, second_budget=True), results[uid]['z3'][2] + secs)
        else:
          results[uid]['z3'] = (results[uid]['z3'][0], dict(results[uid]['z3'][1], second_budget_rlimit=r2), results[uid]['z3'][2] + secs)
  for uid, r in results.items():
    z = r['z3'][0]
    c = r['cvc5'][0] if r['cvc5'] else None
    if z in ('sat', 'unsat') and c in ('sat', 'unsat') and z != c:
      r['verdict'] = 'disagree'
    elif z == 'unsat' or (z not in ('sat',) and c == 'unsat'):
      r['verdict'] = 'discharged'
    elif z == 'sat':
      r['verdict'] = 'refuted'
    elif c == 'sat':
      r['verdict'] = 'refuted'
    elif z == 'error':
      r['verdict'] = 'error'          # the solver process failed (parse error, died): a checker error, not an open VC
    else:
      r['verdict'] = 'unknown'
  return results


def relaxed_check(ob, rlimit=25 * 10 ** 6):
  """Second opinion on a VC both solvers left open: drop the *quantified* hypotheses.
  unsat  => the obligation is proved (fewer hypotheses sufficed);
  sat    => the path is feasible and the clause false as far as the ground facts go -- a candidate
            refutation whose model may violate a dropped (quantified) fact;
  unknown otherwise."""
  import z3
  from .core import has_quantifier
  s = z3.Solver()
  s.set('rlimit', int(rlimit))
  s.set('timeout', WALL_BACKSTOP_S * 1000)
  kept = 0
  for a in ob.pc:
    if not has_quantifier(a):
      s.add(a)
      kept += 1
  s.add(z3.Not(ob.goal))
  r = s.check()
  info = {'kept_hypotheses': kept, 'dropped_hypotheses': len(ob.pc) - kept}
  if r == z3.sat:
    m = s.model()
    d = {}
    for decl in m.decls()[:150]:
      try:
        d[decl.name()] = str(m[decl])[:200]
      except Exception:
        pass
    info['model'] = d
  return str(r), info
