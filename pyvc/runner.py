"""Run one property: explore every unit, discharge the VCs, replay refutations natively, run the
bounded stand-ins, report known findings, write evidence, pick the exit code.

exit 0  every obligation discharged and every bounded stand-in passed
exit 1  an obligation was *refuted* (solver model) or a bounded stand-in found a failing input
        that known_findings.json does not list
exit 2  undecided (unknown / timeout on both solvers, or a contract anchor moved)
exit 3  checker crash / unsupported construct / vacuous contract
"""
import hashlib
import json
import os
import re
import subprocess
import sys
import time
import traceback

from .core import Explorer, EngineError, PathEnd
from .interp import AnchorMoved, ContractMismatch
from .values import PyRaise
from .source import SourceIndex, REPO
from . import solve

VERIF = os.path.dirname(os.path.dirname(os.path.abspath(__file__)))
NATIVE_PY = '/venv/bin/python'

EXTRACTION_DROPS = [
  "docstrings",
  "calls to log.* (the whole call expression including its argument expressions is treated as an effect-free, non-raising no-op)",
  "`if sys.version_info >= (3, 0):` is taken as true (the Python 2 branch is not executed)",
  "decorators property/classmethod/staticmethod are interpreted, no other decorator occurs",
  "generators are run eagerly to completion into a ghost output sequence (sound here because the generator bodies under contract write only their own locals or are consumed completely)",
]

BASE_ASSUMPTIONS = [
  "A-ENGINE: pyvc's encoding of the Python subset (DESIGN.md 1.3) is faithful; container models in pyvc/models.py are assumed contracts of list/dict/set/deque",
  "A-SMT: z3 5.1.0 / cvc5 1.0.3 answers are correct",
  "Python int is the mathematical integers (exact); float is treated as real arithmetic where the unit says so (A-REAL)",
]


class Unit(object):
  def __init__(self, name, run, functions, replay=None, expect_covers=(), note='', native_clauses=()):
    self.native_clauses = list(native_clauses)   # top-level clauses the native search can evaluate
    self.name = name
    self.run = run                    # run(ctx, index)
    self.functions = functions        # qualnames of the functions whose bodies are executed
    self.replay = replay              # replay(model: dict, ob) -> dict | None
    self.expect_covers = list(expect_covers)
    self.note = note


class Bounded(object):
  """A clause decided only by a bounded stand-in (never counted as proved)."""
  def __init__(self, name, script, args_quick, args_thorough, bound, why):
    self.name = name
    self.script = script
    self.args_quick = args_quick
    self.args_thorough = args_thorough
    self.bound = bound
    self.why = why


class Syntactic(object):
  """A call-site / wiring fact checked syntactically on the AST of /repo (counted as an
  obligation discharged by the 'ast' back end)."""
  def __init__(self, name, fn, what):
    self.name = name
    self.fn = fn          # fn(index) -> (ok: bool, detail: str)
    self.what = what


class Property(object):
  def __init__(self, pid, units, bounded=(), syntactic=(), trusted_base=(), assumptions=(),
               findings_witness=None, label_prefixes=None, finding_labels=None):
    self.pid = pid
    self.units = list(units)
    self.bounded = list(bounded)
    self.syntactic = list(syntactic)
    self.trusted_base = list(trusted_base)
    self.assumptions = list(assumptions)
    self.findings_witness = findings_witness or {}   # finding id -> fn() -> (still_fails, detail)
    self.label_prefixes = label_prefixes or [pid + '/']   # shared units: keep only these labels
    # obligation label -> id of a known finding (known_findings.json) whose region is exactly the
    # failure of that obligation; the refutation is reported as KNOWN-FINDING only while the
    # finding is listed as 'finding' AND its native witness still fails
    self.finding_labels = finding_labels or {}


def load_known_findings():
  p = os.path.join(VERIF, 'known_findings.json')
  if not os.path.exists(p):
    return []
  with open(p) as f:
    return json.load(f).get('entries', [])


_BASELINE = None


def baseline_labels(pid):
  """labels discharged on the unchanged tree, recorded by tools/update_baseline.py"""
  global _BASELINE
  if _BASELINE is None:
    p = os.path.join(VERIF, 'baseline', 'obligations.json')
    _BASELINE = json.load(open(p)) if os.path.exists(p) else {}
  return set(_BASELINE.get(pid, []))


def active_findings(pid):
  return [e for e in load_known_findings() if e.get('property') == pid and e.get('status') == 'finding']


def run_native(script, args, timeout=3600, env_extra=None):
  env = dict(os.environ)
  env['PYTHONPATH'] = os.path.join(REPO, 'lib') + os.pathsep + VERIF
  env.setdefault('GRAPHITE_NO_PREFIX', 'true')
  if env_extra:
    env.update(env_extra)
  cmd = [NATIVE_PY, os.path.join(VERIF, script)] + [str(a) for a in args]
  p = subprocess.run(cmd, capture_output=True, text=True, timeout=timeout, env=env, cwd=VERIF)
  return p.returncode, p.stdout, p.stderr


def _safe(label):
  return re.sub(r'[^A-Za-z0-9_.-]+', '-', label)[:150]


def run_property(prop, tier='quick', seed=0, only_unit=None, verbose=False):
  t0 = time.time()
  index = SourceIndex()
  explorer = Explorer()
  explorer.label_prefixes = list(prop.label_prefixes)
  all_obs = []
  unit_stats = []
  status = {'crash': [], 'undecided': [], 'vacuous': []}
  replay_dir = os.path.join(VERIF, 'out', 'replays')
  os.makedirs(replay_dir, exist_ok=True)
  unit_of = {}
  weak_notes = []
  mismatch_units = []

  for u in prop.units:
    if only_unit and only_unit not in u.name:
      continue
    ut0 = time.time()
    try:
      from .interp import NeedWeak, WEAK_SITES
      WEAK_SITES.clear()
      for _attempt in range(6):
        try:
          obs, covers, n_paths, n_done = explorer.explore(u.name, lambda ctx: u.run(ctx, index))
          break
        except NeedWeak as nw:
          WEAK_SITES.add(nw.site)
          weak_notes.append("%s: container allocated at %r is written inside a cut loop outside the loop contract's frame; abstracted to an untracked (fully nondeterministic) container" % (u.name, nw.site))
      else:
        raise EngineError("too many untracked containers")
    except AnchorMoved as e:
      status['undecided'].append("%s: contract anchor moved: %s" % (u.name, e))
      mismatch_units.append(u)
      continue
    except ContractMismatch as e:
      status['undecided'].append("%s: contract no longer matches the code: %s" % (u.name, e))
      mismatch_units.append(u)
      continue
    except EngineError as e:
      status['crash'].append("%s: %s" % (u.name, e))
      mismatch_units.append(u)      # the function-level clauses can still be searched natively
      if verbose:
        traceback.print_exc()
      continue
    except RecursionError as e:
      status['crash'].append("%s: recursion: %s" % (u.name, e))
      continue
    except PyRaise as e:
      # the real function raised from a pre-state the sidecar harness built (e.g. it now reads an
      # attribute the harness does not know): the contract does not apply to this code as it stands
      status['undecided'].append("%s: the function under contract raised %r from the harness pre-state; contract no longer matches the code" % (u.name, e.exc))
      mismatch_units.append(u)
      if verbose:
        traceback.print_exc()
      continue
    except (KeyError, AttributeError, TypeError, IndexError) as e:
      # the contract refers to something the (changed) function no longer has, e.g. a loop
      # invariant over a local variable that was refactored away: the contract does not apply
      status['undecided'].append("%s: contract no longer matches the code (%s: %s)" % (u.name, type(e).__name__, e))
      mismatch_units.append(u)
      if verbose:
        traceback.print_exc()
      continue
    except Exception as e:
      # anything else raised while a sidecar contract was applied to (changed) code -- e.g. a z3
      # sort error from a contract hook fed a value of a new shape: a checker error of this unit
      # only; the other units, the native fallback and the bounded clauses still run
      status['crash'].append("%s: %s: %s" % (u.name, type(e).__name__, str(e)[:300]))
      mismatch_units.append(u)
      if verbose:
        traceback.print_exc()
      continue
    obs = [ob for ob in obs if any(ob.label.startswith(p) for p in prop.label_prefixes)]
    for ob in obs:
      unit_of[id(ob)] = u
    if not obs:
      status['vacuous'].append("%s: generated zero obligations" % u.name)
    for c in u.expect_covers:
      if covers.get(c, 0) == 0:
        status['vacuous'].append("%s: cover %r not reachable (contradictory requires?)" % (u.name, c))
    all_obs.extend(obs)
    unit_stats.append({'unit': u.name, 'paths': n_paths, 'completed_paths': n_done,
                       'obligations': len(obs), 'covers': covers,
                       'explore_s': round(time.time() - ut0, 3)})
    if verbose:
      print("  unit %-50s paths=%d obligations=%d (%.1fs)" % (u.name, n_paths, len(obs), time.time() - ut0))

  results = solve.discharge(all_obs, tier=tier)

  # syntactic obligations
  syn_results = []
  for s in prop.syntactic:
    try:
      ok, detail = s.fn(index)
    except EngineError as e:
      status['crash'].append("%s: %s" % (s.name, e))
      continue
    syn_results.append((s, ok, detail))

  findings = active_findings(prop.pid)
  known_lines = []
  violations = []        # (label, replay_path, tail)
  per_backend = {'z3': {'count': 0, 'seconds': 0.0}, 'cvc5': {'count': 0, 'seconds': 0.0},
                 'ast': {'count': 0, 'seconds': 0.0}}
  discharged = 0
  samples = []
  by_label = {}
  refuted_labels = {}
  unknown_obs = {}
  known_refuted = []

  for ob in all_obs:
    r = results[ob.uid]
    z = r['z3']
    per_backend['z3']['count'] += 1
    per_backend['z3']['seconds'] += z[2]
    if r['cvc5']:
      per_backend['cvc5']['count'] += 1
      per_backend['cvc5']['seconds'] += r['cvc5'][2]
    lab = by_label.setdefault(ob.label, {'instances': 0, 'discharged': 0})
    lab['instances'] += 1
    v = r['verdict']
    if v == 'discharged':
      discharged += 1
      lab['discharged'] += 1
      if len(samples) < 4 and len(ob.pc) > 0:
        samples.append({'obligation': ob.label, 'unit': ob.unit, 'kind': ob.kind,
                        'path': list(ob.path), 'verdict': 'unsat (discharged)',
                        'solver': 'z3' if z[0] == 'unsat' else 'cvc5',
                        'seconds': round(z[2], 4),
                        'goal': str(ob.goal)[:400],
                        'smt2_sha256': hashlib.sha256(ob.smt2().encode()).hexdigest()})
    elif v == 'refuted':
      refuted_labels.setdefault(ob.label, []).append(ob)
    elif v == 'disagree':
      status['crash'].append("%s: z3 and cvc5 disagree (%s vs %s)" % (ob.label, z[0], r['cvc5'][0]))
    elif v == 'error':
      status['crash'].append("%s: solver failed: %s" % (ob.label, str(z[1].get('error', ''))[:200]))
    else:
      unknown_obs.setdefault(ob.label, []).append(ob)

  for (s, ok, detail) in syn_results:
    per_backend['ast']['count'] += 1
    lab = by_label.setdefault(s.name, {'instances': 0, 'discharged': 0})
    lab['instances'] += 1
    if ok:
      discharged += 1
      lab['discharged'] += 1
    else:
      path = os.path.join(replay_dir, _safe(s.name) + '.json')
      with open(path, 'w') as f:
        json.dump({'property': prop.pid, 'obligation': s.name, 'kind': 'syntactic',
                   'what': s.what, 'detail': detail, 'native_confirms': None}, f, indent=1)
      violations.append((s.name, path, ' no-failing-input-found'))

  # obligations both solvers left open (typically: the VC is satisfiable but has quantified
  # hypotheses, so no model is produced).  They are never reported as violations on the solver's
  # word; but if the unit's native search finds an input of the REAL code that violates the
  # same clause, that is a confirmed violation.  Otherwise: UNDECIDED.
  for label, obs in sorted(unknown_obs.items()):
    ob = obs[0]
    u = unit_of[id(ob)]
    r = results[ob.uid]
    z = r['z3']
    why = "%s / %s" % (z[0] + ':' + str(z[1].get('reason', z[1].get('error', ''))),
                       (r['cvc5'][0] + ':' + str(r['cvc5'][1].get('error', ''))) if r['cvc5'] else 'cvc5 not run')
    out = None
    if u.replay is not None:
      try:
        out = u.replay({}, ob)
      except Exception as e:
        out = {'replay_error': repr(e)}
    if out and out.get('native_confirms'):
      path = os.path.join(replay_dir, _safe(label) + '.json')
      with open(path, 'w') as f:
        json.dump({'property': prop.pid, 'obligation': label, 'unit': ob.unit, 'kind': ob.kind,
                   'solver_verdict': 'unknown (' + why + ')', 'goal': str(ob.goal)[:2000],
                   'native_confirms': True, 'replay': out,
                   'note': 'the solvers produced no model; the failing input was found by the guided native search over the real code'},
                  f, indent=1, default=str)
      violations.append((label, path, ''))
    else:
      # second opinion without the quantified hypotheses (see solve.relaxed_check)
      verdicts = [solve.relaxed_check(o) for o in obs[:40]]
      if len(obs) <= 40 and all(v[0] == 'unsat' for v in verdicts):
        discharged += len(obs)
        by_label[label]['discharged'] += len(obs)
        per_backend['z3']['count'] += len(obs)
        continue
      sat = [(o, v) for o, v in zip(obs, verdicts) if v[0] == 'sat']
      if sat and label in baseline_labels(prop.pid):
        # the obligation was discharged on the unchanged tree (baseline/obligations.json) and is
        # now open, with a model of the ground part of its path condition: reported as a
        # violation without a failing input
        o, v = sat[0]
        path = os.path.join(replay_dir, _safe(label) + '.json')
        with open(path, 'w') as f:
          json.dump({'property': prop.pid, 'obligation': label, 'unit': o.unit, 'kind': o.kind,
                     'path': list(o.path), 'trail': o.meta.get('trail'),
                     'solver_verdict': 'unknown on the full VC (' + why + '); sat without the quantified hypotheses',
                     'relaxed': v[1], 'goal': str(o.goal)[:2000], 'native_confirms': None,
                     'note': 'this obligation is discharged on the unchanged tree (baseline/obligations.json); no concrete failing input was produced'},
                    f, indent=1, default=str)
        violations.append((label, path, ' no-failing-input-found'))
      else:
        status['undecided'].append("%s: %s (%d instance(s); native search found no failing input; relaxed: %s)" % (
          label, why, len(obs), sorted(set(v[0] for v in verdicts))))

  # units whose contract could not be applied to the changed code: the function-level clauses can
  # still be searched natively on the real code (a found input is a confirmed violation; nothing
  # found leaves the unit undecided)
  class _Ob(object):
    def __init__(self, label, unit):
      self.label, self.unit, self.kind, self.path, self.meta, self.goal = label, unit, 'ensures', (), {}, None
  for u in mismatch_units:
    if u.replay is None:
      continue
    for label in u.native_clauses:
      if not any(label.startswith(p) for p in prop.label_prefixes):
        continue
      try:
        out = u.replay({}, _Ob(label, u.name))
      except Exception as e:
        out = {'replay_error': repr(e)}
      if out and out.get('native_confirms'):
        path = os.path.join(replay_dir, _safe(label) + '.json')
        with open(path, 'w') as f:
          json.dump({'property': prop.pid, 'obligation': label, 'unit': u.name,
                     'solver_verdict': 'not generated: the contract (loop invariant / anchor) no longer matches the code',
                     'native_confirms': True, 'replay': out,
                     'note': 'failing input found by the guided native search over the real code'},
                    f, indent=1, default=str)
        violations.append((label, path, ''))

  # refutations -> replay
  witness_cache = {}

  def known_finding_for(label):
    fid = prop.finding_labels.get(label)
    if fid is None:
      return None
    ent = [e for e in findings if e.get('id') == fid]
    if not ent:
      return None
    if fid not in witness_cache:
      w = prop.findings_witness.get(fid)
      try:
        witness_cache[fid] = w() if w else (False, 'no witness')
      except Exception as ex:
        witness_cache[fid] = (False, 'witness crashed: %r' % (ex,))
    still, detail = witness_cache[fid]
    return ent[0] if still else None

  for label, obs in sorted(refuted_labels.items()):
    kf = known_finding_for(label)
    if kf is not None:
      line = "KNOWN-FINDING: property=%s %s" % (prop.pid, kf.get('what', kf.get('id')))
      if line not in known_lines:
        known_lines.append(line)
      known_refuted.append(label)
      continue
    ob = obs[0]
    u = unit_of[id(ob)]
    model = results[ob.uid]['z3'][1].get('model', {})
    rep = {'property': prop.pid, 'obligation': label, 'unit': ob.unit, 'kind': ob.kind,
           'path': list(ob.path), 'trail': ob.meta.get('trail'),
           'refuted_instances': len(obs),
           'solver': 'z3 5.1.0', 'model': {k: model[k] for k in sorted(model)[:200]},
           'goal': str(ob.goal)[:2000], 'native_confirms': None}
    confirmed = False
    if u.replay is not None:
      for cand in obs[:6]:
        try:
          m2 = results[cand.uid]['z3'][1].get('model', {})
          out = u.replay(m2, cand)
        except Exception as e:      # replay harness problems must not mask the verdict
          out = {'replay_error': repr(e)}
        if out:
          rep['replay'] = out
          if out.get('native_confirms'):
            confirmed = True
            rep['native_confirms'] = True
            break
    path = os.path.join(replay_dir, _safe(label) + '.json')
    with open(path, 'w') as f:
      json.dump(rep, f, indent=1, default=str)
    violations.append((label, path, '' if confirmed else ' no-failing-input-found'))

  # bounded stand-ins
  bounded_out = []
  for b in prop.bounded:
    if only_unit and only_unit not in b.name:
      continue
    args = b.args_thorough if tier == 'thorough' else b.args_quick
    bt0 = time.time()
    try:
      rc, out, err = run_native(b.script, list(args) + ['--seed', str(seed)])
    except subprocess.TimeoutExpired:
      status['undecided'].append("%s: bounded stand-in timed out" % b.name)
      continue
    info = None
    for line in out.splitlines():
      if line.startswith('BOUNDED-RESULT '):
        info = json.loads(line[len('BOUNDED-RESULT '):])
    if info is None:
      status['crash'].append("%s: bounded stand-in produced no result (rc=%d): %s" % (b.name, rc, (err or out)[-400:]))
      continue
    info.update({'clause': b.name, 'bounded': True, 'bound': b.bound, 'why_not_proved': b.why,
                 'seconds': round(time.time() - bt0, 2)})
    bounded_out.append(info)
    for fail in info.get('failures', []):
      fid = fail.get('id')
      listed = [e for e in findings if e.get('id') == fid]
      if listed:
        line = "KNOWN-FINDING: property=%s %s" % (prop.pid, listed[0].get('what', fid))
        if line not in known_lines:
          known_lines.append(line)
      else:
        path = os.path.join(replay_dir, _safe(b.name + '-' + str(fid)) + '.json')
        if any(v[1] == path for v in violations):
          continue            # one replay file (the first failing input) per failure kind
        with open(path, 'w') as f:
          json.dump({'property': prop.pid, 'obligation': b.name, 'kind': 'bounded', 'failure': fail,
                     'native_confirms': True}, f, indent=1, default=str)
        violations.append((b.name, path, ''))

  # known findings with native witnesses (proof-side findings)
  for e in findings:
    w = prop.findings_witness.get(e.get('id'))
    if w is None or e.get('id') in prop.finding_labels.values():
      continue
    try:
      still, detail = w()
    except Exception as ex:
      status['crash'].append("finding witness %s: %r" % (e.get('id'), ex))
      continue
    if still:
      known_lines.append("KNOWN-FINDING: property=%s %s" % (prop.pid, e.get('what', e.get('id'))))

  # obligations that fall inside a recorded known finding are reported separately: they are not
  # proved, and they are not counted among the obligations this run claims to have discharged
  n_known = sum(by_label[l]['instances'] - by_label[l]['discharged'] for l in known_refuted)
  n_obl = len(all_obs) + len(syn_results) - n_known
  wall = time.time() - t0
  funcs, files = index.evidence()
  evidence = {
    'property_id': prop.pid,
    'tier': tier,
    'seed': seed,
    'level': 'proof',
    'wall_s': round(wall, 2),
    'violations': len(violations),
    'assumptions': BASE_ASSUMPTIONS + prop.assumptions,
    'coverage': {
      'obligations': n_obl,
      'discharged': discharged,
      'checker_cmd': "python3-vt /verif/check %s --tier %s  (pyvc VC generator over ast of /repo -> z3 5.1.0 python API, cvc5 1.0.3 on unknowns)" % (prop.pid, tier),
      'trusted_base': prop.trusted_base,
      'samples': samples or [{'note': 'no discharged obligation to sample'}],
      'obligation_labels': by_label,
      'per_backend': {k: {'count': v['count'], 'seconds': round(v['seconds'], 3)} for k, v in per_backend.items()},
      'units': unit_stats,
      'functions_under_contract': funcs,
      'source_files_sha256': files,
      'extraction_drops': EXTRACTION_DROPS,
      'bounded_clauses': bounded_out,
      'syntactic_obligations': [{'name': s.name, 'what': s.what, 'ok': ok, 'detail': detail}
                                for (s, ok, detail) in syn_results],
      'known_findings_reported': known_lines,
      'obligations_refuted_inside_a_known_finding': known_refuted,
      'obligation_instances_inside_known_findings': n_known,
      'untracked_containers': weak_notes,
      'undecided': status['undecided'],
      'checker_errors': status['crash'] + status['vacuous'],
      'feasibility_queries': explorer.feas_queries,
      'explanation': "each obligation is one (path x clause) verification condition generated from the current source of the listed functions; 'discharged' counts solver answers 'unsat' for (path condition AND NOT clause), plus syntactic call-site facts checked on the AST; bounded_clauses are NOT counted in obligations/discharged",
    },
  }
  # evidence is only written for runs against /repo itself (self-test runs against scratch
  # copies go to out/)
  ev_dir = os.path.join(VERIF, 'evidence') if os.path.realpath(REPO) == '/repo' else \
      os.path.join(VERIF, 'out', 'scratch-evidence')
  os.makedirs(ev_dir, exist_ok=True)
  with open(os.path.join(ev_dir, prop.pid + '.json'), 'w') as f:
    json.dump(evidence, f, indent=1, default=str)

  for line in known_lines:
    print(line)
  print("property %s tier=%s: %d obligations, %d discharged, %d refuted labels, %d undecided, %d bounded clauses, %.1fs" % (
    prop.pid, tier, n_obl, discharged, len(violations), len(status['undecided']), len(bounded_out), wall))
  if status['crash'] or status['vacuous']:
    for s in status['crash'] + status['vacuous']:
      print("CHECKER-ERROR: " + s)
    # a crash never masks a refutation that was found, but is never reported as one
  if violations:
    for (label, path, tail) in violations:
      print("refuted obligation: %s" % label)
      print("VIOLATION property=%s replay=%s%s" % (prop.pid, path, tail))
    return 1
  if status['crash'] or status['vacuous']:
    return 3
  if status['undecided']:
    for s in status['undecided']:
      print("UNDECIDED: " + s)
    return 2
  if n_obl == 0:
    print("CHECKER-ERROR: zero obligations")
    return 3
  return 0
