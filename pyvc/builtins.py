"""Built-in functions and methods of scalar values, as the interpreter sees them."""
import z3

from .core import EngineError, is_z3
from .values import (Atom, Val, Inf, INF, Model, ModelMethod, Builtin, RepoFunc, RepoClass,
                     ModelClass, BoundMethod, Closure, PyObj, ExcClass, ExcVal, PyRaise, znum,
                     is_num, EXC_PARENT)
from .models import PyList, PySetLit, SymSeq, SymMap, SymSet, TTuple, TInt


def install(ip):
  b = ip.builtins
  from . import interp as I
  for name in EXC_PARENT:
    if '.' not in name:
      b[name] = ExcClass(name)
  b['object'] = I.OBJECT
  b['True'] = True
  b['False'] = False
  b['None'] = None

  def reg(name):
    def deco(fn):
      b[name] = Builtin(name, fn)
      return fn
    return deco

  @reg('len')
  def _len(ip, args, kw):
    (v,) = args
    if isinstance(v, (tuple, str, bytes)):
      return len(v)
    if isinstance(v, I.DictLit):
      return len(v.items)
    if isinstance(v, Model):
      if v.shared:
        ip.yield_point(v)
      return v.py___len__(ip)
    if isinstance(v, PyObj):
      if v.shared:
        ip.yield_point(v)
      m = ip.find_method(v.cls, '__len__') if v.cls else None
      if m is not None:
        return ip.call(BoundMethod(v, m[0]), [])
      if v.base is not None:
        return v.base.py___len__(ip)
    if is_z3(v):
      h = ip.ext.get(('len', v.sort().name()))
      if h:
        return h(ip, v)
    if v is None or isinstance(v, (int, float)):
      raise PyRaise(ExcVal('TypeError', ('object has no len()',)))
    raise EngineError("len of %r" % (v,))

  @reg('bool')
  def _bool(ip, args, kw):
    if not args:
      return False
    return ip.truth(args[0])

  @reg('int')
  def _int(ip, args, kw):
    v = args[0]
    if len(args) > 1:
      h = ip.ext.get('int_base')
      if h:
        return h(ip, v, args[1])
      raise EngineError("int(x, base)")
    if isinstance(v, bool):
      return int(v)
    if isinstance(v, (int, float)):
      return int(v)
    if isinstance(v, str):
      try:
        return int(v)
      except ValueError:
        raise PyRaise(ExcVal('ValueError', ()))
    if is_z3(v):
      if z3.is_int(v):
        return v
      if z3.is_real(v):
        # truncation toward zero
        return z3.If(v >= 0, z3.ToInt(v), -z3.ToInt(-v))
      if z3.is_bv(v):
        return v          # ints that come from 32-bit hash arithmetic stay bit-vectors
      h = ip.ext.get(('int', v.sort().name()))
      if h:
        return h(ip, v)
    if isinstance(v, Model) and hasattr(v, 'py___int__'):
      return v.py___int__(ip)
    raise EngineError("int(%r)" % (v,))

  @reg('float')
  def _float(ip, args, kw):
    (v,) = args
    if isinstance(v, bool):
      return float(v)
    if isinstance(v, (int, float)):
      return v if isinstance(v, float) else float(v)
    if isinstance(v, str):
      if v in ('inf', '+inf', 'Infinity'):
        return INF
      if v in ('-inf',):
        return Inf(-1)
      try:
        return float(v)
      except ValueError:
        raise PyRaise(ExcVal('ValueError', ()))
    if is_z3(v):
      if z3.is_int(v):
        return z3.ToReal(v)
      if z3.is_real(v):
        return v
      h = ip.ext.get(('float', v.sort().name()))
      if h:
        return h(ip, v)
    if isinstance(v, Model) and hasattr(v, 'py___float__'):
      return v.py___float__(ip)
    if isinstance(v, I.PosReal) or isinstance(v, Inf):
      return v
    if v is None or isinstance(v, tuple):
      raise PyRaise(ExcVal('TypeError', ()))
    raise EngineError("float(%r)" % (v,))

  @reg('str')
  def _str(ip, args, kw):
    (v,) = args
    if isinstance(v, (str, int, float)) and not isinstance(v, bool):
      return str(v)
    h = ip.ext.get('str_of')
    if h:
      return h(ip, v)
    raise EngineError("str(%r)" % (v,))

  @reg('repr')
  def _repr(ip, args, kw):
    h = ip.ext.get('repr_of')
    if h:
      return h(ip, args[0])
    raise EngineError("repr()")

  @reg('list')
  def _list(ip, args, kw):
    if not args:
      return PyList([])
    (v,) = args
    if isinstance(v, PyList):
      return PyList(list(v.items))
    if isinstance(v, (tuple,)):
      return PyList(list(v))
    if isinstance(v, SymSeq):
      c = v.copy()
      ip.ctx.counter += 1
      c.birth = ip.ctx.counter
      return c
    if isinstance(v, PySetLit):
      return PyList(list(v.items))
    if isinstance(v, Model) and hasattr(v, 'as_symseq'):
      if v.shared:
        ip.yield_point(v)
      return v.as_symseq(ip)
    if isinstance(v, PyObj) and v.base is not None and hasattr(v.base, 'as_symseq'):
      if v.shared:
        ip.yield_point(v)
      return v.base.as_symseq(ip)
    raise EngineError("list(%r)" % (v,))

  @reg('tuple')
  def _tuple(ip, args, kw):
    if not args:
      return ()
    return tuple(ip.iter_concrete(args[0]))

  @reg('set')
  def _set(ip, args, kw):
    if not args:
      h = ip.ext.get('new_set')
      if h:
        return h(ip)
      return PySetLit([])
    h = ip.ext.get('set_of')
    if h:
      return h(ip, args[0])
    s = PySetLit([])
    for x in ip.iter_concrete(args[0]):
      s.py_add(ip, x)
    return s

  @reg('dict')
  def _dict(ip, args, kw):
    if not args:
      return I.DictLit(kw)
    h = ip.ext.get('dict_of')
    if h:
      return h(ip, args[0])
    raise EngineError("dict(%r)" % (args[0],))

  @reg('isinstance')
  def _isinstance(ip, args, kw):
    v, c = args
    if isinstance(c, tuple):
      return any(_isinstance(ip, [v, x], {}) for x in c)
    if isinstance(v, Model) and not isinstance(v, (PyList, SymSeq, SymMap, SymSet, PySetLit)) and \
        not hasattr(v, 'is_float') and ip.ext.get('isinstance'):
      return ip.ext['isinstance'](ip, v, c)
    if isinstance(c, Builtin):
      if c.name == 'str':
        if isinstance(v, str) or (is_z3(v) and v.sort() == Atom):
          return True
        if is_z3(v) and z3.is_string(v):
          return True
        h = ip.ext.get(('isinstance_str', v.sort().name())) if is_z3(v) else None
        if h:
          return h(ip, v)
        return False
      if c.name == 'float':
        if isinstance(v, float) or isinstance(v, Inf):
          return True
        if is_z3(v):
          if z3.is_real(v):
            return True
          if z3.is_int(v):
            return False
          h = ip.ext.get(('isinstance_float', v.sort().name()))
          if h:
            return h(ip, v)
        if isinstance(v, Model) and hasattr(v, 'is_float'):
          return v.is_float(ip)
        return False
      if c.name == 'int':
        return (isinstance(v, int)) or (is_z3(v) and z3.is_int(v))
      if c.name in ('list', 'tuple', 'dict', 'set'):
        return {'list': (PyList, SymSeq), 'tuple': (tuple,), 'dict': (SymMap, I.DictLit),
                'set': (SymSet, PySetLit)}[c.name].__contains__(type(v)) or \
            isinstance(v, {'list': (PyList, SymSeq), 'tuple': (tuple,), 'dict': (SymMap, I.DictLit),
                           'set': (SymSet, PySetLit)}[c.name])
    if isinstance(c, (RepoClass, ModelClass)) and isinstance(v, PyObj) and v.cls is not None:
      for k in ip.mro(v.cls):
        if isinstance(c, RepoClass) and k is c.info:
          return True
        if isinstance(c, ModelClass) and k is c:
          return True
      return False
    if isinstance(c, ExcClass) and isinstance(v, ExcVal):
      return ip.exc_matches(v, c)
    h = ip.ext.get('isinstance')
    if h:
      return h(ip, v, c)
    raise EngineError("isinstance(%r, %r)" % (v, c))

  @reg('hasattr')
  def _hasattr(ip, args, kw):
    o, name = args
    if isinstance(o, PyObj):
      if name in o.fields:
        return True
      if o.cls is not None and ip.find_method(o.cls, name) is not None:
        return True
      return False
    if isinstance(o, Model):
      if hasattr(o, 'attrs'):
        return name in o.attrs
      return hasattr(o, 'py_' + name)
    raise EngineError("hasattr(%r, %r)" % (o, name))

  @reg('getattr')
  def _getattr(ip, args, kw):
    h = ip.ext.get('getattr')
    if h:
      return h(ip, *args)
    if len(args) == 2:
      return ip.getattr(args[0], args[1])
    try:
      return ip.getattr(args[0], args[1])
    except PyRaise as e:
      if e.exc.cls_name == 'AttributeError':
        return args[2]
      raise

  @reg('setattr')
  def _setattr(ip, args, kw):
    o, name, v = args
    ip.setattr(o, name, v)

  @reg('range')
  def _range(ip, args, kw):
    if all(isinstance(a, int) for a in args):
      return tuple(range(*args))
    return SymRange(args)
  b['xrange'] = b['range']

  @reg('enumerate')
  def _enumerate(ip, args, kw):
    (v,) = args
    if isinstance(v, SymSeq):
      return EnumSeq(v)
    return tuple((i, x) for i, x in enumerate(ip.iter_concrete(v)))

  @reg('abs')
  def _abs(ip, args, kw):
    (v,) = args
    if is_z3(v):
      return z3.If(v >= 0, v, -v)
    return abs(v)

  @reg('min')
  def _min(ip, args, kw):
    return _minmax(ip, args, kw, True)

  @reg('max')
  def _max(ip, args, kw):
    return _minmax(ip, args, kw, False)

  def _minmax(ip, args, kw, is_min):
    if len(args) == 1:
      v = args[0]
      if isinstance(v, Model) and hasattr(v, 'py_minmax'):
        return v.py_minmax(ip, is_min, kw.get('key'))
      items = ip.iter_concrete(v)
      if not items:
        raise PyRaise(ExcVal('ValueError', ('min()/max() arg is an empty sequence',)))
    else:
      items = list(args)
    key = kw.get('key')
    best = items[0]
    bk = ip.call(key, [best]) if key else best
    import ast as _ast
    for x in items[1:]:
      xk = ip.call(key, [x]) if key else x
      c = ip.compare(_ast.Lt() if is_min else _ast.Gt(), xk, bk)
      if key is None and is_num(x) and is_num(best) and (is_z3(c)):
        a, bb = znum(x), znum(best)
        from .values import coerce_pair
        a, bb = coerce_pair(a, bb)
        best = z3.If(c, a, bb)
        bk = best
      else:
        if ip.ctx.branch(c, 'minmax'):
          best, bk = x, xk
    return best

  @reg('sum')
  def _sum(ip, args, kw):
    v = args[0]
    if isinstance(v, Model) and hasattr(v, 'py_sum'):
      return v.py_sum(ip)
    import ast as _ast
    tot = args[1] if len(args) > 1 else 0
    for x in ip.iter_concrete(v):
      tot = ip.binop(_ast.Add(), tot, x)
    return tot

  def _fold(ip, v, is_any):
    if isinstance(v, SymSeq):
      # any / all over a sequence of symbolic length (typically a generator expression over one,
      # evaluated as a pure map): a bounded quantifier over the index
      i = z3.Int('i?')
      n = v.length()
      mo = getattr(v, 'map_of', None)
      if mo is not None and mo[1].eq(i):
        elem = mo[2]
        n = mo[0].length()
      else:
        elem = v.ty.dec(v.term[i])
      mark = len(ip.ctx.pc)
      t = ip.truth(elem)
      if len(ip.ctx.pc) != mark:
        raise EngineError("any()/all(): element truth value is not pure")
      if isinstance(t, bool):
        t = z3.BoolVal(t)
      rng = z3.And(0 <= i, i < n)
      return z3.Exists([i], z3.And(rng, t)) if is_any else z3.ForAll([i], z3.Implies(rng, t))
    parts = []
    for x in ip.iter_concrete(v):
      t = ip.truth(x)
      if isinstance(t, bool):
        if t == is_any:
          return is_any
        continue
      parts.append(t)
    if not parts:
      return not is_any
    return z3.Or(*parts) if is_any else z3.And(*parts)

  @reg('any')
  def _any(ip, args, kw):
    # (element expressions are evaluated eagerly: they are assumed to be free of side effects)
    return _fold(ip, args[0], True)

  @reg('all')
  def _all(ip, args, kw):
    return _fold(ip, args[0], False)

  @reg('sorted')
  def _sorted(ip, args, kw):
    v = args[0]
    h = ip.ext.get('sorted')
    if h:
      r = h(ip, v, kw)
      if r is not NotImplemented:
        return r
    if isinstance(v, SymSeq):
      return sorted_symseq(ip, v, kw.get('key'), kw.get('reverse', False))
    if isinstance(v, Model) and hasattr(v, 'as_symseq') and not isinstance(v, PyList):
      return sorted_symseq(ip, v.as_symseq(ip), kw.get('key'), kw.get('reverse', False))
    items = ip.iter_concrete(v)
    if len(items) <= 1:
      return PyList(items)
    raise EngineError("sorted() of a concrete-length list with symbolic elements")

  @reg('next')
  def _next(ip, args, kw):
    v = args[0]
    if isinstance(v, Model) and hasattr(v, 'py___next__'):
      return v.py___next__(ip)
    raise EngineError("next(%r)" % (v,))

  @reg('iter')
  def _iter(ip, args, kw):
    v = args[0]
    if isinstance(v, Model) and hasattr(v, 'py___iter__'):
      return v.py___iter__(ip)
    if isinstance(v, PyObj) and v.base is not None and hasattr(v.base, 'py___iter__'):
      if v.shared:
        ip.yield_point(v)
      return v.base.py___iter__(ip)
    raise EngineError("iter(%r)" % (v,))

  @reg('__import__')
  def _import(ip, args, kw):
    h = ip.ext.get('__import__')
    if h:
      return h(ip, *args)
    raise EngineError("__import__ without harness binding")


class SymRange(Model):
  def __init__(self, args):
    if len(args) == 1:
      self.lo, self.hi = 0, args[0]
    elif len(args) == 2:
      self.lo, self.hi = args
    else:
      raise EngineError("range with step")

  def as_symseq(self, ip):
    lo, hi = znum(self.lo), znum(self.hi)
    s = SymSeq.fresh(ip, TInt, 'range')
    i = z3.Int('i?')
    n = z3.If(hi > lo, hi - lo, 0)
    ip.ctx.assume(s.length() == n)
    ip.ctx.assume(z3.ForAll([i], z3.Implies(z3.And(0 <= i, i < n), s.term[i] == lo + i)))
    return s


class EnumSeq(Model):
  def __init__(self, seq):
    self.seq = seq

  def as_symseq(self, ip):
    ty = TTuple(TInt, self.seq.ty)
    s = SymSeq.fresh(ip, ty, 'enum')
    i = z3.Int('i?')
    n = self.seq.length()
    ip.ctx.assume(s.length() == n)
    ip.ctx.assume(z3.ForAll([i], z3.Implies(z3.And(0 <= i, i < n),
                                            s.term[i] == ty.mk(i, self.seq.term[i]))))
    return s


def sorted_symseq(ip, seq, key, reverse):
  """sorted(): a permutation of the input ordered by key (A-LIB).  The permutation is given by a
  bijection pi between index ranges; facts that are invariant under permutation are carried
  over from the input."""
  ctx = ip.ctx
  out = SymSeq.fresh(ip, seq.ty, 'sorted')
  n = seq.length()
  ctx.assume(out.length() == n)
  pi = z3.Function(ctx.fresh_name('pi'), z3.IntSort(), z3.IntSort())
  inv = z3.Function(ctx.fresh_name('pinv'), z3.IntSort(), z3.IntSort())
  i = z3.Int('i?')
  j = z3.Int('j?')
  ctx.assume(z3.ForAll([i], z3.Implies(z3.And(0 <= i, i < n),
                                       z3.And(0 <= pi(i), pi(i) < n, inv(pi(i)) == i,
                                              out.term[i] == seq.term[pi(i)]))))
  ctx.assume(z3.ForAll([j], z3.Implies(z3.And(0 <= j, j < n),
                                       z3.And(0 <= inv(j), inv(j) < n, pi(inv(j)) == j))))

  def keyterm(t):
    v = seq.ty.dec(t)
    return ip.call(key, [v]) if key is not None else v
  ki = keyterm(out.term[i])
  kj = keyterm(out.term[j])
  if not (is_num(ki) and is_num(kj)):
    raise EngineError("sorted(): key is not numeric")
  import ast as _ast
  if reverse is True:
    ordc = ip.compare(_ast.GtE(), ki, kj)
  elif reverse is False:
    ordc = ip.compare(_ast.LtE(), ki, kj)
  else:
    raise EngineError("sorted(reverse=<symbolic>)")
  ctx.assume(z3.ForAll([i, j], z3.Implies(z3.And(0 <= i, i < j, j < n), ordc)))
  for f in seq.perm_facts:
    for fact in f(out.term):
      ctx.assume(fact)
  out.perm_facts = list(seq.perm_facts)
  out.sub_facts = list(getattr(seq, 'sub_facts', []))
  for f in out.sub_facts:
    for fact in f(out.term):
      ctx.assume(fact)
  out.sorted_of = (seq, pi, inv)
  return out


PURE_STR_PRED = ('startswith', 'endswith', 'isdigit', 'isalpha', 'isalnum', 'islower', 'isupper',
                 'isspace', 'isidentifier', 'isnumeric')
PURE_STR_FUN = ('strip', 'lstrip', 'rstrip', 'lower', 'upper', 'title', 'replace', 'casefold')


def value_getattr(ip, obj, name):
  """methods of scalar values (str, tuple, z3 terms) -- everything string-like is delegated to
  harness extension points so that each property states which string axioms it relies on."""
  ha = ip.ext.get(('attr', name))
  if ha is not None:
    r = ha(ip, obj)
    if r is not NotImplemented:
      return r
  h = ip.ext.get(('method', name))
  if h is not None:
    return Builtin(name, lambda ip2, args, kw, _o=obj: h(ip2, _o, *args, **kw))
  if isinstance(obj, str):
    if name in ('strip', 'lstrip', 'rstrip', 'split', 'replace', 'startswith', 'endswith', 'upper',
                'lower', 'join', 'encode', 'isdigit', 'format', 'find', 'rfind', 'partition',
                'title', 'splitlines'):
      def call(ip2, args, kw, _o=obj, _n=name):
        if all(isinstance(a, (str, int)) for a in args) and not kw:
          return wrap(getattr(_o, _n)(*args))
        if _n == 'join':
          items = ip2.iter_concrete(args[0])
          if all(isinstance(x, str) for x in items):
            return _o.join(items)
        if _n == 'format':
          hh = ip2.ext.get('str_format')
          if hh:
            return hh(ip2, ('format', _o), tuple(args) + tuple(sorted(kw.items())))
        raise EngineError("str.%s with symbolic arguments" % _n)
      return Builtin('str.' + name, call)
  if is_z3(obj) and obj.sort() == Atom and name in PURE_STR_PRED + PURE_STR_FUN:
    # pure str method on an opaque string: an uninterpreted function of (receiver, literal args).
    # Sound over-approximation; a refutation that depends on it cannot be concretised.
    def call(ip2, args, kw, _o=obj, _n=name):
      key = []
      zargs = [_o]
      for a_ in args:
        if isinstance(a_, str):
          a_ = ip2.atom(a_)
        if is_z3(a_):
          zargs.append(a_)
          key.append(str(a_.sort()))
        elif isinstance(a_, (int, bool)):
          zargs.append(z3.IntVal(int(a_)))
          key.append('Int')
        else:
          raise EngineError("str.%s with argument %r" % (_n, a_))
      rs = z3.BoolSort() if _n in PURE_STR_PRED else Atom
      f = z3.Function('str.%s/%s' % (_n, '_'.join(key)), *([x.sort() for x in zargs] + [rs]))
      return f(*zargs)
    return Builtin('str.' + name, call)
  from .interp import DictLit
  if isinstance(obj, DictLit):
    if name == 'items':
      return Builtin('dict.items', lambda ip2, a, k, _o=obj: PyList([(kk, vv) for kk, vv in _o.items.items()]))
    if name == 'keys':
      return Builtin('dict.keys', lambda ip2, a, k, _o=obj: PyList(list(_o.items.keys())))
    if name == 'values':
      return Builtin('dict.values', lambda ip2, a, k, _o=obj: PyList(list(_o.items.values())))
    if name == 'get':
      return Builtin('dict.get', lambda ip2, a, k, _o=obj: _o.items.get(a[0], a[1] if len(a) > 1 else None))
  if isinstance(obj, tuple) and name in ('index', 'count'):
    raise EngineError("tuple.%s" % name)
  if isinstance(obj, ExcVal):
    raise EngineError("exception attribute")
  raise EngineError("attribute %r of %r" % (name, obj))


def wrap(v):
  if isinstance(v, list):
    return PyList([wrap(x) for x in v])
  if isinstance(v, tuple):
    return tuple(wrap(x) for x in v)
  return v
