"""Value domain shared by the interpreter and the models.

Python-level values:
  None, bool, int, float, str, bytes, tuple          concrete Python objects (tuple elements may be symbolic)
  z3.ExprRef                                         symbolic scalar (Int, Real, Bool, Atom, or a harness sort)
  Model instances                                    z3-backed views of containers / externals
  PyObj                                              instance of a class defined in /repo
  RepoFunc / BoundMethod / Closure / Builtin         callables
  ExcClass / ExcVal                                  exceptions
"""
import fractions
import z3

from .core import EngineError, is_z3

Atom = z3.DeclareSort('Atom')      # opaque strings (metric names, ...)
Val = z3.DeclareSort('Val')        # opaque payload values


class Inf(object):
  """float('inf') / -inf as a first-class constant."""
  def __init__(self, sign=1):
    self.sign = sign

  def __repr__(self):
    return 'inf' if self.sign > 0 else '-inf'

  def __eq__(self, o):
    return isinstance(o, Inf) and o.sign == self.sign

  def __ne__(self, o):
    return not self.__eq__(o)

  def __hash__(self):
    return hash(('inf', self.sign))


INF = Inf(1)


def to_z3num(v):
  """concrete Python number -> z3 numeral"""
  if isinstance(v, bool):
    return z3.IntVal(1 if v else 0)
  if isinstance(v, int):
    return z3.IntVal(v)
  if isinstance(v, float):
    fr = fractions.Fraction(repr(v)) if v == v and abs(v) != float('inf') else None
    if fr is None:
      raise EngineError("non-finite float literal in arithmetic")
    return z3.RealVal(str(fr))
  if isinstance(v, fractions.Fraction):
    return z3.RealVal(str(v))
  raise EngineError("not a number: %r" % (v,))


def is_num(v):
  return (isinstance(v, (int, float, fractions.Fraction)) and not isinstance(v, bool)) or \
      (is_z3(v) and (z3.is_int(v) or z3.is_real(v)))


def znum(v):
  if is_z3(v):
    return v
  return to_z3num(v)


def coerce_pair(a, b):
  a = znum(a)
  b = znum(b)
  if z3.is_int(a) and z3.is_real(b):
    a = z3.ToReal(a)
  elif z3.is_real(a) and z3.is_int(b):
    b = z3.ToReal(b)
  return a, b


class Model(object):
  """Base class of every z3-backed model object.  Methods callable from carbon code are named
  ``py_<name>(self, ip, *args, **kw)``; attribute reads go through ``py_getattr``."""
  shared = False        # reachable from both threads (yield points before accesses)
  model_name = 'model'

  def py_getattr(self, ip, name):
    m = getattr(self, 'py_' + name, None)
    if m is not None:
      return ModelMethod(self, name, m)
    raise EngineError("model %s has no attribute %r" % (type(self).__name__, name))

  def py_setattr(self, ip, name, value):
    raise EngineError("model %s: cannot set attribute %r" % (type(self).__name__, name))


class ModelMethod(object):
  def __init__(self, model, name, fn):
    self.model = model
    self.name = name
    self.fn = fn

  def __repr__(self):
    return "<model method %s.%s>" % (type(self.model).__name__, self.name)


class Builtin(object):
  def __init__(self, name, fn):
    self.name = name
    self.fn = fn          # fn(ip, args, kwargs)

  def __repr__(self):
    return "<builtin %s>" % self.name


class RepoFunc(object):
  def __init__(self, info, closure=None):
    self.info = info
    self.closure = closure

  def __repr__(self):
    return "<repofunc %s>" % self.info.qualname


class RepoClass(object):
  def __init__(self, info):
    self.info = info

  def __repr__(self):
    return "<repoclass %s>" % self.info.name


class ModelClass(object):
  """A class from outside /repo (Twisted bases, defaultdict, ...) given by its model."""
  def __init__(self, name, methods=None, ctor=None, bases=()):
    self.name = name
    self.methods = methods or {}     # name -> fn(ip, self_obj, *args, **kw)
    self.ctor = ctor
    self.bases = bases

  def __repr__(self):
    return "<modelclass %s>" % self.name


class BoundMethod(object):
  def __init__(self, obj, func, cls=None):
    self.obj = obj
    self.func = func        # RepoFunc or python callable (model class method)
    self.cls = cls

  def __eq__(self, o):
    return isinstance(o, BoundMethod) and o.obj is self.obj and \
        getattr(o.func, 'info', o.func) is getattr(self.func, 'info', self.func)

  def __hash__(self):
    return hash((id(self.obj), id(getattr(self.func, 'info', self.func))))

  def __repr__(self):
    return "<bound %r of %r>" % (self.func, self.obj)


class Closure(object):
  def __init__(self, node, frame):
    self.node = node        # ast.Lambda
    self.frame = frame


class PyObj(object):
  def __init__(self, cls, fields=None, base=None, name=None):
    self.cls = cls          # ClassInfo (repo) or None
    self.fields = fields if fields is not None else {}
    self.base = base        # Model providing the behaviour of a built-in base class
    self.name = name or (cls.name if cls else 'obj')
    self.shared = False
    self.birth = 0

  def __repr__(self):
    return "<%s>" % self.name


class ExcClass(object):
  def __init__(self, name):
    self.name = name

  def __repr__(self):
    return "<exc class %s>" % self.name

  def __eq__(self, o):
    return isinstance(o, ExcClass) and o.name == self.name

  def __hash__(self):
    return hash(self.name)


class ExcVal(object):
  def __init__(self, cls_name, args=(), sym=None):
    self.cls_name = cls_name     # concrete class name, or None when sym is set
    self.args = args
    self.sym = sym               # SymExc: an arbitrary subclass of Exception

  def __repr__(self):
    return "<exc %s%r>" % (self.cls_name or self.sym, tuple(self.args)[:1])


class SymExc(object):
  """An arbitrary exception class below ``bound`` (membership in narrower classes is decided by a
  demonic choice, memoised so that one exception object answers consistently)."""
  def __init__(self, tag, bound='Exception'):
    self.tag = tag
    self.bound = bound
    self.memo = {}

  def __repr__(self):
    return "AnyExc(%s)" % self.tag


class PyRaise(Exception):
  """A Python-level exception travelling through the interpreted program."""
  def __init__(self, exc):
    Exception.__init__(self, repr(exc))
    self.exc = exc


EXC_PARENT = {
  'BaseException': None,
  'Exception': 'BaseException',
  'SystemExit': 'BaseException',
  'KeyboardInterrupt': 'BaseException',
  'GeneratorExit': 'BaseException',
  'StopIteration': 'Exception',
  'ArithmeticError': 'Exception',
  'OverflowError': 'ArithmeticError',
  'ZeroDivisionError': 'ArithmeticError',
  'AssertionError': 'Exception',
  'AttributeError': 'Exception',
  'EOFError': 'Exception',
  'ImportError': 'Exception',
  'ModuleNotFoundError': 'ImportError',
  'LookupError': 'Exception',
  'IndexError': 'LookupError',
  'KeyError': 'LookupError',
  'MemoryError': 'Exception',
  'NameError': 'Exception',
  'OSError': 'Exception',
  'IOError': 'Exception',        # alias of OSError; kept separate by name, see exc_isinstance
  'RuntimeError': 'Exception',
  'NotImplementedError': 'RuntimeError',
  'RecursionError': 'RuntimeError',
  'TypeError': 'Exception',
  'ValueError': 'Exception',
  'UnicodeError': 'ValueError',
  'UnicodeDecodeError': 'UnicodeError',
  'UnicodeEncodeError': 'UnicodeError',
  # library classes referenced by carbon
  'pickle.PickleError': 'Exception',
  'pickle.UnpicklingError': 'pickle.PickleError',
  're.error': 'Exception',
  'queue.Full': 'Exception',
  'queue.Empty': 'Exception',
  'CarbonConfigException': 'Exception',
  'AlreadyCalledError': 'Exception',
}
_ALIASES = {'IOError': 'OSError', 'EnvironmentError': 'OSError'}


def exc_is_subclass(name, of):
  name = _ALIASES.get(name, name)
  of = _ALIASES.get(of, of)
  while name is not None:
    if name == of:
      return True
    if name not in EXC_PARENT:
      raise EngineError("unknown exception class %r" % name)
    name = EXC_PARENT[name]
  return False
