"""Native search / replay for the relay send-queue contracts (C07, C09 relay side, C15) on the REAL
carbon.client classes with a task.Clock reactor and fake transports."""
import itertools
import json
import sys

from carbon import state, events, instrumentation
state.events = events
state.instrumentation = instrumentation
from carbon.conf import settings      # noqa: E402


def configure(mx, low_pct, hard_pct, flow, per_msg):
  settings.MAX_QUEUE_SIZE = mx
  settings.QUEUE_LOW_WATERMARK_PCT = low_pct
  settings.MAX_QUEUE_SIZE_HARD_PCT = hard_pct
  settings.USE_FLOW_CONTROL = flow
  settings.MAX_DATAPOINTS_PER_MESSAGE = per_msg
  settings.TIME_TO_DEFER_SENDING = 0.0001
  settings.USE_RATIO_RESET = False
  settings.DESTINATION_POOL_REPLICAS = False
  settings.DYNAMIC_ROUTER = True
  settings.DYNAMIC_ROUTER_MAX_RETRIES = 0
  for m in [k for k in sys.modules if k == 'carbon.client']:
    del sys.modules[m]
  import carbon.client as C
  from twisted.internet.task import Clock
  C.reactor = Clock()
  return C


class Router(object):
  def __init__(self):
    self.d = set()

  def hasDestination(self, d):
    return d in self.d

  def addDestination(self, d):
    self.d.add(d)

  def removeDestination(self, d):
    self.d.discard(d)

  def countDestinations(self):
    return len(self.d)


class Transport(object):
  def __init__(self):
    self.written = []

  def registerProducer(self, *a, **k):
    pass

  def unregisterProducer(self):
    pass

  def loseConnection(self):
    pass

  def write(self, data):
    self.written.append(data)

  def writeSequence(self, seq):
    self.written.extend(seq)

  def getHandle(self):
    raise AttributeError


def quiesce(C, n=50):
  for _ in range(n):
    C.reactor.advance(1)


def scenario(clause):
  key = clause.split('/')[-1]
  sig = {'full': 0, 'space': 0}
  events.cacheFull.handlers[:] = [lambda: sig.__setitem__('full', sig['full'] + 1)]
  events.cacheSpaceAvailable.handlers[:] = [lambda: sig.__setitem__('space', sig['space'] + 1)]
  for (mx, low, hard, flow, per) in [(10, 0.8, 1.25, True, 500), (4, 0.8, 1.3, True, 2), (10, 0.8, 1.25, False, 3), (100, 0.8, 1.25, True, 500)]:
    C = configure(mx, low, hard, flow, per)
    dest = ('127.0.0.1', 2004, 'a')
    router = Router()
    router.addDestination(dest)
    f = C.CarbonPickleClientFactory(dest, router)
    sig['full'] = sig['space'] = 0
    hard_max = C.SEND_QUEUE_HARD_MAX
    # fill while disconnected
    for i in range(int(mx * 2)):
      n0 = len(f.queue)
      drops0 = instrumentation.stats.get(f.fullQueueDrops, 0)
      f.sendDatapoint('m%d' % i, (i, float(i)))
      if key == 'bound' and len(f.queue) > hard_max and n0 <= hard_max:
        return {'native_confirms': True, 'what': 'bound: MAX_QUEUE_SIZE=%r hard limit %r: queue grew from %d to %d' % (mx, hard_max, n0, len(f.queue))}
      dropped = len(f.queue) == n0
      if key == 'drop_only_at_limit' and dropped and n0 + 1 <= hard_max:
        return {'native_confirms': True, 'what': 'dropped at size %d although hard limit is %r' % (n0, hard_max)}
      if key == 'drop_counted' and dropped != (instrumentation.stats.get(f.fullQueueDrops, 0) == drops0 + 1):
        return {'native_confirms': True, 'what': 'drop not counted at size %d' % n0}
    queued = list(f.queue)
    # connect and drain
    p = f.buildProtocol(None)
    p.transport = Transport()
    sent = []
    p._sendDatapointsNow = lambda dps: sent.append(list(dps))
    p.connectionMade()
    quiesce(C)
    flat = [x for b in sent for x in b]
    if key.startswith('written_is_the_queue') or key in ('prefix', 'rest', 'one_message'):
      if flat != queued or any(len(b) > per for b in sent):
        return {'native_confirms': True, 'what': 'sent %r but queue was %r (batch limit %d)' % (sent, queued, per)}
    if key == 'I_bp_relay' or key == 'rest_is_rescheduled':
      # quiescent: all timers fired; receivers must not stay paused with the queue below the low watermark
      paused = sig['full'] > sig['space']
      if paused and len(f.queue) < C.SEND_QUEUE_LOW_WATERMARK:
        return {'native_confirms': True,
                'what': 'quiescent with receivers paused: MAX_QUEUE_SIZE=%d low=%r batch=%d, queue went %d -> %d, full signals %d, space signals %d' % (
                  mx, C.SEND_QUEUE_LOW_WATERMARK, per, len(queued), len(f.queue), sig['full'], sig['space'])}
  return {'native_confirms': False}


def main():
  a = json.loads(sys.argv[1])
  out = scenario(a['clause'])
  out['input'] = a
  print('REPLAY-RESULT ' + json.dumps(out))


if __name__ == '__main__':
  main()
