"""Bounded cross-check of the TokenBucket contracts (C20) on the REAL carbon.util.TokenBucket with a
virtual clock: seeded random sequences of non-blocking and blocking acquisitions, peeks, clock
advances (zero, tiny, one token's worth, huge) and limit changes, for capacities 1..1000 and rates
1/60..1000 per second, plus every sequence up to a short length over a small alphabet.

Clauses:
  window        for every two grants i < j without a limit change in between:
                   (number of grants in [t_i, t_j])  <=  rate * (t_j - t_i) + 2 * capacity
  sleep_bound   a blocking acquisition sleeps at most (cost - available) / rate, and not at all when
                enough tokens are available
  new_burst     right after a limit change at most 2 x `new capacity` acquisitions succeed without time
                passing: the window bound under the new limits (the bucket's own token count is
                <= the new capacity -- the discharged clause -- and, exactly as without any change, a
                bucket that sat full keeps a stale timestamp that refills it once more)
  nonblocking_refuses_without_sleeping   a non-blocking acquisition never sleeps
"""
import argparse
import itertools
import json
import random

import carbon.util as U

EPS = 1e-6


class Sim(object):
  def __init__(self, cap, rate):
    self.now = 5000.0
    self.sleeps = []
    U.time = lambda: self.now
    U.sleep = self.sleep
    self.b = U.TokenBucket(cap, rate)
    self.grants = []          # (time, epoch)
    self.epoch = 0
    self.cap, self.rate = float(cap), float(rate)

  def sleep(self, d):
    self.sleeps.append(d)
    if d > 0:
      self.now += d

  def available(self):
    b = self.b
    return min(b.capacity, b._tokens + b.fill_rate * (self.now - b.timestamp)) if b._tokens < b.capacity else b._tokens

  def op(self, o):
    """returns None or (id, what)"""
    b = self.b
    if o[0] == 'adv':
      self.now += o[1]
      return None
    if o[0] == 'peek':
      n = len(self.sleeps)
      b.peek(1)
      if len(self.sleeps) != n:
        return ('nonblocking_refuses_without_sleeping', 'peek slept')
      return None
    if o[0] == 'drain':
      blocking = o[1]
      avail = self.available()
      n = len(self.sleeps)
      t0 = self.now
      r = b.drain(1, blocking=blocking)
      slept = self.sleeps[n:]
      if not blocking and slept:
        return ('nonblocking_refuses_without_sleeping', 'non-blocking drain slept %r' % (slept,))
      if blocking:
        if not r:
          return ('blocking_grants', 'blocking drain returned %r' % (r,))
        total = sum(d for d in slept if d > 0)
        allowed = max(0.0, (1 - avail) / self.rate)
        if total > allowed + EPS * max(1.0, allowed):
          return ('sleep_bound', 'blocking drain slept %r s; %r tokens were available, rate %r: the deficit needs %r s' % (total, avail, self.rate, allowed))
      if r:
        self.grants.append((self.now, self.epoch))
        return self.window_check()
      return None
    if o[0] == 'setcap':
      b.setCapacityAndFillRate(o[1], o[2])
      self.cap, self.rate = float(o[1]), float(o[2])
      self.epoch += 1
      # observable burst right after the change
      k = 0
      while k < 3000 and b.drain(1):
        self.grants.append((self.now, self.epoch))
        k += 1
      if k > 2 * self.cap + EPS:
        return ('new_burst', 'after changing the limits to capacity %r, %d acquisitions succeeded without time passing' % (self.cap, k))
      return None

  def window_check(self):
    (tj, ej) = self.grants[-1]
    j = len(self.grants) - 1
    i = j
    while i >= 0 and self.grants[i][1] == ej:
      ti = self.grants[i][0]
      count = j - i + 1
      bound = self.rate * (tj - ti) + 2 * self.cap
      if count > bound + EPS * max(1.0, bound):
        return ('window', '%d grants in the window [%r, %r] (length %r) with rate %r, capacity %r: bound %r' % (
          count, ti, tj, tj - ti, self.rate, self.cap, bound))
      i -= 1
    return None


def run(cap, rate, ops):
  s = Sim(cap, rate)
  for k, o in enumerate(ops):
    try:
      r = s.op(o)
    except Exception as e:
      return ('no_raise', 'TokenBucket raised %r on %r' % (e, o)), k
    if r:
      return r, k
  return None, len(ops)


def main():
  ap = argparse.ArgumentParser()
  ap.add_argument('--n', type=int, default=2000)
  ap.add_argument('--len', type=int, default=6)
  ap.add_argument('--seed', default='0')
  a = ap.parse_args()
  rnd = random.Random('c20|%s' % a.seed)
  evals = 0
  fails = {}

  def record(r, k, cap, rate, ops):
    if r and r[0] not in fails:
      fails[r[0]] = {'id': r[0], 'what': r[1], 'capacity': cap, 'rate': rate, 'ops': [list(o) for o in ops[:k + 1]][-25:]}
  # exhaustive short sequences
  for (cap, rate) in ((1, 1.0), (2, 0.5), (3, 1 / 60.0), (1, 1000.0)):
    alphabet = [('drain', False), ('drain', True), ('adv', 0.0), ('adv', 1.0 / rate), ('adv', 0.4 / rate), ('setcap', 2, 2.0), ('peek',)]
    for n in range(1, a.len + 1):
      for ops in itertools.product(alphabet, repeat=n):
        r, k = run(cap, rate, ops)
        evals += 1
        record(r, k, cap, rate, ops)
  # seeded random long sequences
  for _ in range(a.n):
    cap = rnd.choice([1, 2, 3, 10, 50, 500, 1000])
    rate = rnd.choice([1 / 60.0, 0.1, 0.5, 1.0, 7.0, 50.0, 1000.0])
    ops = []
    for _ in range(rnd.randint(5, 80)):
      x = rnd.random()
      if x < 0.4:
        ops.append(('drain', False))
      elif x < 0.6:
        ops.append(('drain', True))
      elif x < 0.9:
        ops.append(('adv', rnd.choice([0.0, 1e-9, 0.5 / rate, 1.0 / rate, 3.0 / rate, cap / rate, 1e6, 1e-3])))
      elif x < 0.95:
        ops.append(('peek',))
      else:
        nc = rnd.choice([1, 5, 50, 1000])
        ops.append(('setcap', nc, float(nc)))
    r, k = run(cap, rate, ops)
    evals += 1
    record(r, k, cap, rate, ops)
  print('BOUNDED-RESULT ' + json.dumps({'evaluations': evals, 'distinct_cases': evals, 'failures': list(fails.values())[:4],
                                        'random_sequences': a.n, 'exhaustive_len': a.len}))


if __name__ == '__main__':
  import os as _os
  sys_path_dir = _os.path.dirname(_os.path.abspath(__file__))
  import sys as _sys
  _sys.path.insert(0, sys_path_dir)
  from _guard import run_guarded
  run_guarded(main, _os.path.basename(__file__))
