"""Native witnesses of the two recorded C09 findings (run on every check; a finding is reported as
KNOWN-FINDING only while its witness still fails on the real code).

D8  a dynamic router drops a destination whose send queue has signalled 'full': the queue is
    cleared (re-injected) but nobody signals space, so receivers stay paused with every queue empty.
D7  (cache daemon) the writer thread fires resumeReceivingMetrics between MetricReceiver.
    connectionMade's paused-check and its addHandler(): the new connection stays paused and is not
    resumed with the rest.  The schedule is forced with a line hook (sys.settrace)."""
import json
import sys

from carbon import state, events, instrumentation
state.events = events
state.instrumentation = instrumentation
from carbon.conf import settings      # noqa: E402


def d8():
  settings.MAX_QUEUE_SIZE = 4
  settings.QUEUE_LOW_WATERMARK_PCT = 0.8
  settings.MAX_QUEUE_SIZE_HARD_PCT = 1.25
  settings.USE_FLOW_CONTROL = True
  settings.MAX_DATAPOINTS_PER_MESSAGE = 2
  settings.DYNAMIC_ROUTER = True
  settings.DYNAMIC_ROUTER_MAX_RETRIES = 0
  settings.DESTINATION_POOL_REPLICAS = False
  import carbon.client as C
  from twisted.internet.task import Clock
  C.reactor = Clock()
  sig = {'full': 0, 'space': 0}
  events.cacheFull.handlers[:] = [lambda: sig.__setitem__('full', sig['full'] + 1)]
  events.cacheSpaceAvailable.handlers[:] = [lambda: sig.__setitem__('space', sig['space'] + 1)]
  events.metricGenerated.handlers[:] = []

  class Router(object):
    d = set()

    def hasDestination(self, x):
      return x in self.d

    def addDestination(self, x):
      self.d.add(x)

    def removeDestination(self, x):
      self.d.discard(x)

    def countDestinations(self):
      return len(self.d)
  dest = ('127.0.0.1', 2004, 'a')
  r = Router()
  r.addDestination(dest)
  f = C.CarbonPickleClientFactory(dest, r)
  for i in range(5):
    f.sendDatapoint('m%d' % i, (i, 1.0))
  before = (len(f.queue), sig['full'], sig['space'])
  f.retries = 1
  f.destinationDown(dest)
  for _ in range(20):
    C.reactor.advance(1)
  fails = sig['full'] > sig['space'] and len(f.queue) < C.SEND_QUEUE_LOW_WATERMARK
  return {'still_fails': bool(fails), 'before': before, 'queue_after': len(f.queue), 'full_signals': sig['full'],
          'space_signals': sig['space'], 'low_watermark': C.SEND_QUEUE_LOW_WATERMARK}


def d7():
  import carbon.protocols as P
  settings.USE_FLOW_CONTROL = True
  settings.METRIC_CLIENT_IDLE_TIMEOUT = None
  settings.TCP_KEEPALIVE = False
  settings.LOG_LISTENER_CONN_SUCCESS = False
  settings.MAX_RECEIVER_CONNECTIONS = float('inf')
  state.connectedMetricReceiverProtocols.clear()
  state.listeningPorts[:] = []

  class Transport(object):
    paused = False

    def pauseProducing(self):
      self.paused = True

    def resumeProducing(self):
      self.paused = False
  # receivers are paused (cache was full); an earlier connection is registered
  events.pauseReceivingMetrics()
  new = P.MetricLineReceiver()
  new.transport = Transport()
  new.setTimeout = lambda t: None
  code = P.MetricReceiver.connectionMade.__code__
  fired = []

  def tracer(frame, event, arg):
    if frame.f_code is not code:
      return None

    def local(frame, event, arg):
      if event == 'line' and not fired:
        import linecache
        src = linecache.getline(frame.f_code.co_filename, frame.f_lineno)
        if 'connectedMetricReceiverProtocols.add' in src:
          # the writer thread drains the cache here: cacheSpaceAvailable -> resumeReceivingMetrics
          fired.append(frame.f_lineno)
          events.resumeReceivingMetrics()
      return local
    return local
  sys.settrace(tracer)
  try:
    new.connectionMade()
  finally:
    sys.settrace(None)
  fails = bool(fired) and new.transport.paused and not state.metricReceiversPaused
  return {'still_fails': bool(fails), 'resume_fired_at_line': fired, 'new_connection_paused': new.transport.paused,
          'metricReceiversPaused': state.metricReceiversPaused}


def main():
  which = sys.argv[1]
  out = d8() if which == 'D8' else d7()
  print('WITNESS-RESULT ' + json.dumps(out))


if __name__ == '__main__':
  main()
