"""Native replay for C12: run the real MetricReceiver.metricReceived on the counter-model's
timestamp / value / resolution and evaluate the admission clauses."""
import json
import math
import sys
from fractions import Fraction

from carbon import state, events, instrumentation
state.events = events
state.instrumentation = instrumentation
from carbon.conf import settings      # noqa: E402
import carbon.protocols as P            # noqa: E402


class FakeTime(object):
  def __init__(self, now):
    self.now = now
    self.reads = 0

  def time(self):
    self.reads += 1
    return self.now


def run(ts, val, res, now=1700000000.25):
  got = []
  h = lambda m, dp: got.append((m, dp))
  events.metricReceived.handlers[:] = [h]
  ft = FakeTime(now)
  P.time = ft
  settings.MIN_TIMESTAMP_RESOLUTION = res
  r = P.MetricLineReceiver()
  r.resetTimeout = lambda: None
  r.metricReceived('a.b', (ts, val))
  return got, ft.reads


def main():
  v = json.loads(sys.argv[1])
  ts = float(Fraction(v.get('ts', '0')))
  kind = str(v.get('val.kind', '0'))
  val = {'0': float(Fraction(v.get('val', '0'))), '1': float('nan'), '2': float('inf'), '3': float('-inf')}.get(kind, 0.0)
  res = int(Fraction(v.get('MIN_TIMESTAMP_RESOLUTION', '0')))
  now = 1700000000.25
  out = {'input': {'ts': ts, 'val': repr(val), 'res': res}}
  try:
    got, reads = run(ts, val, res, now)
  except Exception as e:
    out.update({'raised': repr(e), 'native_confirms': 'no_raise' in v.get('obligation', '')})
    print('REPLAY-RESULT ' + json.dumps(out))
    return
  failed = []
  if val != val:
    if got:
      failed.append('filtered_iff')
  else:
    if len(got) != 1:
      failed.append('filtered_iff')
    else:
      m, (ots, oval) = got[0]
      tsp = now if ts == -1 else ts
      if (reads == 1) != (ts == -1):
        failed.append('ts_minus_one')
      if m != 'a.b' or not (oval == val):
        failed.append('identity')
      if res == 0 and ots != tsp:
        failed.append('no_resolution_keeps_ts')
      if res > 0 and (reads == 1) == (ts == -1):
        if not (ots <= tsp < ots + res and ots % res == 0):
          failed.append('resolution')
      out['observed'] = [m, [ots, repr(oval)]]
  out['time_reads'] = reads
  out['failed_clauses'] = failed
  out['native_confirms'] = v.get('obligation', '').split('/')[-1] in failed
  print('REPLAY-RESULT ' + json.dumps(out))


if __name__ == '__main__':
  main()
