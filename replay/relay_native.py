"""Bounded cross-check of the relay send-queue contracts (C07, C09 relay side) on the REAL
carbon.client factories / protocols with a task.Clock reactor and fake transports.

Every sequence of events over
   s  datapoint arrives (sendDatapoint)          h  self-metric arrives (sendHighPriorityDatapoint)
   c  connection made                            l  connection lost        f  connect failed
   p  transport paused                           r  transport resumed      t  one timer round
   x  orderly stop requested (disconnect(); at most once, further events follow)
(optionally ending in an orderly stop) up to a length bound is run, for a grid of queue sizes, batch
sizes, flow control on/off, dynamic router on/off and both client protocols.  After every event a
reference deque is compared with the real queue; at the end all timers are fired and the
quiescence clauses are evaluated.

Clauses (ids):
  order_exactly_once        the real queue always equals the reference deque (arrivals appended,
                            self-metrics prepended, written batches and re-routed datapoints removed);
                            each written batch is the head of the queue, non-empty and within
                            MAX_DATAPOINTS_PER_MESSAGE
  drop_only_at_limit        a refused datapoint found the queue with size + 1 > hard limit
  drop_counted              each refusal adds exactly one to fullQueueDrops, acceptance adds none
  bound                     an accepted arrival leaves the queue within the hard limit
  rerouted_not_lost         a connection loss / failure leaves the queue unchanged, or empties it
                            after handing every queued datapoint to metricGenerated, in order
  delivered_at_quiescence   connected, not paused, all timers fired  =>  queue empty
  stop_after_drain          after an orderly stop the connection is closed only with an empty queue
  relay-paused-at-quiescence (C09) all timers fired, at least one destination in the router, receivers
                            paused (cacheFull / pauseReceivingMetrics not followed by cacheSpaceAvailable /
                            resumeReceivingMetrics) although the queue is below the low watermark
                            (id D8 when a dynamic router dropped the destination while it was full and it
                            has not come back; configurations with a second destination in the router)
"""
import argparse
import itertools
import json
import multiprocessing
import random
import sys

from carbon import state, events, instrumentation
state.events = events
state.instrumentation = instrumentation
from carbon.conf import settings      # noqa: E402


def configure(cfg):
  settings.MAX_QUEUE_SIZE = cfg['mx']
  settings.QUEUE_LOW_WATERMARK_PCT = cfg['low']
  settings.MAX_QUEUE_SIZE_HARD_PCT = cfg['hard']
  settings.USE_FLOW_CONTROL = cfg['flow']
  settings.MAX_DATAPOINTS_PER_MESSAGE = cfg['per']
  settings.TIME_TO_DEFER_SENDING = 0.0001
  settings.USE_RATIO_RESET = False
  settings.DESTINATION_POOL_REPLICAS = False
  settings.DYNAMIC_ROUTER = cfg['dyn']
  settings.DYNAMIC_ROUTER_MAX_RETRIES = cfg['retries']
  settings.TCP_KEEPALIVE = False
  if cfg.get('ratio'):
    # connection-quality resets: the monitor always finds the connection too slow and no minimum
    # interval protects it, so every send first resets (closes) the connection
    settings.USE_RATIO_RESET = True
    settings.MIN_RESET_STAT_FLOW = 1
    settings.MIN_RESET_RATIO = 0.9
    settings.MIN_RESET_INTERVAL = cfg['ratio_interval']
    instrumentation.prior_stats.clear()
    instrumentation.prior_stats['metricsReceived'] = 1000
  for m in [k for k in sys.modules if k == 'carbon.client']:
    del sys.modules[m]
  import carbon.client as C
  from twisted.internet.task import Clock
  C.reactor = Clock()
  return C


class Router(object):
  def __init__(self):
    self.d = set()

  def hasDestination(self, d):
    return d in self.d

  def addDestination(self, d):
    self.d.add(d)

  def removeDestination(self, d):
    self.d.discard(d)

  def countDestinations(self):
    return len(self.d)


class Transport(object):
  def __init__(self, factory, closes):
    self.written = []
    self.factory = factory
    self.closes = closes

  def registerProducer(self, *a, **k):
    pass

  def unregisterProducer(self):
    pass

  def loseConnection(self):
    # (queued datapoints, stop requested?, accepted datapoints not yet written -- counts a batch that was
    # taken from the queue but has not reached the transport yet)
    self.closes.append((len(self.factory.queue), bool(getattr(self.factory, '_stop_requested', False)),
                        len(getattr(self.factory, '_unwritten', ()))))

  def write(self, data):
    self.written.append(data)

  def writeSequence(self, seq):
    self.written.extend(seq)


class Connector(object):
  host, port = '127.0.0.1', 2004

  def connect(self):
    pass

  def stopConnecting(self):
    pass

  def getDestination(self):
    return None


class Reason(object):
  def getErrorMessage(self):
    return 'lost'

  value = None


class Fail(Exception):
  def __init__(self, fid, what):
    Exception.__init__(self, what)
    self.fid, self.what = fid, what


def run_sequence(C, cfg, seq, stop):
  """returns None or (failure id, description)"""
  from collections import deque
  from twisted.internet.task import Clock
  C.reactor = Clock()
  instrumentation.stats.clear()
  sig = {'full': False, 'd8': False, 'paused': False}
  reinj = []
  # the relay service wires cacheFull -> pauseReceivingMetrics and cacheSpaceAvailable ->
  # resumeReceivingMetrics; 'paused' is what the listeners see
  events.cacheFull.handlers[:] = [lambda: sig.update(full=True, paused=True)]
  events.cacheSpaceAvailable.handlers[:] = [lambda: sig.update(full=False, paused=False)]
  events.metricGenerated.handlers[:] = [lambda m, dp: reinj.append((m, dp))]
  events.pauseReceivingMetrics.handlers[:] = [lambda: sig.update(paused=True)]
  events.resumeReceivingMetrics.handlers[:] = [lambda: sig.update(paused=False)]
  dest = ('127.0.0.1', 2004, 'a')
  router = Router()
  router.addDestination(dest)
  for i in range(cfg.get('others', 0)):
    # further destinations of the relay (healthy, with empty queues: they never pause anything)
    router.addDestination(('127.0.0.%d' % (i + 2), 2004, 'b'))
  f = (C.CarbonPickleClientFactory if cfg['proto'] == 'pickle' else C.CarbonLineClientFactory)(dest, router)
  f.clock = C.reactor
  f.started = True
  hard = C.SEND_QUEUE_HARD_MAX
  low = C.SEND_QUEUE_LOW_WATERMARK
  ref = deque()
  f._unwritten = ref
  closes = []
  st = {'p': None, 'n': 0}
  connector = Connector()

  def wrap(p):
    real = p._sendDatapointsNow

    def sending(dps):
      dps = list(dps)
      if not dps or len(dps) > cfg['per']:
        raise Fail('order_exactly_once', 'a batch of %d datapoints was written (MAX_DATAPOINTS_PER_MESSAGE=%d)' % (len(dps), cfg['per']))
      head = [ref[i] for i in range(min(len(dps), len(ref)))]
      if head != dps:
        raise Fail('order_exactly_once', 'batch %r written, but the head of the queue in arrival order was %r' % (dps, head))
      for _ in dps:
        ref.popleft()
      real(dps)
    p._sendDatapointsNow = sending

  def step(ev):
    p = st['p']
    connected = p is not None and p.connected and f.connectedProtocol is p
    if ev in ('s', 'h'):
      st['n'] += 1
      item = ('m%d' % st['n'], (st['n'], float(st['n'])))
      n0 = len(f.queue)
      drops0 = instrumentation.stats.get(f.fullQueueDrops, 0)
      if ev == 'h':
        f.sendHighPriorityDatapoint(*item)
        ref.appendleft(item)
      else:
        f.sendDatapoint(*item)
        drops = instrumentation.stats.get(f.fullQueueDrops, 0) - drops0
        if len(f.queue) == n0 + 1:
          ref.append(item)
          if n0 + 1 > hard:
            raise Fail('bound', 'an arrival was accepted at queue size %d: the queue holds %d, hard limit %r' % (n0, n0 + 1, hard))
          if drops != 0:
            raise Fail('drop_counted', 'an accepted arrival was counted as a drop')
        else:
          if not (n0 + 1 > hard):
            raise Fail('drop_only_at_limit', 'an arrival was discarded at queue size %d although the hard limit is %r' % (n0, hard))
          if drops != 1:
            raise Fail('drop_counted', 'a discarded arrival added %d to fullQueueDrops' % drops)
    elif ev == 'c':
      if connected:
        return False
      p = f.buildProtocol(None)
      p.transport = Transport(f, closes)
      wrap(p)
      st['p'] = p
      p.connectionMade()
    elif ev in ('l', 'f'):
      closing = p is not None and f.connectedProtocol is p
      if (ev == 'l' and not closing) or (ev == 'f' and connected):
        return False
      before = list(f.queue)
      was_full = f.queueFull.called
      del reinj[:]
      if ev == 'l':
        if p.connected:
          p.connectionLost(Reason())
        else:
          p.connected = False
        f.clientConnectionLost(connector, Reason())
      else:
        f.clientConnectionFailed(connector, Reason())
      after = list(f.queue)
      if after == before and not reinj:
        pass
      elif not after and reinj == before:
        ref.clear()
        if was_full:
          sig['d8'] = True
      else:
        raise Fail('rerouted_not_lost', 'destination down with queue %r: queue afterwards %r, handed to metricGenerated %r' % (before, after, list(reinj)))
    elif ev in ('p', 'r'):
      if not connected or (ev == 'p') == bool(p.paused):
        return False
      if ev == 'p':
        p.pauseProducing()
      else:
        p.resumeProducing()
    elif ev == 't':
      C.reactor.advance(0.001)
    elif ev == 'x':
      if getattr(f, '_stop_requested', False):
        return False
      f._stop_requested = True
      f.disconnect()
    if list(f.queue) != list(ref):
      raise Fail('order_exactly_once', 'after event %r the queue is %r; accepted and not yet written / re-routed, in order: %r' % (ev, list(f.queue), list(ref)))
    return True

  try:
    for ev in seq:
      if not step(ev):
        return 'skip'
    if stop:
      if getattr(f, '_stop_requested', False):
        return 'skip'
      f._stop_requested = True
      f.disconnect()
    for _ in range(60):
      C.reactor.advance(1.0)
    if list(f.queue) != list(ref):
      raise Fail('order_exactly_once', 'at quiescence the queue is %r; accepted and not yet written / re-routed: %r' % (list(f.queue), list(ref)))
    p = st['p']
    connected = p is not None and p.connected and f.connectedProtocol is p
    if not cfg.get('ratio') and any(n != 0 or u != 0 for (n, after_stop, u) in closes if after_stop):     # (a quality reset also closes the connection)
      raise Fail('stop_after_drain', 'after the orderly stop was requested a connection was closed with datapoints still queued / taken but not yet written: %r' % (
        [(n, u) for (n, a, u) in closes if a and (n or u)],))
    if connected and not p.paused and len(f.queue) > 0:
      raise Fail('delivered_at_quiescence', 'connected, not paused, all timers fired, but %d datapoints stay queued' % len(f.queue))
    if sig['paused'] and router.countDestinations() > 0 and len(f.queue) < low:
      # D8 (known): the destination was dropped while full and has not come back
      d8 = sig['d8'] and not router.hasDestination(dest)
      raise Fail('D8' if d8 else 'relay-paused-at-quiescence',
                 'all timers fired, %d destination(s) in the router%s, receivers still paused (no resume / space signal since the last pause) although this queue holds %d < low watermark %r' % (
                   router.countDestinations(), ' including this one' if router.hasDestination(dest) else '', len(f.queue), low))
  except Fail as e:
    return (e.fid, e.what)
  except Exception as e:        # the real code raised
    return ('no_raise', 'the relay code raised %r' % (e,))
  return None


def grid(thorough):
  out = []
  for proto in ('pickle', 'line'):
    for (mx, low, hardpct) in ([(1, 0.5, 1.5), (2, 0.5, 1.5)] + ([(3, 0.8, 1.25)] if thorough else [])):
      for flow in (True, False):
        for per in (1, 2, 500):
          for dyn, retries in ((True, 0), (False, 0)) + (((True, 1),) if thorough else ()):
            if proto == 'line' and (per == 2 or not flow):
              continue
            out.append({'proto': proto, 'mx': mx, 'low': low, 'hard': hardpct, 'flow': flow, 'per': per, 'dyn': dyn, 'retries': retries})
            if dyn and flow and per != 2:
              # the same with a second destination in the router
              out.append(dict(out[-1], others=1))
            if flow and dyn and retries == 0 and per in (2, 500) and mx >= 2:
              for interval in ((0, 1000000) if thorough else (0,)):
                out.append({'proto': proto, 'mx': mx, 'low': low, 'hard': hardpct, 'flow': flow, 'per': per, 'dyn': dyn, 'retries': retries,
                            'ratio': True, 'ratio_interval': interval})
  return out


def work(job):
  cfg, maxlen, nrandom, seed, only = job
  C = configure(cfg)
  evals = 0
  fails = {}
  alphabet = 'shclfprtx'      # x: orderly stop requested (at most once; events go on afterwards)

  def record(seq, stop, r):
    if r and r != 'skip' and (only is None or r[0] in only) and r[0] not in fails:
      fails[r[0]] = {'id': r[0], 'config': cfg, 'events': ''.join(seq) + ('+stop' if stop else ''), 'what': r[1]}
  for n in range(1, maxlen + 1):
    for seq in itertools.product(alphabet, repeat=n):
      for stop in (False, True):
        r = run_sequence(C, cfg, seq, stop)
        if r == 'skip':
          break
        evals += 1
        record(seq, stop, r)
  rnd = random.Random('%s|%s' % (seed, sorted(cfg.items())))
  for _ in range(nrandom):
    seq = [rnd.choice('sssshclfprttx') for _ in range(rnd.randint(maxlen + 1, 30))]
    # drop the events that are not enabled instead of skipping the whole sequence
    r = None
    kept = []
    for ev in seq:
      if run_sequence(C, cfg, kept + [ev], False) != 'skip':
        kept.append(ev)
      if len(kept) >= 14:
        break
    for stop in (False, True):
      r = run_sequence(C, cfg, kept, stop)
      evals += 1
      record(kept, stop, r)
  return evals, list(fails.values())


def sweep(maxlen, nrandom, seed, thorough, only=None):
  jobs = [(cfg, maxlen, nrandom, seed, only) for cfg in grid(thorough)]
  with multiprocessing.Pool(16) as pool:
    res = pool.map(work, jobs, chunksize=1)
  evals = sum(r[0] for r in res)
  fails = {}
  for r in res:
    for fl in r[1]:
      fails.setdefault(fl['id'], fl)
  return evals, list(fails.values()), len(jobs)


def main():
  if len(sys.argv) > 1 and sys.argv[1].startswith('{'):
    a = json.loads(sys.argv[1])
    key = a['clause'].split('/')[-1].split('[')[0]
    want = CLAUSE_TO_IDS.get(key)
    if want is None:
      print('REPLAY-RESULT ' + json.dumps({'native_confirms': False, 'note': 'no native oracle for clause %r' % key, 'input': a}))
      return
    evals, fails, _ = sweep(a.get('len', 5), 40, 0, False, only=set(want))
    out = {'native_confirms': bool(fails), 'sequences_tried': evals, 'input': a}
    if fails:
      out.update({'what': fails[0]['what'], 'events': fails[0]['events'], 'config': fails[0]['config'], 'failure_id': fails[0]['id']})
    print('REPLAY-RESULT ' + json.dumps(out))
    return
  ap = argparse.ArgumentParser()
  ap.add_argument('--len', type=int, default=5)
  ap.add_argument('--random', type=int, default=50)
  ap.add_argument('--thorough', action='store_true')
  ap.add_argument('--only', default='')
  ap.add_argument('--seed', default='0')
  a = ap.parse_args()
  only = set(x for x in a.only.split(',') if x) or None
  evals, fails, njobs = sweep(a.len, a.random, a.seed, a.thorough, only)
  print('BOUNDED-RESULT ' + json.dumps({'evaluations': evals, 'distinct_cases': evals, 'failures': fails[:6], 'max_len': a.len,
                                        'configurations': njobs, 'random_sequences_per_configuration': a.random}))


# symbolic clause (last label component) -> native failure ids that witness it
CLAUSE_TO_IDS = {
  'bound': ['bound'], 'accepted_only_with_room': ['bound'], 'drop_only_at_limit': ['drop_only_at_limit'], 'drop_counted': ['drop_counted'],
  'appended_or_untouched': ['order_exactly_once'], 'appends': ['order_exactly_once'], 'prepends': ['order_exactly_once'],
  'jumps_the_queue_without_disturbing_it': ['order_exactly_once'], 'never_dropped': ['order_exactly_once'],
  'queue_kept_otherwise': ['rerouted_not_lost'], 'queue_emptied_after_reinjection': ['rerouted_not_lost', 'order_exactly_once'],
  'reinjects_each_item_once': ['rerouted_not_lost'], 'reinjects_in_order': ['rerouted_not_lost'],
  'queue_untouched_while_reinjecting': ['rerouted_not_lost'],
  'prefix': ['order_exactly_once'], 'rest': ['order_exactly_once'], 'one_message': ['order_exactly_once'],
  'taken_is_prefix': ['order_exactly_once'], 'rest_is_suffix': ['order_exactly_once'],
  'written_is_the_queue_prefix': ['order_exactly_once'], 'written_is_the_queue_rest': ['order_exactly_once'],
  'queue_untouched_when_idle': ['order_exactly_once'], 'queue_untouched': ['order_exactly_once'],
  'nothing_written_only_if_paused_or_empty': ['delivered_at_quiescence'],
  'rest_is_rescheduled': ['delivered_at_quiescence', 'relay-paused-at-quiescence'],
  'timer_runs_sendQueued': ['delivered_at_quiescence'], 'a_send_is_pending_afterwards': ['delivered_at_quiescence'],
  'send_scheduled_when_connected': ['delivered_at_quiescence'],
  'queueEmpty_fires_iff_empty': ['stop_after_drain'],
  'no_raise': ['no_raise'], 'no_AlreadyCalledError': ['no_raise'],
  'I_bp_relay': ['relay-paused-at-quiescence'], 'signals_space_iff_full_was_signalled': ['relay-paused-at-quiescence'],
  'rearm': ['relay-paused-at-quiescence'],
  'first_destination_back_resumes_receivers': ['relay-paused-at-quiescence'],
  'rejoining_destination_releases_its_full_signal': ['relay-paused-at-quiescence'],
}


if __name__ == '__main__':
  import os as _os
  sys_path_dir = _os.path.dirname(_os.path.abspath(__file__))
  import sys as _sys
  _sys.path.insert(0, sys_path_dir)
  from _guard import run_guarded
  run_guarded(main, _os.path.basename(__file__))
