"""Bounded stand-in for 'BucketMaxStrategy.store / choose_item preserve I_bucket' on the REAL
cache: exhaustive store/drain histories over a small alphabet."""
import argparse
import itertools
import json

from carbon import state, events, instrumentation
state.events = events
state.instrumentation = instrumentation
from carbon.conf import settings      # noqa: E402
settings.MAX_CACHE_SIZE = float('inf')
settings.CACHE_SIZE_HARD_MAX = float('inf')
settings.CACHE_SIZE_LOW_WATERMARK = float('inf')
import carbon.cache as C               # noqa: E402


def consistent(c):
  b = c.strategy.buckets
  seen = {}
  for i, bk in enumerate(b):
    for m in bk:
      if m in seen or m not in c or len(c[m]) != i + 1:
        return False
      seen[m] = i
  for m in dict.keys(c):
    if len(c[m]) >= 1 and m not in seen:
      return False
  return True


def main():
  ap = argparse.ArgumentParser()
  ap.add_argument('--len', type=int, default=6)
  ap.add_argument('--seed', default='0')
  a = ap.parse_args()
  ops = [('s', m, t) for m in 'abc' for t in (1, 2, 3)] + [('d',)]
  evals = 0
  distinct = 0
  failures = []
  for n in range(1, a.len + 1):
    # histories of length n; prune symmetric prefixes by requiring first op to touch 'a' or drain
    for seq in itertools.product(ops, repeat=n):
      if seq[0][0] == 's' and seq[0][1] != 'a':
        continue
      distinct += 1
      c = C._MetricCache(C.BucketMaxStrategy)
      v = 0
      for op in seq:
        evals += 1
        try:
          if op[0] == 's':
            v += 1
            c.store(op[1], (op[2], float(v)))
          else:
            before = {k: len(x) for k, x in dict.items(c)}
            (m, dps) = c.drain_metric()
            if m is None:
              if before:
                failures.append({'id': 'bucketmax-none-with-data', 'history': seq})
            elif len(dps) == 0 or len(dps) != max(before.values()):
              failures.append({'id': 'bucketmax-not-max', 'history': seq, 'drained': (m, len(dps)), 'counts': before})
        except Exception as e:
          failures.append({'id': 'bucketmax-raises', 'history': seq, 'error': repr(e)})
          break
        if not consistent(c):
          failures.append({'id': 'bucketmax-buckets-inconsistent', 'history': seq, 'buckets': repr(c.strategy.buckets),
                           'cache': repr({k: dict(x) for k, x in dict.items(c)})})
          break
      if len(failures) >= 3:
        break
    if len(failures) >= 3:
      break
  print('BOUNDED-RESULT ' + json.dumps({'evaluations': evals, 'distinct_cases': distinct, 'failures': failures[:3],
                                        'exhaustive': True, 'max_len': a.len}, default=str))


if __name__ == '__main__':
  import os as _os
  sys_path_dir = _os.path.dirname(_os.path.abspath(__file__))
  import sys as _sys
  _sys.path.insert(0, sys_path_dir)
  from _guard import run_guarded
  run_guarded(main, _os.path.basename(__file__))
