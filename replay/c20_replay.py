"""Native replay of a C20 counter-model: run the real TokenBucket method with a scripted clock
and evaluate the contract clause on the observed result (floats, tolerance 1e-9)."""
import json
import sys
from fractions import Fraction

import carbon.util as U


def main():
  v = json.loads(sys.argv[1])
  f = lambda k, d=0.0: float(Fraction(v[k])) if k in v and v[k] not in (None, 'None') else d
  nows = [float(Fraction(x)) for x in v.get('nows', []) if x not in (None, 'None')]
  if not nows:
    nows = [0.0]
  clock = {'i': 0, 'now': nows[0], 'sleeps': []}

  def fake_time():
    clock['i'] += 1
    if clock['i'] < len(nows):
      clock['now'] = max(clock['now'], nows[clock['i']])
    return clock['now']

  def fake_sleep(d):
    clock['sleeps'].append(d)
    clock['i'] += 1
    nxt = nows[clock['i']] if clock['i'] < len(nows) else clock['now'] + d
    clock['now'] = max(clock['now'] + max(d, 0), nxt)

  U.time = fake_time
  U.sleep = fake_sleep
  b = object.__new__(U.TokenBucket)
  b.capacity, b._tokens, b.fill_rate, b.timestamp = f('cap', 1.0), f('tok'), f('rate', 1.0), f('ts')
  cap0, rate0 = b.capacity, b.fill_rate
  granted = f('granted')
  t1, g1, P1 = f('t1'), f('g1'), f('P1')
  cost = f('cost', 1.0)

  def P(now):
    return min(b._tokens + b.fill_rate * (now - b.timestamp), max(b._tokens, 0) + b.capacity)

  res = None
  if v['method'] == 'peek':
    res = b.peek(cost)
  elif v['method'] == 'drain':
    res = b.drain(cost, blocking=bool(v.get('blocking')))
    if res:
      granted += cost
  elif v['method'] == 'setcap':
    b.setCapacityAndFillRate(f('newcap', 1.0), f('newrate', 1.0))
  now = clock['now']
  eps = 1e-9
  clauses = {
    'tok_le_cap': b._tokens <= b.capacity + eps,
    'ts_le_now': b.timestamp <= now + eps,
    'potential_nonneg': P(now) >= -eps,
    'window': granted - g1 + P(now) <= P1 + b.fill_rate * (now - t1) + eps,
    'new_burst': b._tokens <= b.capacity + eps,
  }
  if v['method'] == 'drain' and clock['sleeps']:
    deficit = cost - (b._tokens + cost)
    clauses['sleep_bound'] = clock['sleeps'][0] <= deficit / rate0 + eps
  want = v.get('obligation', '').split('/')[-1]
  failed = [k for k, ok in clauses.items() if not ok]
  out = {'input': v, 'result': res, 'state': {'tokens': b._tokens, 'timestamp': b.timestamp,
                                              'capacity': b.capacity, 'fill_rate': b.fill_rate},
         'now': now, 'sleeps': clock['sleeps'], 'failed_clauses': failed,
         'native_confirms': want in failed}
  print('REPLAY-RESULT ' + json.dumps(out))


if __name__ == '__main__':
  main()
