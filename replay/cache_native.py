"""Native search / replay for the cache contracts (C02, C09, C10, C17).

Given the label of a refuted obligation and the scalar part of the solver's counter-model
(MAX_CACHE_SIZE, flow control, strategy) it enumerates short store/drain histories on the REAL
carbon.cache._MetricCache and evaluates the same contract clause on every step against an
independent reference dict.  The first failing history is the replayed counterexample.
"""
import itertools
import json
import sys

from carbon import state, events, instrumentation
state.events = events
state.instrumentation = instrumentation
from carbon.conf import settings          # noqa: E402
import carbon.cache as C                   # noqa: E402

STRATS = {'none': None, 'naive': C.NaiveStrategy, 'max': C.MaxStrategy, 'random': C.RandomStrategy,
          'sorted': C.SortedStrategy, 'timesorted': C.TimeSortedStrategy,
          'bucketmax': C.BucketMaxStrategy, 'plain': C.DrainStrategy}


FUTURE = 4102444800.5     # 2100-01-01, fractional


def configure(mx, flow):
  settings.MAX_CACHE_SIZE = mx
  settings.USE_FLOW_CONTROL = flow
  settings.CACHE_SIZE_LOW_WATERMARK = mx * 0.95
  settings.CACHE_SIZE_HARD_MAX = mx * 1.05 if flow else mx
  settings.MIN_TIMESTAMP_LAG = 0
  settings.LOG_CACHE_QUEUE_SORTS = False


def snapshot(c):
  return {k: dict(v) for k, v in dict.items(c)}


def check_store(c, clause, m, ts, v, ref):
  """returns None or a description of the violated clause"""
  before = snapshot(c)
  size0 = c.size
  nm0 = list(c.new_metrics)
  ov0 = instrumentation.stats.get('cache.overflow', 0)
  flag0 = state.cacheTooFull
  present = m in before and ts in before[m]
  inf = settings.CACHE_SIZE_HARD_MAX == float('inf')
  no_room = (not inf) and size0 + 1 > settings.CACHE_SIZE_HARD_MAX
  try:
    c.store(m, (ts, v))
  except Exception as e:
    return 'no_raise: store raised %r' % (e,)
  after = snapshot(c)
  ov = instrumentation.stats.get('cache.overflow', 0) - ov0
  # refused / accepted are defined by the observable outcome, as in the contract
  stored = m in after and ts in after[m]
  refused = (not present) and not stored
  accepted = (not present) and stored
  want = {k: dict(x) for k, x in before.items()}
  if accepted or present:
    want.setdefault(m, {})[ts] = v
  res = {
    'bound': inf or c.size <= settings.CACHE_SIZE_HARD_MAX,
    'refuse_signal': ov == (1 if refused else 0),
    'refuse_only_without_room': (not refused) or no_room,
    'refuse_frame': (not refused) or (after == before and c.size == size0),
    'refuse_frame_others': (not refused) or all(after.get(k) == before.get(k) for k in set(after) | set(before) if k != m),
    'update_when_full': (not present) or (c.size == size0 and after == want),
    'accept_view': (not accepted) or (after == want and c.size == size0 + 1),
    'lastwrite': (not (accepted or present)) or after.get(m, {}).get(ts) == v,
    'frame_others': all(after.get(k) == before.get(k) for k in set(after) | set(before) if k != m),
    'same_metric_other_timestamps': all(after.get(m, {}).get(t) == x for t, x in before.get(m, {}).items() if t != ts),
    'size_exact': c.size == sum(len(x) for x in after.values()),
    'new_metrics': list(c.new_metrics) == nm0 + ([m] if accepted and not before.get(m) else []),
    'flag_implies_above_low': (not state.cacheTooFull) or inf or c.size >= settings.CACHE_SIZE_LOW_WATERMARK,
    'no_empty_entries': all(len(x) > 0 for x in after.values()),
  }
  res['I_nonempty'] = res['no_empty_entries']
  key = clause.split('/')[-1].split('[')[0]
  if key in res and not res[key]:
    return "%s violated by store(%r,(%r,%r)): before=%r size0=%r after=%r size=%r overflow+=%d" % (
      key, m, ts, v, before, size0, after, c.size, ov)
  return None


def check_drain(c, clause):
  before = snapshot(c)
  size0 = c.size
  try:
    (m, dps) = c.drain_metric()
  except Exception as e:
    return 'no_raise: drain_metric raised %r' % (e,)
  after = snapshot(c)
  key = clause.split('/')[-1].split('[')[0]
  res = {}
  if m is None:
    # (MIN_TIMESTAMP_LAG is 0 here: "nothing to do" is only an answer for an empty cache, whatever the timestamps)
    res['progress'] = res['nonempty_batch'] = res['None_only_when_nothing_is_eligible'] = res['choose_in_cache'] = not any(before.values())
    res['size_exact'] = c.size == sum(len(x) for x in after.values())
  else:
    res['sorted_unique'] = [t for t, _ in dps] == sorted(set(t for t, _ in dps))
    res['items_exact'] = dict(dps) == before.get(m) and len(dps) == len(before.get(m, {}))
    res['removed'] = m not in after and all(after.get(k) == before[k] for k in before if k != m)
    res['size'] = c.size == size0 - len(dps)
    res['size_exact'] = c.size == sum(len(x) for x in after.values())
    res['nonempty_batch'] = len(dps) > 0 or not any(before.values())
    res['is_max'] = len(dps) == max(len(x) for x in before.values())
  if key in res and not res[key]:
    return "%s violated by drain_metric() -> %r: before=%r after=%r size=%r" % (key, (m, dps), before, after, c.size)
  return None


def search(clause, maxes, flows, strategies, depth):
  metrics = ['a', 'b']
  tss = [1, FUTURE]      # long ago / later than the clock of this machine
  ops = [('s', m, t) for m in metrics for t in tss] + [('d',)]
  tried = 0
  # (cacheFull can only fire when MAX <= size <= hard limit - 1, i.e. under flow control with
  # MAX_CACHE_SIZE >= 20: such caches start pre-filled)
  grid = [(mx, flow, 0) for mx in maxes for flow in flows]
  if any(m != float('inf') for m in maxes) and True in flows:
    grid += [(20, True, pre) for pre in (18, 19, 20)]
  for strat in strategies:
    for (mx, flow, prefill) in grid:
      if True:
        for n in range(1, min(depth, 3) + 1 if prefill else depth + 1):
          for seq in itertools.product(ops, repeat=n):
            configure(mx, flow)
            state.cacheTooFull = False
            instrumentation.stats.clear()
            cls = STRATS[strat]
            c = C._MetricCache(cls)
            for i in range(prefill):
              c.store('p' if i % 4 else 'q', (100 + i, 1000.0 + i))
            val = -1       # the first stored value is 0.0 (falsy): a presence test must not be a truth test
            hist = [['prefilled', prefill]] if prefill else []
            bad = None
            for op in seq:
              tried += 1
              if op[0] == 's':
                val += 1
                hist.append(['store', op[1], op[2], float(val)])
                bad = check_store(c, clause, op[1], op[2], float(val), None)
              else:
                hist.append(['drain'])
                bad = check_drain(c, clause)
              if bad:
                return {'native_confirms': True, 'history': hist, 'what': bad,
                        'settings': {'MAX_CACHE_SIZE': mx, 'USE_FLOW_CONTROL': flow,
                                     'CACHE_SIZE_HARD_MAX': settings.CACHE_SIZE_HARD_MAX,
                                     'strategy': strat}, 'histories_tried': tried}
  return {'native_confirms': False, 'histories_tried': tried}


ALL_STORE = ['bound', 'refuse_signal', 'refuse_only_without_room', 'refuse_frame', 'refuse_frame_others', 'update_when_full', 'accept_view', 'lastwrite',
             'frame_others', 'same_metric_other_timestamps', 'size_exact', 'new_metrics', 'flag_implies_above_low',
             'no_empty_entries', 'no_raise']
ALL_DRAIN = ['sorted_unique', 'items_exact', 'removed', 'size', 'size_exact', 'nonempty_batch', 'no_raise']


def sweep(depth, seed, keys=None):
  """bounded cross-check of the cache contracts on the real code: every clause, every strategy"""
  evals = 0
  fails = []
  for strat in ['none', 'naive', 'max', 'sorted', 'timesorted', 'bucketmax', 'random']:
    for key in ALL_STORE + ALL_DRAIN:
      if keys and key not in keys:
        continue
      r = search('X/' + key, [1, 2, 3, float('inf')], [False, True], [strat], depth)
      evals += r.get('histories_tried', 0)
      if r.get('native_confirms') and len(fails) < 4:
        fails.append({'id': 'cache-' + key, 'strategy': strat, 'history': r['history'], 'what': r['what'], 'settings': r['settings']})
    for key in ('is_max',):
      if strat in ('max', 'bucketmax') and (not keys or key in keys):
        r = search('X/' + key, [float('inf')], [False], [strat], depth)
        evals += r.get('histories_tried', 0)
        if r.get('native_confirms') and len(fails) < 4:
          fails.append({'id': 'cache-' + key, 'strategy': strat, 'history': r['history'], 'what': r['what']})
  print('BOUNDED-RESULT ' + json.dumps({'evaluations': evals, 'distinct_cases': evals, 'failures': fails, 'depth': depth}))


def main():
  if sys.argv[1] == '--sweep':
    depth = int(sys.argv[2])
    keys = [k for k in sys.argv[3].split(',') if k] if len(sys.argv) > 3 and not sys.argv[3].startswith('--') else None
    return sweep(depth, 0, keys)
  a = json.loads(sys.argv[1])
  out = search(a['clause'], a.get('maxes', [1, 2, 3, float('inf')]), a.get('flows', [False, True]),
               a.get('strategies', ['none']), a.get('depth', 4))
  out['input'] = a
  print('REPLAY-RESULT ' + json.dumps(out))


if __name__ == '__main__':
  main()
