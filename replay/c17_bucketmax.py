"""Native replay of the C17 bucketmax schedule: the storing thread stores a new timestamp for the
metric that the writer has just chosen (removed from its bucket) but not yet popped.  The lock is
honoured: the store runs at the moment drain_metric re-acquires the lock for pop()."""
import json
import threading

from carbon import state, events, instrumentation
state.events = events
state.instrumentation = instrumentation
from carbon.conf import settings      # noqa: E402
settings.MAX_CACHE_SIZE = float('inf')
settings.CACHE_SIZE_HARD_MAX = float('inf')
settings.CACHE_SIZE_LOW_WATERMARK = float('inf')
import carbon.cache as C               # noqa: E402


class HookLock(object):
  """a real lock whose n-th acquisition first lets the other 'thread' take its step"""
  def __init__(self, hook_at, hook):
    self._l = threading.Lock()
    self.n = 0
    self.hook_at = hook_at
    self.hook = hook
    self.inside_hook = False

  def __enter__(self):
    if not self.inside_hook:
      self.n += 1
      if self.n == self.hook_at:
        self.inside_hook = True
        try:
          self.hook()
        finally:
          self.inside_hook = False
    self._l.acquire()

  def __exit__(self, *a):
    self._l.release()


def main():
  c = C._MetricCache(C.BucketMaxStrategy)
  c.store('m', (1, 1.0))
  c.store('m', (2, 2.0))
  out = {'schedule': ["W: drain_metric(): lock, choose_item() -> 'm' (removed from its bucket), unlock",
                      "R: store('m', (3, 3.0))   (new timestamp for the chosen metric)",
                      "W: pop('m')"], 'native_confirms': False}
  err = {}

  def other_thread():
    try:
      c.store('m', (3, 3.0))
    except Exception as e:
      err['store'] = repr(e)
  # acquisitions during drain_metric: 1 = choose_item's region, 2 = pop's region
  c.lock = HookLock(2, other_thread)
  try:
    r = c.drain_metric()
    out['drain_result'] = repr(r)
  except Exception as e:
    err['drain'] = repr(e)
  out['errors'] = err
  out['buckets'] = repr(c.strategy.buckets)
  out['cache'] = repr({k: dict(v) for k, v in dict.items(c)})
  # store() must never fail, and afterwards the buckets must describe the cache
  consistent = all(m in c and len(c[m]) == i + 1 for i, bk in enumerate(c.strategy.buckets) for m in bk) and \
      all(any(m in bk for bk in c.strategy.buckets) for m in dict.keys(c))
  out['buckets_consistent_with_cache'] = consistent
  out['native_confirms'] = bool(err) or not consistent
  print('REPLAY-RESULT ' + json.dumps(out))


if __name__ == '__main__':
  main()
