"""Bounded cross-checks of the listener contracts on the REAL carbon.protocols receivers
(StringTransport / direct datagrams), seeded random generation.

 --what c01   well-formed datapoint sequences (names over ASCII punctuation and one character per
              UTF-8 lead byte, integer / float / infinite values, integer and fractional timestamps)
              x random batching x random segmentation of the byte stream, through the plaintext TCP,
              UDP and pickle (protocols 0-4) listeners: delivered exactly once, in order, unchanged
 --what c11   the same streams with malformed items in between (witness table: invalid UTF-8, wrong
              field counts, unparsable / non-finite numbers, truncated / garbage / wrong-shape
              pickles) and byte-level mutations of valid streams: no exception escapes a handler,
              the connection is not closed, the well-formed neighbours of a malformed item arrive
              as if it were absent
 --what c12   whitelist / blacklist files (regex sets incl. empty, comment, invalid lines) x names x
              values incl. NaN / inf x timestamps incl. -1 and fractional ones x resolutions
              0/1/10/60 on the line, UDP and pickle listeners against an independent oracle
"""
import argparse
import json
import math
import os
import pickle
import random
import re
import shutil
import struct
import tempfile

from carbon import state, events, instrumentation
state.events = events
state.instrumentation = instrumentation
from carbon.conf import settings      # noqa: E402
import carbon.protocols as P            # noqa: E402
from carbon.regexlist import WhiteList, BlackList   # noqa: E402
from twisted.test.proto_helpers import StringTransport   # noqa: E402
from twisted.internet.task import Clock   # noqa: E402

settings.USE_FLOW_CONTROL = False
settings.USE_INSECURE_UNPICKLER = False

# a mutated pickle can ask the C unpickler for a gigantic memo (LONG_BINPUT with a 32-bit index):
# make that a prompt MemoryError (which the receiver must survive) instead of 30 GB of paging
import resource  # noqa: E402
resource.setrlimit(resource.RLIMIT_AS, (6 << 30, 6 << 30))


def special_chars():
  out = []
  for lead in range(0xC2, 0xF5):
    n = 1 if lead < 0xE0 else 2 if lead < 0xF0 else 3
    for tail in (0x80, 0xA9, 0xBF, 0x9F):
      raw = bytes([lead] + [tail] * n)
      try:
        ch = raw.decode('utf-8')
      except UnicodeDecodeError:
        continue
      if ch.isspace() or len(('a' + ch + 'b').splitlines()) != 1 or len(('a' + ch + 'b').split()) != 1:
        continue
      out.append(ch)
      break
  return out


SPECIAL = special_chars()
ASCII = [chr(c) for c in range(33, 127)]


def gen_name(rnd):
  n = rnd.randint(1, 8)
  chars = []
  for _ in range(n):
    r = rnd.random()
    chars.append(rnd.choice(SPECIAL) if r < 0.25 else rnd.choice(ASCII) if r < 0.5 else rnd.choice('abcxyz.._-09'))
  return ''.join(chars)


VALUES = [0.0, 1.0, -1.5, 1e-7, 1e300, -2.5e-300, float('inf'), float('-inf'), 3, -7, 2 ** 53, 0.1, 123456789.125, -1, -1.0, 0]


def gen_dp(rnd):
  ts = rnd.choice([0, 1, 10, 1700000000, 1700000000.5, 0.25, 2 ** 31, 12345.678])
  return (gen_name(rnd), ts, rnd.choice(VALUES))


def num(x):
  return repr(x)


def line_of(dp):
  (m, t, v) = dp
  return ('%s %s %s' % (m, num(v), num(t))).encode('utf-8')


def want_of(dp):
  (m, t, v) = dp
  return (m, (float(t), float(v)))


def segments(data, rnd):
  mode = rnd.random()
  if mode < 0.2:
    return [data]
  if mode < 0.5:
    k = rnd.randint(1, 6)
    return [data[i:i + k] for i in range(0, len(data), k)]
  cuts = sorted(set(rnd.randint(0, len(data)) for _ in range(rnd.randint(1, 12))))
  out, prev = [], 0
  for c in cuts + [len(data)]:
    out.append(data[prev:c])
    prev = c
  return out


class Harness(object):
  def __init__(self, pause_at=None):
    self.got = []
    self.pause_at = pause_at

    def on_metric(m, dp):
      self.got.append((m, dp))
      if self.pause_at is not None and len(self.got) == self.pause_at:
        # flow control kicks in while this datapoint is being handled (cache / send queue full)
        events.pauseReceivingMetrics()
    events.metricReceived.handlers[:] = [on_metric]
    events.pauseReceivingMetrics.handlers[:] = []
    events.resumeReceivingMetrics.handlers[:] = []
    state.connectedMetricReceiverProtocols.clear()
    state.metricReceiversPaused = False

  def feed(self, p, segs):
    """deliver the segments the way a TCP transport does: nothing is read while the transport is
    paused; the pause is lifted (buffers drained elsewhere) before the next read and at the end"""
    for sg in segs:
      if self.transport.producerState == 'paused':
        events.resumeReceivingMetrics()
      p.dataReceived(sg)
    if self.transport.producerState == 'paused':
      events.resumeReceivingMetrics()

  def tcp(self, cls):
    p = cls()
    p.callLater = Clock().callLater
    self.transport = StringTransport()
    p.makeConnection(self.transport)
    return p


def same(a, b):
  """delivered lists equal; floats compared exactly, NaN never expected here"""
  return a == b


def pickle_stream(frames, proto):
  data = b''
  for fr in frames:
    body = fr if isinstance(fr, bytes) else pickle.dumps(fr, protocol=proto)
    data += struct.pack('!I', len(body)) + body
  return data


def py2_frame(items, long_strings=False):
  """the pickle a Python 2 sender (protocol 2) writes for [(name, (timestamp, value)), ...] with
  `str` names: 8-bit string opcodes (SHORT_BINSTRING / BINSTRING) holding UTF-8 bytes"""
  out = [b'\x80\x02]', b'(']
  for (m, (t, v)) in items:
    raw = m.encode('utf-8')
    if long_strings or len(raw) > 255:
      out.append(b'T' + struct.pack('<i', len(raw)) + raw)
    else:
      out.append(b'U' + bytes([len(raw)]) + raw)
    for x in (t, v):
      out.append(b'G' + struct.pack('>d', float(x)))
    out.append(b'\x86\x86')
  out.append(b'e.')
  return b''.join(out)


def batches(items, rnd):
  out, i = [], 0
  while i < len(items):
    k = rnd.randint(1, 4)
    out.append(items[i:i + k])
    i += k
  return out


def sweep_c01(n, seed):
  rnd = random.Random('c01|%s' % seed)
  evals, fails = 0, {}
  settings.MIN_TIMESTAMP_RESOLUTION = 0
  WhiteList.regex_list, BlackList.regex_list = [], []

  def fail(fid, **kw):
    fails.setdefault(fid, dict(id=fid, **kw))
  for _ in range(n):
    dps = [gen_dp(rnd) for _ in range(rnd.randint(1, 6))]
    want = [want_of(d) for d in dps]
    # plaintext TCP
    data = b''.join(line_of(d) + b'\n' for d in dps)
    segs = segments(data, rnd)
    pause_at = rnd.choice([None, None] + list(range(1, len(dps) + 1)))
    settings.USE_FLOW_CONTROL = pause_at is not None
    h = Harness(pause_at)
    p = h.tcp(P.MetricLineReceiver)
    try:
      h.feed(p, segs)
      if not same(h.got, want) or h.transport.disconnecting:
        fail('c01-line', stream=repr(data), segments=[len(s) for s in segs], receivers_paused_while_handling_datapoint=pause_at,
             delivered=repr(h.got), expected=repr(want))
    except Exception as e:
      fail('c01-line', stream=repr(data), segments=[len(s) for s in segs], escaped=repr(e))
    evals += 1
    # UDP
    settings.USE_FLOW_CONTROL = False
    h = Harness()
    p = P.MetricDatagramReceiver()
    bs = batches(dps, rnd)
    try:
      for b in bs:
        tail = rnd.choice([b'\n', b''])
        p.datagramReceived(b'\n'.join(line_of(d) for d in b) + tail, ('127.0.0.1', 1))
      if not same(h.got, want):
        fail('c01-udp', datagrams=repr([[line_of(d) for d in b] for b in bs]), delivered=repr(h.got), expected=repr(want))
    except Exception as e:
      fail('c01-udp', datagrams=repr([[line_of(d) for d in b] for b in bs]), escaped=repr(e))
    evals += 1
    # pickle
    proto = rnd.choice([0, 1, 2, 3, 4])
    frames = [[(m, (t, v)) for (m, t, v) in b] for b in batches(dps, rnd)]
    if rnd.random() < 0.3:
      # a Python 2 sender: names travel as 8-bit strings (UTF-8 bytes)
      proto = 'py2-protocol-2' + rnd.choice(['', '-BINSTRING'])
      data = pickle_stream([py2_frame(fr, proto.endswith('BINSTRING')) for fr in frames], 2)
    else:
      data = pickle_stream(frames, proto)
    segs = segments(data, rnd)
    pause_at = rnd.choice([None, None] + list(range(1, len(dps) + 1)))
    settings.USE_FLOW_CONTROL = pause_at is not None
    h = Harness(pause_at)
    p = h.tcp(P.MetricPickleReceiver)
    try:
      h.feed(p, segs)
      if not same(h.got, want) or h.transport.disconnecting:
        fail('c01-pickle', frames=repr(frames), protocol=proto, segments=[len(s) for s in segs], receivers_paused_while_handling_datapoint=pause_at,
             delivered=repr(h.got), expected=repr(want))
    except Exception as e:
      fail('c01-pickle', frames=repr(frames), protocol=proto, segments=[len(s) for s in segs], escaped=repr(e))
    evals += 1
  return evals, list(fails.values())


BAD_LINES = [b'\xff 1 1', b'a 1 1e999', b'a 1 nan', b'a 1 2 3', b'a b 1', b'a nan 1', b'\xfe' * 500, b'', b'a', b'a 1', b' ',
             b'a 1 -inf', b'\xc3 1 1', b'a\x00b 1', b'a 1_ 1', b'a 0x10 1', b'\xed\xa0\x80 1 1', b'a\t1']
BAD_FRAMES = [pickle.dumps(5, 2), b"I1\n(I2\ntR.", b'\x00\x01garbage', pickle.dumps([('x', (1, 2))], 2)[:-3], b'', b'.',
              b"cos\nsystem\n(S'true'\ntR.", pickle.dumps({'a': 1}, 2), pickle.dumps('abc', 2), pickle.dumps(None, 2),
              pickle.dumps([[[]]], 2), b'\x80\x05N.', pickle.dumps(b'bytes', 3)]
BAD_ENTRIES = [(5, (1, 1)), (b'a', (1, 1)), (None, (1, 1)), ('a', (10 ** 400, 1)), 7, ('a', 3), ('a', (1, 2, 3)),
               ('a', (float('inf'), 1.0)), ('a', (float('nan'), 1.0)), ('a', (1.0, float('nan'))), ('a', ('x', 1)),
               ('a',), (), ('a', (None, 1)), ('a', ([], 1)), ('a', (1, {})), (('t',), (1, 1)), ('a', 'bc'), None, [1, [2, 3]],
               (('t', 'u'), (1, 1)), ((), (1, 1)), (['l'], (1, 1)), ({'k': 1}, (1, 1)), (1.5, (1, 1)), (True, (1, 1)),
               ('a', (True, None)), ('a', ((1,), 1)), ('a', (1, (2, 3))), ('a', ('1e999', 'nan')), ('', ('', ''))]


def sweep_c11(n, seed):
  settings.USE_FLOW_CONTROL = False
  rnd = random.Random('c11|%s' % seed)
  evals, fails = 0, {}
  settings.MIN_TIMESTAMP_RESOLUTION = 0
  WhiteList.regex_list, BlackList.regex_list = [], []

  def fail(fid, **kw):
    fails.setdefault(fid, dict(id=fid, **kw))
  for it in range(n):
    settings.MIN_TIMESTAMP_RESOLUTION = rnd.choice([0, 0, 10])
    res = settings.MIN_TIMESTAMP_RESOLUTION
    good = [gen_dp(rnd) for _ in range(rnd.randint(1, 4))]
    items = [('good', g) for g in good]
    for _ in range(rnd.randint(1, 3)):
      items.insert(rnd.randint(0, len(items)), ('bad', rnd.choice(BAD_LINES)))

    def norm(dp):
      (m, (t, v)) = want_of(dp)
      return (m, (int(t // res * res) if res else t, v))
    want = [norm(g) for g in good]
    # plaintext TCP
    data = b''.join((line_of(x) if k == 'good' else x) + b'\n' for k, x in items)
    segs = segments(data, rnd)
    h = Harness()
    p = h.tcp(P.MetricLineReceiver)
    try:
      for s in segs:
        p.dataReceived(s)
      if h.transport.disconnecting:
        fail('c11-line-closed', stream=repr(data), segments=[len(s) for s in segs])
      elif h.got != want:
        fail('c11-line-neighbours', stream=repr(data), delivered=repr(h.got), expected=repr(want), resolution=res)
    except Exception as e:
      fail('c11-line-escape', stream=repr(data), segments=[len(s) for s in segs], escaped=repr(e))
    evals += 1
    # UDP: one datagram
    h = Harness()
    p = P.MetricDatagramReceiver()
    dg = b'\n'.join((line_of(x) if k == 'good' else x) for k, x in items)
    try:
      p.datagramReceived(dg, ('127.0.0.1', 1))
      if h.got != want:
        fail('c11-udp-neighbours', datagram=repr(dg), delivered=repr(h.got), expected=repr(want), resolution=res)
    except Exception as e:
      fail('c11-udp-escape', datagram=repr(dg), escaped=repr(e), delivered_before=repr(h.got))
    evals += 1
    # pickle: bad frames between good frames, bad entries inside good frames
    frames = []
    wantp = []
    for g in good:
      entries = [(g[0], (g[1], g[2]))]
      for _ in range(rnd.randint(0, 2)):
        entries.insert(rnd.randint(0, len(entries)), rnd.choice(BAD_ENTRIES))
      frames.append(entries)
      if rnd.random() < 0.6:
        frames.append(rnd.choice(BAD_FRAMES))
    proto = rnd.choice([0, 1, 2, 3, 4])
    if proto < 3 and any(isinstance(e, tuple) and e and isinstance(e[0], bytes) for fr in frames if isinstance(fr, list) for e in fr):
      proto = 3      # protocols 0-2 pickle bytes through the global _codecs.encode: the whole frame is (rightly) refused
    try:
      data = pickle_stream(frames, proto)
    except Exception:
      continue
    segs = segments(data, rnd)
    h = Harness()
    p = h.tcp(P.MetricPickleReceiver)
    try:
      for s in segs:
        p.dataReceived(s)
      if h.transport.disconnecting:
        fail('c11-pickle-closed', frames=repr(frames), protocol=proto)
      elif h.got != want:
        fail('c11-pickle-neighbours', frames=repr(frames), protocol=proto, delivered=repr(h.got), expected=repr(want), resolution=res)
    except Exception as e:
      fail('c11-pickle-escape', frames=repr(frames), protocol=proto, escaped=repr(e), delivered_before=repr(h.got))
    evals += 1
    # byte-level mutation of the valid streams: only exception freedom and the connection staying open
    valid_line = b''.join(line_of(g) + b'\n' for g in good)
    mut = bytearray(valid_line)
    for _ in range(rnd.randint(1, 4)):
      op = rnd.random()
      pos = rnd.randint(0, max(0, len(mut) - 1))
      if op < 0.4 and mut:
        mut[pos] = rnd.randint(0, 255)
      elif op < 0.7:
        mut.insert(pos, rnd.randint(0, 255))
      elif mut:
        del mut[pos]
    mut = bytes(mut)
    h = Harness()
    p = h.tcp(P.MetricLineReceiver)
    try:
      for s in segments(mut, rnd):
        p.dataReceived(s)
      if h.transport.disconnecting:
        fail('c11-line-closed', stream=repr(mut))
    except Exception as e:
      fail('c11-line-escape', stream=repr(mut), escaped=repr(e))
    h = Harness()
    try:
      P.MetricDatagramReceiver().datagramReceived(mut, ('127.0.0.1', 1))
    except Exception as e:
      fail('c11-udp-escape', datagram=repr(mut), escaped=repr(e))
    body = bytearray(pickle.dumps([(g[0], (g[1], g[2])) for g in good], protocol=proto))
    for _ in range(rnd.randint(1, 4)):
      pos = rnd.randint(0, len(body) - 1)
      if rnd.random() < 0.6:
        body[pos] = rnd.randint(0, 255)
      else:
        del body[pos]
    h = Harness()
    p = h.tcp(P.MetricPickleReceiver)
    after = pickle_stream([[('after', (5, 6.0))]], 2)
    try:
      p.dataReceived(pickle_stream([bytes(body)], 2) + after)
      if h.transport.disconnecting:
        fail('c11-pickle-closed', frames=repr(bytes(body)))
      elif not h.got or h.got[-1] != ('after', (5.0 if not res else 0, 6.0)):
        fail('c11-pickle-neighbours', frames=repr(bytes(body)), delivered=repr(h.got), expected="... then ('after', (5.0, 6.0))", resolution=res)
    except Exception as e:
      fail('c11-pickle-escape', frames=repr(bytes(body)), escaped=repr(e))
    evals += 3
  return evals, list(fails.values())


class FakeTime(object):
  now = 1700000000.25

  def __init__(self):
    self.reads = 0

  def time(self):
    self.reads += 1
    return self.now


LISTS = [[], ['^a\\.'], ['cpu', '^x$'], ['# comment', '', '^servers\\.'], ['(unclosed', 'load$'], ['.*'], ['^$'], ['\\.b\\.'], ['[0-9]+$'],
         # each line is a pattern of its own: group numbers, backreferences and inline flags are per line
         ['^(q|r)\\.', '\\.(\\w+)\\.\\1$'], ['(?i)^scratch\\.', '^Prod\\.debug\\.'], ['^servers\\.(?P<h>\\w+)\\.', '(?P<h>x)x']]
NAMES12 = ['a.b', 'a.b.c', 'x', 'servers.web.cpu', 'servers.web.load', 'xx', 'cpu', 'm.7', 'A.B', u'caf\xe9.b.z',
           'm.dup.dup', 'q.dup.dup', 'prod.debug.x', 'Prod.debug.x', 'SCRATCH.y']
TS12 = [-1, -1.0, 0, 1, 59, 60, 61, 1700000000, 1700000007.75, -1.5, -3.5, 0.5, -2, 119.999, 10, 9.99]
VAL12 = [0.0, 1.5, float('nan'), float('inf'), float('-inf'), -3, 2 ** 60]


def valid_patterns(lines):
  out = []
  for ln in lines:
    pat = ln.strip()
    if ln.startswith('#') or not pat:
      continue
    try:
      out.append(re.compile(pat))
    except re.error:
      pass
  return out


def sweep_c12(n, seed):
  settings.USE_FLOW_CONTROL = False
  rnd = random.Random('c12|%s' % seed)
  evals, fails = 0, {}

  def fail(fid, **kw):
    fails.setdefault(fid, dict(id=fid, **kw))
  tmp = tempfile.mkdtemp(prefix='c12lists')
  real_time = P.time
  mtime0 = int(real_time.time()) - 10 * 86400
  try:
    for it in range(n):
      wl, bl = rnd.choice(LISTS), rnd.choice(LISTS)
      for (obj, lines, fname) in ((WhiteList, wl, 'whitelist.conf'), (BlackList, bl, 'blacklist.conf')):
        # the operator installs revision `it` of the list file: same path, modification time later
        # than that of the previous revision (all of them in the past, as with rsync -t / cp -p /
        # config management), then the periodic read_list() runs
        path = os.path.join(tmp, fname)
        with open(path, 'w') as f:
          f.write('\n'.join(lines) + ('\n' if lines else ''))
        os.utime(path, (mtime0 + it, mtime0 + it))
        if it == 0:
          obj.list_file = path
          obj.rules_last_read = 0.0          # daemon start
          obj.regex_list = []
        obj.read_list()
      wpat, bpat = valid_patterns(wl), valid_patterns(bl)
      res = rnd.choice([0, 1, 10, 60])
      settings.MIN_TIMESTAMP_RESOLUTION = res
      for _ in range(12):
        m, ts, v = rnd.choice(NAMES12), rnd.choice(TS12), rnd.choice(VAL12)
        admitted = not any(r.search(m) for r in bpat) and (not wpat or any(r.search(m) for r in wpat)) and not (isinstance(v, float) and math.isnan(v))
        t = FakeTime.now if ts == -1 else float(ts)
        if res:
          t = math.floor(t / res) * res
        want = [(m, (t, float(v)))] if admitted else []
        for listener in ('line', 'udp', 'pickle'):
          ft = FakeTime()
          P.time = ft
          h = Harness()
          try:
            if listener == 'line':
              p = h.tcp(P.MetricLineReceiver)
              p.dataReceived(line_of((m, ts, v)) + b'\n')
            elif listener == 'udp':
              P.MetricDatagramReceiver().datagramReceived(line_of((m, ts, v)) + b'\n', ('127.0.0.1', 1))
            else:
              p = h.tcp(P.MetricPickleReceiver)
              p.dataReceived(pickle_stream([[(m, (ts, v))]], 2))
          except Exception as e:
            fail('c12-escape', listener=listener, metric=m, timestamp=ts, value=repr(v), escaped=repr(e))
            continue
          finally:
            P.time = real_time
          evals += 1
          ok = len(h.got) == len(want) and all(g[0] == w[0] and g[1][0] == w[1][0] and (g[1][1] == w[1][1]) for g, w in zip(h.got, want))
          if not ok:
            fid = 'c12-filter' if len(h.got) != len(want) else 'c12-normalisation'
            fail(fid, listener=listener, whitelist=wl, blacklist=bl, list_file_revision=it, resolution=res, metric=m, timestamp=ts, value=repr(v),
                 now=FakeTime.now, delivered=repr(h.got), expected=repr(want),
                 patterns_in_force={'whitelist': [r.pattern for r in WhiteList.regex_list], 'blacklist': [r.pattern for r in BlackList.regex_list]})
  finally:
    P.time = real_time
    WhiteList.regex_list, BlackList.regex_list = [], []
    shutil.rmtree(tmp, ignore_errors=True)
  return evals, list(fails.values())


def main():
  ap = argparse.ArgumentParser()
  ap.add_argument('--what', choices=['c01', 'c11', 'c12'], required=True)
  ap.add_argument('--n', type=int, default=300)
  ap.add_argument('--seed', default='0')
  a = ap.parse_args()
  evals, fails = {'c01': sweep_c01, 'c11': sweep_c11, 'c12': sweep_c12}[a.what](a.n, a.seed)
  print('BOUNDED-RESULT ' + json.dumps({'evaluations': evals, 'distinct_cases': evals, 'failures': fails[:5], 'n': a.n}))


if __name__ == '__main__':
  import os as _os
  sys_path_dir = _os.path.dirname(_os.path.abspath(__file__))
  import sys as _sys
  _sys.path.insert(0, sys_path_dir)
  from _guard import run_guarded
  run_guarded(main, _os.path.basename(__file__))
