"""Native replay for C01/C11: the witness table (DESIGN.md 5/C11) turns the abstract predicates of
a refuted exception-freedom / skip obligation into bytes, which are fed to the REAL protocol
handlers between two well-formed datapoints."""
import json
import pickle
import sys

from carbon import state, events, instrumentation
state.events = events
state.instrumentation = instrumentation
from carbon.conf import settings      # noqa: E402
import carbon.protocols as P            # noqa: E402


def collect():
  got = []
  events.metricReceived.handlers[:] = [lambda m, dp: got.append((m, dp))]
  return got


class T(object):
  def getPeer(self):
    class Peer(object):
      host, port = 'h', 1
    return Peer()


def mk(cls):
  r = cls()
  r.resetTimeout = lambda: None
  r.peerName = 'peer'
  r.transport = T()
  return r


GOOD1, GOOD2 = ('x.y', (10.0, 1.5)), ('z', (20.0, 2.5))

LINE_WITNESSES = {
  'not valid utf-8': b'\xff 1 1',
  'infinite timestamp': b'a 1 1e999',
  'nan timestamp': b'a 1 nan',
  'four fields': b'a 1 2 3',
  'unparsable value': b'a b 1',
  'nan value': b'a nan 1',
  'long garbage': b'\xfe' * 500,
}


def run_line(res):
  out = []
  for why, w in LINE_WITNESSES.items():
    settings.MIN_TIMESTAMP_RESOLUTION = res
    got = collect()
    r = mk(P.MetricLineReceiver)
    try:
      r.lineReceived(b'x.y 1.5 10')
      r.lineReceived(w)
      r.lineReceived(b'z 2.5 20')
    except Exception as e:
      out.append({'handler': 'lineReceived', 'witness': repr(w), 'why': why, 'res': res, 'escaped': repr(e)})
      continue
    names = [g[0] for g in got]
    if names != ['x.y', 'z']:
      out.append({'handler': 'lineReceived', 'witness': repr(w), 'why': why, 'res': res, 'dispatched': repr(got)})
  return out


def run_udp(res):
  out = []
  for why, w in LINE_WITNESSES.items():
    settings.MIN_TIMESTAMP_RESOLUTION = res
    got = collect()
    r = mk(P.MetricDatagramReceiver)
    try:
      r.datagramReceived(b'x.y 1.5 10\n' + w + b'\nz 2.5 20\n', ('h', 1))
    except Exception as e:
      out.append({'handler': 'datagramReceived', 'witness': repr(w), 'why': why, 'res': res, 'escaped': repr(e),
                  'dispatched_before': repr(got)})
      continue
    names = [g[0] for g in got]
    if names != ['x.y', 'z']:
      out.append({'handler': 'datagramReceived', 'witness': repr(w), 'why': why, 'res': res, 'dispatched': repr(got)})
  return out


PICKLE_FRAMES = {
  'payload not iterable': pickle.dumps(5, 2),
  'loads raises TypeError': b"I1\n(I2\ntR.",
  'garbage': b'\x00\x01garbage',
  'truncated': pickle.dumps([GOOD1], 2)[:-3],
}
PICKLE_ENTRIES = {
  'metric is an int': (5, (1, 1)),
  'metric is bytes': (b'a', (1, 1)),
  'metric is None': (None, (1, 1)),
  'value too large for float': ('a', (10 ** 400, 1)),
  'entry is not a pair': 7,
  'inner is not a pair': ('a', 3),
  'inner has three items': ('a', (1, 2, 3)),
  'infinite timestamp': ('a', (float('inf'), 1.0)),
  'nan timestamp': ('a', (float('nan'), 1.0)),
  'nan value': ('a', (1.0, float('nan'))),
  'unparsable number': ('a', ('x', 1)),
}


def run_pickle(res):
  out = []
  for why, frame in PICKLE_FRAMES.items():
    settings.MIN_TIMESTAMP_RESOLUTION = res
    got = collect()
    r = mk(P.MetricPickleReceiver)
    r.unpickler = P.get_unpickler(insecure=False)
    try:
      r.stringReceived(pickle.dumps([GOOD1], 2))
      r.stringReceived(frame)
      r.stringReceived(pickle.dumps([GOOD2], 2))
    except Exception as e:
      out.append({'handler': 'stringReceived', 'frame': repr(frame), 'why': why, 'res': res, 'escaped': repr(e)})
      continue
    if [g[0] for g in got] != ['x.y', 'z']:
      out.append({'handler': 'stringReceived', 'frame': repr(frame), 'why': why, 'res': res, 'dispatched': repr(got)})
  for why, entry in PICKLE_ENTRIES.items():
    settings.MIN_TIMESTAMP_RESOLUTION = res
    got = collect()
    r = mk(P.MetricPickleReceiver)
    r.unpickler = P.get_unpickler(insecure=False)
    try:
      r.stringReceived(pickle.dumps([GOOD1, entry, GOOD2], 2))
    except Exception as e:
      out.append({'handler': 'stringReceived', 'entry': repr(entry), 'why': why, 'res': res, 'escaped': repr(e),
                  'dispatched_before': repr(got)})
      continue
    if [g[0] for g in got] != ['x.y', 'z']:
      out.append({'handler': 'stringReceived', 'entry': repr(entry), 'why': why, 'res': res, 'dispatched': repr(got)})
  return out


def run_metric_received(res):
  out = []
  for ts in (float('inf'), float('-inf'), float('nan')):
    settings.MIN_TIMESTAMP_RESOLUTION = res
    got = collect()
    r = mk(P.MetricLineReceiver)
    try:
      r.metricReceived('a', (ts, 1.0))
    except Exception as e:
      out.append({'handler': 'metricReceived', 'datapoint': repr((ts, 1.0)), 'res': res, 'escaped': repr(e)})
      continue
    if got:
      out.append({'handler': 'metricReceived', 'datapoint': repr((ts, 1.0)), 'res': res, 'dispatched': repr(got)})
  return out


def main():
  a = json.loads(sys.argv[1])
  clause = a['clause']
  fails = []
  for res in (0, 10):
    if 'lineReceived' in clause:
      fails += run_line(res)
    elif 'datagramReceived' in clause:
      fails += run_udp(res)
    elif 'stringReceived' in clause:
      fails += run_pickle(res)
    elif 'metricReceived' in clause:
      fails += run_metric_received(res)
  want_escape = 'no_escape' in clause
  rel = [f for f in fails if ('escaped' in f) == want_escape] or ([] if want_escape else fails)
  print('REPLAY-RESULT ' + json.dumps({'native_confirms': bool(rel), 'failures': rel[:6], 'all_failures': len(fails),
                                       'input': a}))


if __name__ == '__main__':
  main()
