"""Bounded stand-in for the pattern clause of C08 on the REAL AggregationRule.build_regex: a rule
pattern matches whole names only, `*` / <field> match within one dot-free segment, <<field>> may
span segments.  Independent matcher written from the documentation (conf/aggregation-rules.conf
comments), by recursive descent over segments."""
import argparse
import itertools
import json

from carbon import state, events, instrumentation
state.events = events
state.instrumentation = instrumentation
from carbon.aggregator.rules import AggregationRule

SEG_TOKENS = ['a', 'b', '*', 'a*', '<f>', '<<g>>']
ALPHA = ['a', 'b', '.', '\n']


def seg_match(tok, seg):
  """does one pattern segment (no dots in the name segment) match the name segment"""
  if tok == '*':
    return len(seg) >= 1
  if tok == 'a*':
    return seg.startswith('a')
  if tok == '<f>':
    return len(seg) >= 1
  return tok == seg


def spec_match(tokens, name):
  """whole-name match; <<g>> matches one or more characters, possibly spanning segments"""
  def rec(ti, rest):
    if ti == len(tokens):
      return rest == ''
    tok = tokens[ti]
    last = ti == len(tokens) - 1
    if tok == '<<g>>':
      # consume >= 1 chars, then either end or a '.' followed by the remaining pattern
      for cut in range(1, len(rest) + 1):
        head, tail = rest[:cut], rest[cut:]
        if '\n' in head:
          break        # <<field>> is '.+?': it spans dots but not line breaks (names with a line break are pathological)
        if last:
          if tail == '':
            return True
        elif tail.startswith('.') and rec(ti + 1, tail[1:]):
          return True
      return False
    seg, dot, tail = rest.partition('.')
    if not seg_match(tok, seg):
      return False
    if last:
      return dot == '' and tail == ''
    return dot == '.' and rec(ti + 1, tail)
  return rec(0, name)


def main():
  ap = argparse.ArgumentParser()
  ap.add_argument('--segs', type=int, default=3)
  ap.add_argument('--seed', default='0')
  a = ap.parse_args()
  max_pat = a.segs - 1
  max_len = 4 if a.segs <= 3 else 6
  names = [''.join(t) for n in range(1, max_len + 1) for t in itertools.product(ALPHA, repeat=n)]
  evals = 0
  distinct = 0
  fails = {}
  for n in range(1, max_pat + 1):
    for toks in itertools.product(SEG_TOKENS, repeat=n):
      if list(toks).count('<f>') > 1 or list(toks).count('<<g>>') > 1:
        continue
      pat = '.'.join(toks)
      rule = AggregationRule(pat, 'out.x', 'sum', 60)
      for name in names:
        evals += 1
        distinct += 1
        got = rule.regex.match(name) is not None
        want = spec_match(list(toks), name)
        if got != want:
          fid = 'c08-pattern-trailing-newline' if (got and name.endswith('\n') and spec_match(list(toks), name[:-1])) else 'c08-pattern'
          fails.setdefault(fid, [])
          if len(fails[fid]) < 2:
            fails[fid].append({'id': fid, 'pattern': pat, 'name': name, 'regex': rule.regex.pattern, 'matched': got, 'documented': want})
  flat = [f for v in fails.values() for f in v]
  print('BOUNDED-RESULT ' + json.dumps({'evaluations': evals, 'distinct_cases': distinct, 'failures': flat,
                                        'failure_kinds': {k: len(v) for k, v in fails.items()}}))


if __name__ == '__main__':
  import os as _os
  sys_path_dir = _os.path.dirname(_os.path.abspath(__file__))
  import sys as _sys
  _sys.path.insert(0, sys_path_dir)
  from _guard import run_guarded
  run_guarded(main, _os.path.basename(__file__))
