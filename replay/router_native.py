"""Native search / replay for the hash-ring and router contracts (C05, C06, C16): enumerates small
destination sets on the REAL carbon.hashing / carbon.routers code and evaluates the contract
clause named by the refuted obligation."""
import itertools
import json
import sys

from carbon.hashing import ConsistentHashRing
from carbon import routers as R


class S(object):
  def __init__(self, rf, diverse, hash_type):
    self.REPLICATION_FACTOR = rf
    self.DIVERSE_REPLICAS = diverse
    self.ROUTER_HASH_TYPE = hash_type

  def __getitem__(self, k):
    return None


DESTS = [('10.0.0.1', 2004, 'a'), ('10.0.0.1', 2104, 'b'), ('10.0.0.2', 2004, 'a'), ('10.0.0.3', 2004, 'c'),
         ('10.0.0.2', 2104, 'b')]
KEYS = ['a.b.c', 'x', 'servers.web01.cpu', 'servers.web02.cpu', 'm%d' % 7, 'hello.world', 'foo.bar.baz', 'q']


def check_ring(clause, hash_type):
  key = clause.split('/')[-1]
  for n in range(1, 5):
    nodes = [(d[0], d[2]) for d in DESTS[:n]]
    ring = ConsistentHashRing(nodes, hash_type=hash_type)
    for k in KEYS:
      out = list(ring.get_nodes(k))
      res = {
        'distinct': len(out) == len(set(out)),
        'member': all(x in ring.nodes for x in out),
        'complete': set(out) == set(ring.nodes),
        'length': len(out) == len(ring.nodes),
      }
      res['out_is_local'] = res['distinct']
      res['out_distinct'] = res['distinct']
      if key in res and not res[key]:
        return {'native_confirms': True, 'what': '%s violated: ConsistentHashRing(%r, hash_type=%r).get_nodes(%r) -> %r' % (key, nodes, hash_type, k, out)}
  return None


def check_router(clause, cls_name):
  key = clause.split('/')[-1].split('[')[0]
  for hash_type in ('carbon_ch', 'fnv1a_ch'):
    for n in range(1, 6):
      for rf in (1, 2, 3, 4):
        for diverse in (False, True):
          r = getattr(R, cls_name)(S(rf, diverse, hash_type))
          for d in DESTS[:n]:
            r.addDestination(d)
          servers = set(d[0] for d in DESTS[:n])
          eligible = len(servers) if diverse else n
          for k in KEYS:
            try:
              out = list(r.getDestinations(k))
            except Exception as e:
              if key == 'no_raise':
                return {'native_confirms': True, 'what': 'getDestinations raised %r' % (e,)}
              raise
            res = {
              'card': len(out) == min(rf, eligible),
              'distinct': len(out) == len(set(out)),
              'configured': all(x in DESTS[:n] for x in out),
              'diverse': (not diverse) or len(set(x[0] for x in out)) == len(out),
              'deterministic': out == list(r.getDestinations(k)),
            }
            if key in res and not res[key]:
              return {'native_confirms': True,
                      'what': '%s violated: %s(RF=%d, DIVERSE=%r, %s) with %r: getDestinations(%r) -> %r' % (
                        key, cls_name, rf, diverse, hash_type, DESTS[:n], k, out)}
  return None


def main():
  a = json.loads(sys.argv[1])
  clause = a['clause']
  out = None
  if '/get_nodes/' in clause and 'FastHashRing' not in clause:
    for ht in ('carbon_ch', 'fnv1a_ch'):
      out = out or check_ring(clause, ht)
  if out is None and 'getDestinations' in clause:
    out = check_router(clause, 'ConsistentHashingRouter')
  if out is None:
    out = {'native_confirms': False}
  out['input'] = a
  print('REPLAY-RESULT ' + json.dumps(out))


if __name__ == '__main__':
  main()
