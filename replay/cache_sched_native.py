"""Two-thread schedules on the REAL carbon.cache._MetricCache, deterministically: the "receiver"
and the "writer" run a history of store() / drain_metric() calls; at a chosen line step of a chosen
call -- any line of cache.py at which the cache lock is not held -- the other thread runs: inside a
store() the writer does one, two or as many drain_metric() calls as it takes to empty the cache;
inside a drain_metric() the receiver does one store() (from a sys.settrace hook, i.e. exactly as if
that thread had been scheduled there).  Every history of <= depth operations over 2 metrics x 2
timestamps (one long ago, one later than this machine's clock) x every injection point x cache sizes (incl. pre-filled caches of 20 with flow control,
the only way cacheFull can fire) x flow control x strategies.

Clauses (ids):
  sched-no_raise            neither store() nor drain_metric() raises
  sched-conservation        no value is handed out twice; every accepted value is handed out by a
                            drain (possibly the final ones) unless a later store overwrote it
  sched-size_exact          at every quiescent point size == number of cached datapoints
  sched-bound               at every quiescent point size <= hard limit
  sched-no_empty_entries    at every quiescent point no metric maps to an empty dict
  sched-undrainable         repeated draining hands out everything: drain_metric() never reports an
                            empty cache while datapoints are held
  sched-paused-at-quiescence  (C09) after everything was drained, cacheTooFull is not left set with
                            the cache below its low watermark
"""
import argparse
import itertools
import json
import multiprocessing
import sys

from carbon import state, events, instrumentation
state.events = events
state.instrumentation = instrumentation
from carbon.conf import settings          # noqa: E402
import carbon.cache as C                   # noqa: E402

STRATS = {'none': None, 'naive': C.NaiveStrategy, 'max': C.MaxStrategy, 'sorted': C.SortedStrategy,
          'timesorted': C.TimeSortedStrategy, 'bucketmax': C.BucketMaxStrategy, 'random': C.RandomStrategy}
CACHE_FILE = C.__file__.replace('.pyc', '.py')
FUTURE = 4102444800.5      # a timestamp later than this machine's clock (2100-01-01), fractional


def configure(mx, flow):
  settings.MAX_CACHE_SIZE = mx
  settings.USE_FLOW_CONTROL = flow
  settings.CACHE_SIZE_LOW_WATERMARK = mx * 0.95
  settings.CACHE_SIZE_HARD_MAX = mx * 1.05 if flow else mx
  settings.MIN_TIMESTAMP_LAG = 0
  settings.LOG_CACHE_QUEUE_SORTS = False


def count(c):
  return sum(len(v) for v in dict.values(c))


def run(strat, mx, flow, hist, inject, prefill=0):
  """inject = (store index, step, n_drains) or None -> (failure or None, steps per store)"""
  configure(mx, flow)
  state.cacheTooFull = False
  instrumentation.stats.clear()
  c = C._MetricCache(STRATS[strat])
  drained = []
  accepted = []          # (m, ts, v, order)
  steps_per_store = []
  fail = [None]          # first failure that ends the run (an exception)
  found = {}             # every failure kind seen in this run

  def quiescent(where):
    if fail[0]:
      return
    n = count(c)
    if c.size != n:
      found.setdefault('sched-size_exact', '%s: size=%r but %d datapoints are cached' % (where, c.size, n))
    if settings.CACHE_SIZE_HARD_MAX != float('inf') and max(c.size, n) > settings.CACHE_SIZE_HARD_MAX:
      found.setdefault('sched-bound', '%s: size=%r (%d datapoints cached) exceeds the hard limit %r' % (where, c.size, n, settings.CACHE_SIZE_HARD_MAX))
    if any(len(v) == 0 for v in dict.values(c)):
      found.setdefault('sched-no_empty_entries', '%s: %r' % (where, {k: dict(v) for k, v in dict.items(c)}))

  def drain(where):
    try:
      (m, dps) = c.drain_metric()
    except Exception as e:
      if not fail[0]:
        fail[0] = ('sched-no_raise', '%s: drain_metric raised %r' % (where, e))
      return False
    if m is None:
      return False
    for (ts, v) in dps:
      drained.append((m, ts, v))
    return True

  for i in range(prefill):
    # (cacheFull can only fire when MAX <= size <= hard limit - 1, i.e. with flow control and
    # MAX_CACHE_SIZE >= 20: such caches start pre-filled, mostly with one big metric)
    pm, pts, pv = ('p' if i % 4 else 'q'), 100 + i, 1000.0 + i
    c.store(pm, (pts, pv))
    accepted.append((pm, pts, pv, -1))
  def do_store(m, ts, v, order, where):
    ov0 = instrumentation.stats.get('cache.overflow', 0)
    try:
      c.store(m, (ts, v))
    except Exception as e:
      if not fail[0]:
        fail[0] = ('sched-no_raise', '%s: store(%r, (%r, %r)) raised %r' % (where, m, ts, v, e))
      return
    if instrumentation.stats.get('cache.overflow', 0) == ov0:
      accepted.append((m, ts, v, order))

  for idx, op in enumerate(hist):
    v = float(idx)          # the first value is 0.0
    st = {'n': 0, 'done': False}

    def local(frame, event, arg, _idx=idx, _st=st, _op=op):
      if event == 'line':
        _st['n'] += 1
        if inject and inject[0] == _idx and inject[1] == _st['n'] and not _st['done'] and not c.lock.locked():
          _st['done'] = True
          sys.settrace(None)
          if _op[0] == 's':
            # the writer thread runs here
            for _ in range(inject[2] if inject[2] else 50):      # 0 = until the cache is empty
              if not drain('writer at step %d of store #%d' % (_st['n'], _idx)):
                break
          else:
            # the receiver thread runs here: one store chosen by inject[2]
            (im, its) = [('a', 1), ('a', FUTURE), ('b', 1), ('b', FUTURE + 1)][inject[2]]
            do_store(im, its, 500.0 + _idx, _idx + 0.5, 'receiver at step %d of drain #%d' % (_st['n'], _idx))
      return local

    def tracer(frame, event, arg):
      if frame.f_code.co_filename == CACHE_FILE:
        return local
      return None
    sys.settrace(tracer)
    try:
      if op[0] == 's':
        do_store(op[1], op[2], v, idx, 'store #%d' % idx)
      else:
        drain('drain #%d' % idx)
    finally:
      sys.settrace(None)
    steps_per_store.append(st['n'])
    quiescent('after operation #%d' % idx)
    if fail[0]:
      found.setdefault(fail[0][0], fail[0][1])
      return found, steps_per_store
  # the writer finishes the job
  for _ in range(50):
    if not drain('final drains'):
      break
  quiescent('after the final drains')
  if fail[0]:
    found.setdefault(fail[0][0], fail[0][1])
    return found, steps_per_store
  if count(c):
    # the strategy says "nothing to do" although datapoints are cached (no timestamp lag here):
    # the writer can never write them out
    found.setdefault('sched-undrainable', 'drain_metric() returns (None, []) although %r is still cached' % (
      {k: dict(v) for k, v in dict.items(c)},))
  left = [(m, ts, v) for m, d in dict.items(c) for ts, v in d.items()]
  out = drained + left
  if len(out) != len(set(out)):
    found.setdefault('sched-conservation', 'a datapoint was handed out twice: %r' % (sorted(out),))
  vals = set(v for (_, _, v) in out)
  for (m, ts, v, order) in accepted:
    if v not in vals and not any(m2 == m and ts2 == ts and o2 > order for (m2, ts2, _, o2) in accepted):
      found.setdefault('sched-conservation', 'accepted datapoint %r of %r @%r was never handed out (drained %r, left %r)' % (v, m, ts, drained, left))
  if state.cacheTooFull and settings.CACHE_SIZE_HARD_MAX != float('inf') and c.size < settings.CACHE_SIZE_LOW_WATERMARK:
    found.setdefault('sched-paused-at-quiescence', 'everything drained (size %r < low watermark %r) but cacheTooFull is still set: receivers stay paused' % (
      c.size, settings.CACHE_SIZE_LOW_WATERMARK))
  return found, steps_per_store


def work(job):
  (strat, mx, flow, depth, only, prefill) = job
  evals = 0
  fails = {}
  ops = [('s', m, t) for m in ('a', 'b') for t in (1, FUTURE)] + [('d',)]
  for n in range(1, depth + 1):
    for hist in itertools.product(ops, repeat=n):
      r, steps = run(strat, mx, flow, hist, None, prefill)
      evals += 1
      cands = [(r, None)]
      for idx in range(n):
        for step in range(1, steps[idx] + 2):
          for nd in ((1, 2, 0) if hist[idx][0] == 's' else (0, 1, 2, 3)):
            r2, _ = run(strat, mx, flow, hist, (idx, step, nd), prefill)
            evals += 1
            cands.append((r2, (idx, step, nd)))
      for (found_here, inj) in cands:
       for rr in (found_here or {}).items():
        if (only is None or rr[0] in only) and rr[0] not in fails:
          fails[rr[0]] = {'id': rr[0], 'what': rr[1], 'strategy': strat, 'MAX_CACHE_SIZE': mx, 'USE_FLOW_CONTROL': flow,
                          'prefilled_datapoints': prefill, 'stores': [list(h) for h in hist],
                          'other_thread_runs_at': None if inj is None else {'operation_index': inj[0], 'line_step': inj[1], 'drains_or_store_choice': inj[2]}}
  return evals, list(fails.values())


def main():
  ap = argparse.ArgumentParser()
  ap.add_argument('--depth', type=int, default=3)
  ap.add_argument('--only', default='')
  ap.add_argument('--seed', default='0')
  a = ap.parse_args()
  only = set(x for x in a.only.split(',') if x) or None
  jobs = [(s, mx, flow, a.depth, only, 0) for s in STRATS for mx in (1, 2, 3, float('inf')) for flow in (False, True)
          if not (mx == float('inf') and flow)]
  jobs += [(s, 20, True, min(a.depth, 3), only, pre) for s in STRATS for pre in (18, 19, 20)]
  with multiprocessing.Pool(16) as pool:
    res = pool.map(work, jobs, chunksize=1)
  evals = sum(r[0] for r in res)
  fails = {}
  for r in res:
    for f in r[1]:
      fails.setdefault(f['id'], f)
  print('BOUNDED-RESULT ' + json.dumps({'evaluations': evals, 'distinct_cases': evals, 'failures': list(fails.values())[:5],
                                        'depth': a.depth, 'configurations': len(jobs)}, default=str))


if __name__ == '__main__':
  import os as _os
  sys_path_dir = _os.path.dirname(_os.path.abspath(__file__))
  import sys as _sys
  _sys.path.insert(0, sys_path_dir)
  from _guard import run_guarded
  run_guarded(main, _os.path.basename(__file__))
