"""Bounded validation of A-TWISTED-FRAMING (an assumed contract on Twisted, not a clause of
carbon): the REAL MetricLineReceiver / MetricPickleReceiver on a StringTransport receive every
segmentation (all 2^(n-1) cut sets) of short streams; the dispatched datapoints must not depend
on the cuts.  Also validates the A-STR assumption that a well-formed line's fields are recovered
by strip().split() and float()."""
import argparse
import itertools
import json
import pickle
import struct

from carbon import state, events, instrumentation
state.events = events
state.instrumentation = instrumentation
from carbon.conf import settings      # noqa: E402
import carbon.protocols as P            # noqa: E402
from twisted.test.proto_helpers import StringTransport   # noqa: E402

settings.MIN_TIMESTAMP_RESOLUTION = 0
settings.USE_FLOW_CONTROL = False


def run(cls, stream, cuts):
  got = []
  events.metricReceived.handlers[:] = [lambda m, dp: got.append((m, dp))]
  state.connectedMetricReceiverProtocols.clear()
  p = cls()
  p.makeConnection(StringTransport())
  prev = 0
  for c in list(cuts) + [len(stream)]:
    p.dataReceived(stream[prev:c])
    prev = c
  return got


def all_cuts(n, limit):
  pos = list(range(1, n))
  if n - 1 <= limit:
    for r in range(0, n):
      for c in itertools.combinations(pos, r):
        yield c
  else:
    yield ()
    for i in pos:
      yield (i,)
    for i in pos:
      for j in pos:
        if i < j:
          yield (i, j)


def main():
  ap = argparse.ArgumentParser()
  ap.add_argument('--tier', default='quick')
  ap.add_argument('--seed', default='0')
  a = ap.parse_args()
  limit = 12 if a.tier == 'quick' else 19
  line_sets = [
    [('a', 1.0, 1.5)], [('mé', 12.0, -2.0)], [('a', 1.0, 1.0), ('b', 2.0, float('inf'))],
    [('a.b', 3.0, 7.0), ('c', 4.0, 0.5), ('d', 5.0, 2.0)],
  ]
  evals = 0
  distinct = set()
  failures = []
  for dps in line_sets:
    stream = ''.join('%s %r %d\n' % (m, v, t) for (m, t, v) in dps).encode('utf-8')
    want = [(m, (float(t), float(v))) for (m, t, v) in dps]
    for cuts in all_cuts(len(stream), limit):
      evals += 1
      distinct.add(('line', stream, cuts))
      got = run(P.MetricLineReceiver, stream, cuts)
      if got != want and len(failures) < 3:
        failures.append({'id': 'framing-line', 'stream': repr(stream), 'cuts': cuts, 'got': repr(got), 'want': repr(want)})
  pickle_sets = [[('a', (1.0, 1.5))], [('a', (1.0, 2.0)), ('b', (2.0, 3.0))]]
  for dps in pickle_sets:
    frames = [dps] if len(dps) == 1 else [dps[:1], dps[1:]]
    stream = b''
    for f in frames:
      body = pickle.dumps(f, protocol=2)
      stream += struct.pack('!I', len(body)) + body
    want = [(m, (float(t), float(v))) for (m, (t, v)) in dps]
    for cuts in all_cuts(len(stream), limit):
      evals += 1
      distinct.add(('pickle', stream, cuts))
      got = run(P.MetricPickleReceiver, stream, cuts)
      if got != want and len(failures) < 3:
        failures.append({'id': 'framing-pickle', 'stream': repr(stream), 'cuts': cuts, 'got': repr(got), 'want': repr(want)})
  print('BOUNDED-RESULT ' + json.dumps({'evaluations': evals, 'distinct_cases': len(distinct), 'failures': failures,
                                        'exhaustive_up_to_stream_length': limit + 1}))


if __name__ == '__main__':
  import os as _os
  sys_path_dir = _os.path.dirname(_os.path.abspath(__file__))
  import sys as _sys
  _sys.path.insert(0, sys_path_dir)
  from _guard import run_guarded
  run_guarded(main, _os.path.basename(__file__))
