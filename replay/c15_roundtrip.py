"""Bounded stand-in for the C15 value clause: real CarbonLineClientProtocol._sendDatapointsNow ->
real MetricLineReceiver.lineReceived (and the pickle pair) on boundary and random doubles."""
import argparse
import json
import math
import random
import struct

from carbon import state, events, instrumentation
state.events = events
state.instrumentation = instrumentation
from carbon.conf import settings      # noqa: E402
settings.MIN_TIMESTAMP_RESOLUTION = 0
settings.MAX_QUEUE_SIZE = 1000
settings.QUEUE_LOW_WATERMARK_PCT = 0.8
settings.MAX_QUEUE_SIZE_HARD_PCT = 1.25
settings.USE_FLOW_CONTROL = False
import carbon.client as C               # noqa: E402
import carbon.protocols as P            # noqa: E402


def ulp(x):
  return math.ulp(x) if hasattr(math, 'ulp') else abs(x) * 2 ** -52


def main():
  ap = argparse.ArgumentParser()
  ap.add_argument('--n', type=int, default=20000)
  ap.add_argument('--seed', default='0')
  a = ap.parse_args()
  rnd = random.Random(int(a.seed))
  vals = [0.0, -0.0, float('inf'), float('-inf'), 1, -1, 0, 2 ** 31, 2 ** 53, -2 ** 40, 12345678901234567890]
  for k in range(-12, 309):
    for s in (1.0, -1.0):
      x = s * 10.0 ** k
      vals += [x, math.nextafter(x, 0.0), math.nextafter(x, s * float('inf'))]
  for _ in range(a.n):
    x = struct.unpack('<d', struct.pack('<Q', rnd.getrandbits(64)))[0]
    if x == x:
      vals.append(x)
  got = []
  events.metricReceived.handlers[:] = [lambda m, dp: got.append((m, dp))]
  lines = []
  client = C.CarbonLineClientProtocol()
  client.sendLine = lambda l: lines.append(l)
  recv = P.MetricLineReceiver()
  recv.resetTimeout = lambda: None
  recv.peerName = 'p'
  failures = []
  evals = 0
  distinct = set()
  name = 'relay.ünï.m'
  B = 2000
  for i in range(0, len(vals), B):
    batch = [(name, (float(rnd.randrange(0, 2 ** 32)) + rnd.random(), v)) for v in vals[i:i + B]]
    del lines[:]
    try:
      client._sendDatapointsNow(batch)
    except Exception as e:
      # the client raised on a batch: find the datapoint (everything after it in the message is lost)
      bad = None
      for dp in batch:
        try:
          client._sendDatapointsNow([dp])
        except Exception:
          bad = dp
          break
      if not any(f['id'] == 'c15-line-send-raises' for f in failures):
        failures.append({'id': 'c15-line-send-raises', 'escaped': repr(e), 'datapoint': repr(bad), 'batch_size': len(batch)})
      continue
    if len(lines) != len(batch) and len(failures) < 3:
      failures.append({'id': 'c15-line-count', 'sent': len(batch), 'lines': len(lines)})
      continue
    for (m, (t, v)), ln in zip(batch, lines):
      evals += 1
      distinct.add(v if not isinstance(v, float) else struct.pack('<d', v))
      del got[:]
      recv.lineReceived(ln)
      ok = len(got) == 1
      if ok:
        gm, (gt, gv) = got[0]
        fv = float(v)
        if math.isinf(fv):
          okv = gv == fv
        else:
          okv = abs(gv - fv) <= 5e-11 or abs(gv - fv) <= ulp(fv)
        ok = gm == m and gt == float(int(t)) and okv
      if not ok:
        fid = 'c15-line-roundtrip'
        if len(got) == 1 and got[0][0] == m and got[0][1][0] == float(int(t)) and not math.isinf(float(v)) and \
            abs(got[0][1][1] - float(v)) <= 5e-11 + ulp(float(v)):
          # decimal rounding (<= 5e-11) plus the parse rounding of the text (<= half an ulp)
          fid = 'c15-line-roundtrip-half-ulp'
        if len([f for f in failures if f['id'] == fid]) < 2:
          failures.append({'id': fid, 'datapoint': repr((m, (t, v))), 'line': repr(ln), 'received': repr(got),
                           'difference': abs(got[0][1][1] - float(v)) if len(got) == 1 else None, 'ulp': ulp(float(v))})
  # pickle pair: identical
  import pickle
  frames = []
  pc = C.CarbonPickleClientProtocol()
  pc.sendString = lambda s: frames.append(s)
  pr = P.MetricPickleReceiver()
  pr.resetTimeout = lambda: None
  pr.peerName = 'p'
  pr.unpickler = P.get_unpickler(insecure=False)
  sample = [(name, (float(rnd.randrange(0, 2 ** 32)), v)) for v in vals[:3000] if isinstance(v, float) or abs(v) <= 2 ** 53]
  try:
    pc._sendDatapointsNow(sample)
  except Exception as e:
    failures.append({'id': 'c15-pickle-send-raises', 'escaped': repr(e)})
  del got[:]
  for f in frames:
    pr.stringReceived(f)
  evals += len(sample)
  want = [(m, (float(t), float(v))) for (m, (t, v)) in sample]
  if got != want:
    bad = [(w, g) for w, g in zip(want, got) if w != g][:2]
    failures.append({'id': 'c15-pickle-roundtrip', 'first_differences': repr(bad), 'sent': len(want), 'received': len(got)})
  print('BOUNDED-RESULT ' + json.dumps({'evaluations': evals, 'distinct_cases': len(distinct), 'failures': failures}))


if __name__ == '__main__':
  import os as _os
  sys_path_dir = _os.path.dirname(_os.path.abspath(__file__))
  import sys as _sys
  _sys.path.insert(0, sys_path_dir)
  from _guard import run_guarded
  run_guarded(main, _os.path.basename(__file__))
