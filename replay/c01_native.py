"""Native search for C01 on the REAL listeners: well-formed datapoints whose names cover every
UTF-8 lead-byte class, integer / float / infinite values, several per frame, through the
plaintext TCP, UDP and pickle listeners; each must be delivered exactly once, in order, with the
same name, timestamp and value."""
import json
import pickle
import struct
import sys

from carbon import state, events, instrumentation
state.events = events
state.instrumentation = instrumentation
from carbon.conf import settings      # noqa: E402
import carbon.protocols as P            # noqa: E402
from twisted.test.proto_helpers import StringTransport   # noqa: E402

settings.MIN_TIMESTAMP_RESOLUTION = 0
settings.USE_FLOW_CONTROL = False


def names():
  out = ['a', 'a.b.c', 'A_b-9', 'x:y', 'a,b', '-', '0']
  # one name starting with a character from each UTF-8 lead byte (C2..F4) and one containing it later
  for lead in list(range(0xC2, 0xF5)):
    for tail in (0x80, 0xBF, 0xA9):
      n = 1 if lead < 0xE0 else 2 if lead < 0xF0 else 3
      raw = bytes([lead] + [tail] * n)
      try:
        ch = raw.decode('utf-8')
      except UnicodeDecodeError:
        continue
      if ch.isspace() or not ch.isprintable() and ch in '\x85  ':
        continue
      out.append(ch + '.m')
      out.append('m.' + ch)
      break
  return out


def datapoints():
  dps = []
  vals = [0.0, 1.0, -1.5, 1e-7, 1e300, float('inf'), float('-inf'), 3, -7, 2 ** 53, -1, -1.0, 0]
  for i, n in enumerate(names()):
    dps.append((n, float(1000 + i), vals[i % len(vals)]))
  return dps


def run_line(dps, chunk):
  got = []
  events.metricReceived.handlers[:] = [lambda m, dp: got.append((m, dp))]
  state.connectedMetricReceiverProtocols.clear()
  p = P.MetricLineReceiver()
  p.makeConnection(StringTransport())
  data = b''.join(('%s %r %d\n' % (m, v, t)).encode('utf-8') for (m, t, v) in dps)
  for i in range(0, len(data), chunk):
    p.dataReceived(data[i:i + chunk])
  return got


def run_udp(dps, per):
  got = []
  events.metricReceived.handlers[:] = [lambda m, dp: got.append((m, dp))]
  p = P.MetricDatagramReceiver()
  for i in range(0, len(dps), per):
    data = b''.join(('%s %r %d\n' % (m, v, t)).encode('utf-8') for (m, t, v) in dps[i:i + per])
    p.datagramReceived(data, ('127.0.0.1', 1))
  return got


def run_pickle(dps, per, chunk):
  got = []
  events.metricReceived.handlers[:] = [lambda m, dp: got.append((m, dp))]
  state.connectedMetricReceiverProtocols.clear()
  p = P.MetricPickleReceiver()
  p.makeConnection(StringTransport())
  data = b''
  for i in range(0, len(dps), per):
    body = pickle.dumps([(m, (t, v)) for (m, t, v) in dps[i:i + per]], protocol=2)
    data += struct.pack('!I', len(body)) + body
  for i in range(0, len(data), chunk):
    p.dataReceived(data[i:i + chunk])
  return got


def main():
  a = json.loads(sys.argv[1]) if len(sys.argv) > 1 else {}
  dps = datapoints()
  want = [(m, (float(t), float(v))) for (m, t, v) in dps]
  fails = []
  for name, fn in (('plaintext TCP, 7-byte segments', lambda: run_line(dps, 7)),
                   ('plaintext TCP, one segment', lambda: run_line(dps, 10 ** 6)),
                   ('UDP, 3 per datagram', lambda: run_udp(dps, 3)),
                   ('pickle, 4 per frame, 5-byte segments', lambda: run_pickle(dps, 4, 5))):
    try:
      got = fn()
    except Exception as e:
      fails.append({'listener': name, 'escaped': repr(e)})
      continue
    if got != want:
      missing = [w for w in want if w not in got]
      extra = [g for g in got if g not in want]
      fails.append({'listener': name, 'delivered': len(got), 'expected': len(want),
                    'missing_or_altered': repr(missing[:3]), 'unexpected': repr(extra[:3])})
  clause = a.get('clause', '')
  rel = [f for f in fails if ('lineReceived' not in clause or 'TCP' in f['listener']) and
         ('datagram' not in clause or 'UDP' in f['listener']) and ('stringReceived' not in clause or 'pickle' in f['listener'])]
  print('REPLAY-RESULT ' + json.dumps({'native_confirms': bool(rel), 'failures': rel[:4], 'datapoints': len(dps), 'input': a}))


if __name__ == '__main__':
  main()
