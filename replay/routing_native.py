"""Bounded cross-check of the routing contracts on the REAL carbon.routers / carbon.relayrules /
carbon.aggregator.rules code.

 --what hash   (C05)  consistent-hashing and fast-hashing routers (and their aggregation-aware
               variants without rules) over destination sets of 1..8 triples built by different
               add/remove histories, REPLICATION_FACTOR 1..4, DIVERSE_REPLICAS on/off, hash types
               carbon_ch / fnv1a_ch, N keys:  card, distinct, configured, diverse, deterministic
 --what rules  (C16)  generated relay-rules files (sections from a pattern pool, continue flags,
               default placement, destination subsets) x configured subsets x metric names against
               an independent reading of the file; generated aggregation rules: every input is
               routed to the hash destinations of its aggregate names, or of its own name
"""
import argparse
import itertools
import json
import os
import random
import re
import shutil
import tempfile

from carbon import routers as R

POOL = [('10.0.0.1', 2004, 'a'), ('10.0.0.1', 2104, 'b'), ('10.0.0.2', 2004, 'a'), ('10.0.0.3', 2004, 'c'),
        ('10.0.0.2', 2104, 'b'), ('10.0.0.1', 2204, 'c'), ('10.0.0.4', 2004, 'a'), ('10.0.0.3', 2104, 'd')]


class S(object):
  def __init__(self, rf, diverse, hash_type, **paths):
    self.REPLICATION_FACTOR = rf
    self.DIVERSE_REPLICAS = diverse
    self.ROUTER_HASH_TYPE = hash_type
    self.paths = paths

  def __getitem__(self, k):
    return self.paths.get(k)


def keys(n, rnd):
  out = ['a.b.c', 'x', 'servers.web01.cpu', 'hello.world', '', 'a' * 200, u'caf\xe9.m']
  segs = ['servers', 'web01', 'web02', 'cpu', 'load', 'user', 'x', 'y', '7', 'prod', 'eu-west']
  while len(out) < n:
    out.append('.'.join(rnd.choice(segs) for _ in range(rnd.randint(1, 5))) + str(rnd.randint(0, 99999)))
  return out


def histories(rnd, thorough):
  """(description, [ops]) where ops build the configured set"""
  out = []
  for order in (list(range(8)), [7, 3, 5, 1, 6, 0, 2, 4], [2, 4, 0, 1, 3, 5, 6, 7]):
    for n in range(1, 9):
      out.append([('add', POOL[i]) for i in order[:n]])
  for _ in range(12 if thorough else 4):
    ops = [('add', d) for d in POOL]
    gone = rnd.sample(POOL, rnd.randint(1, 6))
    ops += [('remove', d) for d in gone]
    back = rnd.sample(gone, rnd.randint(0, len(gone) - 1))
    ops += [('add', d) for d in back]
    out.append(ops)
  return out


def sweep_hash(nkeys, seed, thorough):
  rnd = random.Random(str(seed))
  ks = keys(nkeys, rnd)
  evals = 0
  fails = {}

  def fail(fid, what):
    fails.setdefault(fid, {'id': fid, 'what': what})
  classes = ['ConsistentHashingRouter', 'FastHashingRouter', 'AggregatedConsistentHashingRouter', 'FastAggregatedHashingRouter']
  for cls_name in classes:
    for hash_type in ('carbon_ch', 'fnv1a_ch'):
      for ops in histories(rnd, thorough):
        for rf in (1, 2, 3, 4):
          for diverse in (False, True):
            if cls_name.find('Aggregated') >= 0 and (rf not in (1, 3) or len(ops) > 4):
              continue
            from carbon.aggregator.rules import RuleManager
            RuleManager.clear()
            r = getattr(R, cls_name)(S(rf, diverse, hash_type))
            cur = []
            for (op, d) in ops:
              if op == 'add':
                r.addDestination(d)
                cur.append(d)
              else:
                r.removeDestination(d)
                cur.remove(d)
            servers = set(d[0] for d in cur)
            eligible = len(servers) if diverse else len(cur)
            desc = '%s(RF=%d, DIVERSE=%r, %s) after %r' % (cls_name, rf, diverse, hash_type, ops)
            if r.countDestinations() != len(cur) or not all(r.hasDestination(d) for d in cur):
              fail('hash-configured-set', '%s: countDestinations/hasDestination disagree with the configured set %r' % (desc, cur))
            # every behaviour class of the ring: routing is constant between two ring entries, so
            # the positions of all entries, their successors, 0 and 65535 cover ALL 65536 positions
            pinned = []
            ring = getattr(r, 'ring', None)
            if cls_name == 'ConsistentHashingRouter' and ring is not None and hasattr(ring, 'ring') and hasattr(ring, 'compute_ring_position'):
              pts = sorted(set([0, 65535] + [e[0] for e in ring.ring] + [min(65535, e[0] + 1) for e in ring.ring]))
              box = [0]
              ring.compute_ring_position = lambda key, _b=box: _b[0]
              pinned = [('@%d' % p, p) for p in pts]
            for k in ks + pinned:
              evals += 1
              if isinstance(k, tuple):
                box[0] = k[1]
                k = k[0]
              elif pinned:
                continue        # (named keys were already run by the other router classes)
              try:
                out = list(r.getDestinations(k))
              except Exception as e:
                fail('hash-no_raise', '%s: getDestinations(%r) raised %r' % (desc, k, e))
                continue
              if 'Aggregated' in cls_name:
                out = sorted(out)     # the aggregation-aware variants return a set
                again = sorted(r.getDestinations(k))
              else:
                again = list(r.getDestinations(k))
              if len(out) != min(rf, eligible):
                fail('hash-card', '%s: getDestinations(%r) -> %r, expected %d destinations' % (desc, k, out, min(rf, eligible)))
              if len(out) != len(set(out)):
                fail('hash-distinct', '%s: getDestinations(%r) -> %r repeats a destination' % (desc, k, out))
              if not all(x in cur for x in out):
                fail('hash-configured', '%s: getDestinations(%r) -> %r includes a destination that is not configured' % (desc, k, out))
              if diverse and len(set(x[0] for x in out)) != len(out):
                fail('hash-diverse', '%s: getDestinations(%r) -> %r shares a server' % (desc, k, out))
              if out != again:
                fail('hash-deterministic', '%s: getDestinations(%r) -> %r then %r' % (desc, k, out, again))
  return evals, list(fails.values())


PATTERNS = ['^servers\\.', 'cpu', '^a\\.b$', 'WEB', '\\.load$', '^x', 'z{3}']
METRICS = ['servers.web01.cpu', 'servers.web02.load', 'a.b', 'a.b.c', 'x', 'xservers.cpu', 'web.Load', 'q.r.s', 'zzz', 'A.B']


def dest_str(d):
  return '%s:%d:%s' % d


def sweep_rules(nfiles, seed, thorough):
  from carbon.relayrules import loadRelayRules  # noqa: F401  (import check)
  rnd = random.Random('rules%s' % seed)
  evals = 0
  fails = {}

  def fail(fid, what):
    fails.setdefault(fid, {'id': fid, 'what': what})
  tmp = tempfile.mkdtemp(prefix='c16rules')
  try:
    for fileno in range(nfiles):
      nsec = rnd.randint(1, 6)
      default_at = rnd.randint(0, nsec - 1)
      secs = []
      for i in range(nsec):
        dests = rnd.sample(POOL[:5], rnd.randint(1, 3))
        if i == default_at:
          secs.append({'name': 'default', 'default': True, 'dests': dests})
        else:
          sec = {'name': 's%d' % i, 'pattern': rnd.choice(PATTERNS), 'dests': dests}
          c = rnd.choice([None, 'true', 'false', 'True'])
          if c is not None:
            sec['continue'] = c
          secs.append(sec)
      if rnd.random() < 0.2:
        secs.insert(rnd.randint(0, len(secs)), {'name': 'nodefault', 'default': False, 'dests': [POOL[5]]})
      path = os.path.join(tmp, 'relay-rules-%d.conf' % fileno)
      with open(path, 'w') as f:
        for sec in secs:
          f.write('[%s]\n' % sec['name'])
          if 'pattern' in sec:
            f.write('pattern = %s\n' % sec['pattern'])
          if 'default' in sec:
            f.write('default = %s\n' % ('true' if sec['default'] else 'false'))
          if 'continue' in sec:
            f.write('continue = %s\n' % sec['continue'])
          f.write('destinations = %s\n\n' % ', '.join(dest_str(d) for d in sec['dests']))
      text = open(path).read()
      try:
        router = R.RelayRulesRouter(S(1, False, None, **{'relay-rules': path}))
      except Exception as e:
        fail('rules-load', 'relay-rules file rejected (%r):\n%s' % (e, text))
        continue
      # independent reading of the file: pattern sections in file order, then the default rule
      ordered = [s for s in secs if 'pattern' in s] + [s for s in secs if s.get('default') is True]
      for conf_n in range(4):
        configured = rnd.sample(POOL[:6], rnd.randint(0, 6))
        for d in list(router.destinations):
          router.removeDestination(d)
        for d in configured:
          router.addDestination(d)
        for m in METRICS:
          evals += 1
          want = []
          for s in ordered:
            if 'pattern' in s and not re.search(s['pattern'], m, re.I):
              continue
            want += [d for d in s['dests'] if d in configured]
            if not ('pattern' in s and s.get('continue') in ('true', 'True')):
              break
          try:
            got = list(router.getDestinations(m))
          except Exception as e:
            fail('rules-no_raise', 'getDestinations(%r) raised %r with file:\n%s' % (m, e, text))
            continue
          if any(d not in configured for d in got):
            fail('rules-configured', 'getDestinations(%r) -> %r includes a destination that is not configured (%r); file:\n%s' % (m, got, configured, text))
          if got != want:
            fail('rules-first-match', 'getDestinations(%r) -> %r, the rule file says %r (configured %r); file:\n%s' % (m, got, want, configured, text))
    # aggregation-aware hashing
    from carbon.aggregator.rules import RuleManager
    from twisted.internet.task import Clock
    AGG = ['<env>.sum.<rest> (60) = sum <env>.<<rest>>', 'all.cpu (10) = avg servers.*.cpu', 'x.<a>.total (30) = sum x.<a>.*',
           'servers.load (10) = max servers.<h>.load', 'copy.<m> (10) = min orig.<<m>>']
    NAMES = ['prod.a.b', 'prod.c', 'servers.web01.cpu', 'servers.web02.cpu', 'servers.web01.load', 'x.k.1', 'x.k.2', 'x.j.1',
             'orig.p.q', 'unmatched', 'a.b.c.d', 'stage.a.b']
    for fileno in range(max(3, nfiles // 10)):
      lines = rnd.sample(AGG, rnd.randint(1, 4))
      path = os.path.join(tmp, 'aggregation-rules-%d.conf' % fileno)
      with open(path, 'w') as f:
        f.write('\n'.join(lines) + '\n')
      for cls_name in ('AggregatedConsistentHashingRouter', 'FastAggregatedHashingRouter'):
        for rf in (1, 2):
          RuleManager.clear()
          if RuleManager.read_task.running:
            RuleManager.read_task.stop()
          RuleManager.read_task.clock = Clock()
          RuleManager.rules_last_read = 0.0
          r = getattr(R, cls_name)(S(rf, False, 'carbon_ch', **{'aggregation-rules': path}))
          plain = getattr(R, 'ConsistentHashingRouter' if cls_name.startswith('Aggregated') else 'FastHashingRouter')(S(rf, False, 'carbon_ch'))
          for d in POOL[:5]:
            r.addDestination(d)
            plain.addDestination(d)
          by_agg = {}
          for m in NAMES:
            evals += 1
            aggs = [x for x in (rule.get_aggregate_metric(m) for rule in RuleManager.rules) if x is not None]
            want = set()
            for a in (aggs or [m]):
              want |= set(plain.getDestinations(a))
            got = list(r.getDestinations(m))
            if len(got) != len(set(got)) or set(got) != want:
              fail('agg-routes-by-aggregate-name', '%s(RF=%d) rules %r: getDestinations(%r) -> %r, hash destinations of %r are %r' % (
                cls_name, rf, lines, m, got, aggs or [m], sorted(want)))
            if len(aggs) == 1:
              by_agg.setdefault(aggs[0], set()).add(frozenset(got))
          for a, routes in by_agg.items():
            if len(routes) > 1:
              fail('agg-inputs-meet', '%s(RF=%d) rules %r: inputs of aggregate %r are routed to different destination sets %r' % (cls_name, rf, lines, a, [sorted(x) for x in routes]))
      RuleManager.clear()
  finally:
    shutil.rmtree(tmp, ignore_errors=True)
  return evals, list(fails.values())


def main():
  ap = argparse.ArgumentParser()
  ap.add_argument('--what', choices=['hash', 'rules'], required=True)
  ap.add_argument('--n', type=int, default=100)
  ap.add_argument('--thorough', action='store_true')
  ap.add_argument('--seed', default='0')
  a = ap.parse_args()
  if a.what == 'hash':
    evals, fails = sweep_hash(a.n, a.seed, a.thorough)
  else:
    evals, fails = sweep_rules(a.n, a.seed, a.thorough)
  print('BOUNDED-RESULT ' + json.dumps({'evaluations': evals, 'distinct_cases': evals, 'failures': fails[:5], 'n': a.n}))


if __name__ == '__main__':
  import os as _os
  sys_path_dir = _os.path.dirname(_os.path.abspath(__file__))
  import sys as _sys
  _sys.path.insert(0, sys_path_dir)
  from _guard import run_guarded
  run_guarded(main, _os.path.basename(__file__))
