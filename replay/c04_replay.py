"""Native replay of the C04 counter-model (a schedule): the store and the stop arrive while the
writer thread is inside an idle time.sleep().  Runs the REAL carbon.writer.writeForever with
doubles for reactor / time.sleep / the database; reports whether an accepted datapoint is still
cached when writeForever returns."""
import json
import os
import sys
import tempfile

from carbon import state, events, instrumentation
state.events = events
state.instrumentation = instrumentation
from carbon.conf import settings      # noqa: E402
d = tempfile.mkdtemp(prefix='c04_')
settings.CONF_DIR = d
open(os.path.join(d, 'storage-schemas.conf'), 'w').write("[all]\npattern = .*\nretentions = 60:10\n")
open(os.path.join(d, 'storage-aggregation.conf'), 'w').write("")
settings.CACHE_WRITE_STRATEGY = 'sorted'
settings.MAX_CACHE_SIZE = float('inf')
settings.CACHE_SIZE_HARD_MAX = float('inf')
settings.CACHE_SIZE_LOW_WATERMARK = float('inf')
import carbon.writer as W              # noqa: E402
import shutil                          # noqa: E402
shutil.rmtree(d, ignore_errors=True)


class DB(object):
  def __init__(self):
    self.written = []

  def exists(self, m):
    return True

  def create(self, *a):
    pass

  def write(self, m, dps):
    self.written.append((m, list(dps)))


class Reactor(object):
  running = True


def main():
  db = DB()
  state.database = db
  r = Reactor()
  W.reactor = r
  cache = W.MetricCache()
  sleeps = []

  class T(object):
    @staticmethod
    def time():
      return 1000.0

    @staticmethod
    def sleep(dur):
      sleeps.append(dur)
      if len(sleeps) == 1:
        # the schedule of the counter-model: during the idle sleep a datapoint is accepted and
        # then the reactor is stopped
        cache.store('a.b', (1000, 1.0))
        r.running = False
  W.time = T
  W.writeForever()
  left = {k: dict(v) for k, v in dict.items(cache)}
  out = {'schedule': ['W: pass ends (cache empty), enters sleep(1)', "R: store('a.b',(1000,1.0))",
                      'R: reactor.running = False', 'W: wakes, tests reactor.running, returns'],
         'written': db.written, 'left_in_cache': left, 'sleeps': sleeps,
         'native_confirms': bool(left)}
  print('REPLAY-RESULT ' + json.dumps(out))


if __name__ == '__main__':
  main()
