"""Bounded stand-in for the parse-level clauses of C18 on the REAL carbon.util.TaggedSeries:
structured exhaustive enumeration of names x tag sets (keys / values drawn from token sets that
contain every reserved character) x all permutations x both syntaxes."""
import argparse
import itertools
import json
import sys

from carbon.util import TaggedSeries

NAMES = ['n', 'm.x', '~n', 'n{', 'a b', 'n=', 'x,y']
KEYS = ['a', 'A', 'b', 'ab', 'name', 'k{x', 't!', 'q^', 'e=', 's;', '', 'k"', 'c,d', 'k}']
VALUES = ['1', 'v', '~v', 'x;y', '"q"', 'a,b', 'c\\d', '{z}', 'v"}', '', 'w=1', 'p!']


def norm(x):
  try:
    return TaggedSeries.parse(x).path
  except Exception:
    return None


def carbon(name, tags):
  return name + ''.join(';%s=%s' % kv for kv in tags)


def openmetrics(name, tags):
  def esc(v):
    return v.replace('\\', '\\\\').replace('"', '\\"')
  return name + '{' + ','.join('%s="%s"' % (k, esc(v)) for k, v in tags) + '}'


def lookalike(y):
  # region of the recorded finding: a normalised carbon-syntax name that itself looks like OpenMetrics
  return y is not None and y[-2:] == '"}' and '{' in y


def main():
  ap = argparse.ArgumentParser()
  ap.add_argument('--tags', type=int, default=2)
  ap.add_argument('--seed', default='0')
  ap.add_argument('--witness', action='store_true')
  a = ap.parse_args()
  if a.witness:
    x = 'n;k{x="v"};a=1'
    y = norm(x)
    z = norm(y)
    print('WITNESS-RESULT ' + json.dumps({'still_fails': y is not None and z != y, 'x': x, 'normalised': y, 'normalised_again': z}))
    return
  evals = 0
  distinct = set()
  failures = {}

  def fail(fid, **kw):
    failures.setdefault(fid, [])
    if len(failures[fid]) < 2:
      d = {'id': fid}
      d.update(kw)
      failures[fid].append(d)
  for name in NAMES:
    for n in range(0, a.tags + 1):
      for keys in itertools.combinations(KEYS, n):
        for vals in itertools.product(VALUES, repeat=n):
          tags = list(zip(keys, vals))
          results = set()
          for perm in itertools.permutations(tags):
            x = carbon(name, perm)
            evals += 1
            distinct.add(x)
            y = norm(x)
            results.add(y)
            if y is not None:
              z = norm(y)
              if z != y:
                if lookalike(y):
                  fail('c18-idempotence-openmetrics-lookalike', x=x, normalised=y, normalised_again=z)
                else:
                  fail('c18-idempotence', x=x, normalised=y, normalised_again=z)
          if len(results) > 1:
            if any(lookalike(carbon(name, perm)) for perm in itertools.permutations(tags)):
              fail('c18-idempotence-openmetrics-lookalike', name=name, tags=tags, results=sorted(map(repr, results)),
                   note='one ordering of the carbon-syntax input itself looks like OpenMetrics')
            else:
              fail('c18-order-dependence', name=name, tags=tags, results=sorted(map(repr, results)))
          # both syntaxes agree whenever the OpenMetrics rendering is expressible and both parse
          ycar = next(iter(results)) if len(results) == 1 else None
          if n >= 1 and ycar is not None and all(v for v in vals) and \
             all(k and '=' not in k and ',' not in k and '"' not in k for k in keys) and '{' not in name:
            for perm in itertools.permutations(tags):
              xo = openmetrics(name, perm)
              evals += 1
              distinct.add(xo)
              yo = norm(xo)
              if yo is not None and yo != ycar:
                if lookalike(ycar) or lookalike(yo):
                  fail('c18-idempotence-openmetrics-lookalike', x=xo, carbon=ycar, openmetrics=yo)
                else:
                  fail('c18-syntax-disagreement', carbon_input=carbon(name, perm), openmetrics_input=xo, carbon=ycar, openmetrics=yo)
  # OpenMetrics inputs with a malformed pair among well-formed ones (empty value, unescaped quote,
  # missing comma / equals / quotes, trailing garbage): an independent strict reading of
  # name{tag="value",...} rejects them, so the parser must too (they are then stored as received)
  def strict_om(x):
    if not x.endswith('}') or '{' not in x:
      return None
    name, body = x[:-1].split('{', 1)
    if not name:
      return None
    i, n, pairs = 0, len(body), 0
    while i < n:
      j = body.find('="', i)
      if j <= i:
        return None
      k = j + 2
      val = []
      while k < n and body[k] != '"':
        if body[k] == '\\':
          if k + 1 < n and body[k + 1] in '"\\':
            val.append(body[k + 1])
            k += 2
            continue
          return None
        val.append(body[k])
        k += 1
      if k >= n or not val:
        return None
      k += 1
      if k < n:
        if body[k] != ',':
          return None
        k += 1
      pairs += 1
      i = k
    return pairs
  good = ['a="1"', 'b="v"', 'z="x y"']
  bad = ['c=""', 'c="a"b"', 'c=x', 'c', '="v"', 'c="v', 'c="v"x', 'c="\\q"']
  for name in ('m', 'n.x'):
    for k in (1, 2):
      for goods in itertools.permutations(good, k):
        for b in bad:
          for pos in range(k + 1):
            parts = list(goods[:pos]) + [b] + list(goods[pos:])
            for sep in (',',):
              x = name + '{' + sep.join(parts) + '}'
              evals += 1
              if not x.endswith('"}'):
                continue          # (not OpenMetrics syntax for the parser: a carbon name)
              if strict_om(x) is None and norm(x) is not None and not lookalike(norm(x)):
                fail('c18-openmetrics-malformed-accepted', x=x, normalised=norm(x))
        x = name + '{' + ''.join(goods) + '}'          # pairs without separating commas
        evals += 1
        if k > 1 and strict_om(x) is None and norm(x) is not None:
          fail('c18-openmetrics-malformed-accepted', x=x, normalised=norm(x))
  # a tag given twice: whatever the rule is (the last one wins), both syntaxes must follow it
  for name in ('n', 'm.x', '~n'):
    for k in ('a', 'b', 'name'):
      for (v1, v2) in itertools.permutations(('1', 'v', 'w=1', '"q"'), 2):
        for extra in ((), (('z', '9'),)):
          for pos in range(len(extra) + 1):
            tags = [(k, v1)] + list(extra[:pos]) + [(k, v2)] + list(extra[pos:])
            yc, yo = norm(carbon(name, tags)), norm(openmetrics(name, tags))
            evals += 2
            if yc is not None and yo is not None and yc != yo and not (lookalike(yc) or lookalike(yo)):
              fail('c18-syntax-disagreement', carbon_input=carbon(name, tags), openmetrics_input=openmetrics(name, tags), carbon=yc, openmetrics=yo)
  flat = [f for v in failures.values() for f in v]
  print('BOUNDED-RESULT ' + json.dumps({'evaluations': evals, 'distinct_cases': len(distinct), 'failures': flat,
                                        'failure_kinds': {k: len(v) for k, v in failures.items()}}))


if __name__ == '__main__':
  import os as _os
  sys_path_dir = _os.path.dirname(_os.path.abspath(__file__))
  import sys as _sys
  _sys.path.insert(0, sys_path_dir)
  from _guard import run_guarded
  run_guarded(main, _os.path.basename(__file__))
