"""Bounded cross-check of A-PICKLE (an assumed contract on CPython, not a clause of carbon):
feed the REAL carbon.util.SafeUnpickler.loads pickles that try to reach a global through every
opcode route, for (module, attribute) pairs of the loaded modules, nested inside a well-formed
datapoint list.  A payload may only be rejected (any exception) -- never yield a non-plain object
and never call the planted canary."""
import argparse
import json
import pickle
import pickletools  # noqa: F401
import struct
import sys
import types

from carbon import state, events, instrumentation
state.events = events
state.instrumentation = instrumentation
import carbon.util as U       # noqa: E402

CANARY = {'hit': 0}


def canary(*a, **k):
  CANARY['hit'] += 1
  return 'pwned'


mod = types.ModuleType('canary_mod')
mod.canary = canary
sys.modules['canary_mod'] = mod

PLAIN = (type(None), bool, int, float, str, bytes, bytearray, tuple, list, dict, set, frozenset)


def plain(o, depth=0):
  if depth > 6:
    return True
  if not isinstance(o, PLAIN):
    return False
  if isinstance(o, (tuple, list, set, frozenset)):
    return all(plain(x, depth + 1) for x in o)
  if isinstance(o, dict):
    return all(plain(k, depth + 1) and plain(v, depth + 1) for k, v in o.items())
  return True


def s(x):
  b = x.encode('utf8')
  return b'\x8c' + bytes([len(b)]) + b if len(b) < 256 else b'X' + struct.pack('<I', len(b)) + b


def routes(m, a):
  g = b'c' + m.encode() + b'\n' + a.encode() + b'\n'
  sg = b'\x80\x04' + s(m) + s(a) + b'\x93'
  wrap = lambda body: b'\x80\x02]q\x00(U\x01aK\x01' + body + b'\x86\x86a.'   # [('a', (1, <obj>))]
  out = {
    'GLOBAL': g + b'.',
    'STACK_GLOBAL': sg + b'.',
    'REDUCE': g + b')R.',
    'REDUCE_arg': g + b'(K\x01tR.',
    'INST': b'(i' + m.encode() + b'\n' + a.encode() + b'\n.',
    'OBJ': b'(' + g + b'o.',
    'NEWOBJ': b'\x80\x02' + g + b')\x81.',
    'NEWOBJ_EX': b'\x80\x04' + sg + b')}\x92.',
    'BUILD': b'\x80\x02' + g + b')\x81}b.',
    'nested_GLOBAL': wrap(g),
    'nested_REDUCE': wrap(g + b')R'),
  }
  return out


def main():
  ap = argparse.ArgumentParser()
  ap.add_argument('--tier', default='quick')
  ap.add_argument('--seed', default='0')
  a = ap.parse_args()
  per_module = {'quick': 40, 'thorough': 10 ** 9, 'replay': 15}[a.tier]
  pairs = [('canary_mod', 'canary'), ('os', 'system'), ('builtins', 'eval'), ('builtins', 'exec'),
           ('__builtin__', 'eval'), ('subprocess', 'Popen'), ('copy_reg', '_reconstructor'),
           ('copyreg', '_reconstructor'), ('__builtin__', 'object'), ('builtins', 'object'),
           ('builtins', 'getattr'), ('carbon.util', 'SafeUnpickler')]
  for name, m in sorted(sys.modules.items()):
    if m is None or name.startswith('_frozen'):
      continue
    try:
      attrs = [x for x in dir(m) if not x.startswith('__')]
    except Exception:
      continue
    for x in attrs[:per_module]:
      pairs.append((name, x))
  evals = 0
  distinct = set()
  failures = []
  for (m, at) in pairs:
    for rname, payload in routes(m, at).items():
      evals += 1
      distinct.add((m, at, rname))
      before = CANARY['hit']
      try:
        obj = U.SafeUnpickler.loads(payload)
      except Exception as e:     # rejected: fine, whatever the exception class
        obj = None
        rejected = type(e).__name__
      else:
        rejected = None
      bad = None
      if CANARY['hit'] != before:
        bad = 'canary called'
      elif rejected is None and not plain(obj):
        bad = 'non-plain object %r' % (type(obj),)
      if bad and len(failures) < 5:
        failures.append({'id': 'pickle-global-reached', 'module': m, 'attr': at, 'route': rname,
                         'what': bad, 'payload': repr(payload)})
  # direct sweep of find_class itself over the same pairs
  inst = U.SafeUnpickler.__new__(U.SafeUnpickler) if isinstance(U.SafeUnpickler, type) else U.SafeUnpickler
  for (m, at) in pairs:
    evals += 1
    distinct.add((m, at, 'find_class'))
    try:
      r = U.SafeUnpickler.find_class(inst, m, at) if not isinstance(U.SafeUnpickler.__dict__.get('find_class'), classmethod) \
          else U.SafeUnpickler.find_class(m, at)
    except Exception:
      continue
    if (m, at) not in (('copy_reg', '_reconstructor'), ('__builtin__', 'object')) and len(failures) < 5:
      failures.append({'id': 'find_class-returned-off-list', 'module': m, 'attr': at, 'what': repr(r)})
  print('BOUNDED-RESULT ' + json.dumps({'evaluations': evals, 'distinct_cases': len(distinct),
                                        'pairs': len(pairs), 'failures': failures,
                                        'canary_hits': CANARY['hit']}))


if __name__ == '__main__':
  import os as _os
  sys_path_dir = _os.path.dirname(_os.path.abspath(__file__))
  import sys as _sys
  _sys.path.insert(0, sys_path_dir)
  from _guard import run_guarded
  run_guarded(main, _os.path.basename(__file__))
