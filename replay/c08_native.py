"""Bounded cross-check of the C08 buffer contracts on the REAL aggregator code with a virtual
clock: every stream of (arrival interval offset | flush tick) events up to a length bound, for
small MAX_AGGREGATION_INTERVALS.  Values are distinct powers of two and the rule function is
`sum`, so the set of values inside every emitted aggregate can be decoded exactly.
Clauses: an emission contains exactly the values buffered for its interval; every value received
since the interval was last emitted is in the next emission of that interval (none is dropped
unemitted while the interval is within the horizon / before it was emitted at least once);
re-emission only after new data; at most MAX+2 intervals after a flush (also when idle intervals age
out in the same flush that emits fresh ones); idle series released;
process() feeds every matching rule once and forwards unchanged exactly once under FORWARD_ALL."""
import argparse
import itertools
import json

from carbon import state, events, instrumentation
state.events = events
state.instrumentation = instrumentation
from carbon.conf import settings      # noqa: E402
import carbon.aggregator.buffers as B   # noqa: E402

FREQ = 10


class Clock(object):
  now = 1000

  def time(self):
    return self.now


def run_stream(stream, max_iv):
  settings['MAX_AGGREGATION_INTERVALS'] = max_iv
  settings['WRITE_BACK_FREQUENCY'] = None
  clock = Clock()
  clock.now = 1000
  B.time = clock
  B.BufferManager.buffers.clear()
  emitted = []
  events.metricGenerated.handlers[:] = [lambda m, dp: emitted.append(dp)]
  buf = B.BufferManager.get_buffer('agg.x')
  buf.aggregation_frequency = FREQ
  buf.aggregation_func = sum
  buf.configured = True
  nxt = [1]
  received = {}        # interval -> set of values received (since the buffer for it was created)
  pending = {}         # interval -> values received since its last emission
  ever = {}            # interval -> every value ever received for it
  ever_emitted = set()
  for ev in stream:
    if ev == 'tick':
      clock.now += FREQ
      del emitted[:]
      if 'agg.x' not in B.BufferManager.buffers:
        continue
      buf.compute_value()
      cur = clock.now - clock.now % FREQ
      got = {}
      for (iv, val) in emitted:
        if iv in got:
          return 'interval %d emitted twice in one flush' % iv
        got[iv] = val
      for iv, val in got.items():
        vals = set(1 << i for i in range(64) if int(val) >> i & 1)
        if iv % FREQ != 0:
          return 'emitted interval %r is not aligned' % iv
        if not pending.get(iv):
          return 'interval %d re-emitted without new data' % iv
        if not (pending[iv] <= vals):
          return 'interval %d emitted %r without the values %r received since its last emission' % (iv, sorted(vals), sorted(pending[iv] - vals))
        if vals != received.get(iv, set()):
          return 'interval %d emitted %r, not the values %r received since its buffer was created' % (iv, sorted(vals), sorted(received.get(iv, set())))
        if iv >= cur - max_iv * FREQ and vals != ever.get(iv, set()):
          return 'interval %d is within the retention horizon (>= %d) but was emitted with %r, not with all the values %r received for it' % (
            iv, cur - max_iv * FREQ, sorted(vals), sorted(ever.get(iv, set())))
        pending[iv] = set()
        ever_emitted.add(iv)
      for iv, p in pending.items():
        if p and iv not in got:
          return 'values %r received for interval %d were not emitted by the flush (dropped or skipped)' % (sorted(p), iv)
      # buffers dropped must have been emitted
      for iv in list(received):
        if iv not in buf.interval_buffers:
          del received[iv]
      if len(buf.interval_buffers) > max_iv + 2:
        return '%d intervals buffered after a flush (limit %d)' % (len(buf.interval_buffers), max_iv + 2)
      if not buf.interval_buffers and 'agg.x' in B.BufferManager.buffers:
        return 'idle series not released'
    else:
      if 'agg.x' not in B.BufferManager.buffers:
        buf = B.BufferManager.get_buffer('agg.x')
        buf.aggregation_frequency = FREQ
        buf.aggregation_func = sum
        buf.configured = True
      ts = clock.now - ev * FREQ + 3
      v = 1 << nxt[0]
      nxt[0] += 1
      buf.input((ts, v))
      iv = ts - ts % FREQ
      received.setdefault(iv, set()).add(v)
      pending.setdefault(iv, set()).add(v)
      ever.setdefault(iv, set()).add(v)
  return None


RULES = [('<env>.requests.total', 'sum', '<env>.requests.total'),        # feeds an aggregate with the input's own name
         ('all.requests.total', 'sum', '*.requests.total'),
         ('<env>.requests.all', 'avg', '<env>.requests.<kind>'),
         ('deep.<env>', 'max', '<env>.<<rest>>'),
         ('prod.requests.total', 'min', 'prod.requests.*')]
NAMES = ['prod.requests.total', 'dev.requests.total', 'prod.requests.errors', 'prod.cpu', 'unmatched', 'all.requests.total']


def ref_aggregate(rule, name):
  """independent reading of a rule: whole-name match, <f> one dot-free segment, <<f>> anything, * within a segment"""
  import re
  (out, method, inp) = rule
  parts = []
  for seg in inp.split('.'):
    if seg.startswith('<<') and seg.endswith('>>'):
      parts.append('(?P<%s>.+?)' % seg[2:-2])
    elif seg.startswith('<') and seg.endswith('>'):
      parts.append('(?P<%s>[^.]+)' % seg[1:-1])
    elif seg == '*':
      parts.append('[^.]+')
    else:
      parts.append(re.escape(seg).replace('\\*', '[^.]*'))
  m = re.fullmatch('\\.'.join(parts), name)
  if not m:
    return None
  res = out
  for k, v in m.groupdict().items():
    res = res.replace('<%s>' % k, v)
  return res


def sweep_processor():
  """process() on the real AggregationProcessor: every ordered selection of 1..3 of 5 rules x
  FORWARD_ALL on/off x name-lookup cache on/off x 6 names: every matching rule's buffer gets the
  datapoint once, and the raw datapoint is forwarded exactly once iff FORWARD_ALL is on and no
  matching rule produced an aggregate of the same name"""
  from carbon.aggregator.rules import RuleManager, AggregationRule
  from carbon.aggregator.processor import AggregationProcessor
  import carbon.aggregator.rules as R
  evals = 0
  fails = []
  settings['LOG_AGGREGATOR_MISSES'] = False
  for cache_on in (True, False):
    settings['CACHE_METRIC_NAMES_MAX'] = 1000 if cache_on else 0
    settings['CACHE_METRIC_NAMES_TTL'] = 0
    for n in (1, 2, 3):
      for sel in itertools.permutations(range(len(RULES)), n):
        rules = [RULES[i] for i in sel]
        for fwd in (True, False):
          settings['FORWARD_ALL'] = fwd
          RuleManager.rules = [AggregationRule(inp, out, method, 10) for (out, method, inp) in rules]
          for name in NAMES:
            for rep in (0, 1):          # second pass exercises the memo
              B.BufferManager.buffers.clear()
              fed = []
              real_input = B.MetricBuffer.input

              def rec(self, dp, _fed=fed):
                _fed.append((self.metric_path, dp))
              B.MetricBuffer.input = rec
              try:
                out = list(AggregationProcessor().process(name, (1000, 1.5)))
              finally:
                B.MetricBuffer.input = real_input
              evals += 1
              aggs = [a for a in (ref_aggregate(r, name) for r in rules) if a is not None]
              want_fed = [(a, (1000, 1.5)) for a in aggs]
              want_out = [(name, (1000, 1.5))] if (fwd and name not in aggs) else []
              if fed != want_fed:
                fails.append({'id': 'processor-feeds-every-matching-rule', 'rules': rules, 'FORWARD_ALL': fwd, 'name': name,
                              'cache': cache_on, 'fed': repr(fed), 'expected': repr(want_fed)})
              if out != want_out:
                fails.append({'id': 'processor-forwarding', 'rules': rules, 'FORWARD_ALL': fwd, 'name': name, 'cache': cache_on,
                              'forwarded': repr(out), 'expected': repr(want_out)})
              if len(fails) >= 2:
                return evals, fails
  return evals, fails


def main():
  ap = argparse.ArgumentParser()
  ap.add_argument('--len', type=int, default=6)
  ap.add_argument('--seed', default='0')
  a = ap.parse_args()
  alphabet = ['tick', 0, 1, 2, 3, 4, 6]
  evals = 0
  fails = []
  for max_iv in (0, 1, 2):
    for n in range(1, a.len + 1):
      for stream in itertools.product(alphabet, repeat=n):
        if stream[-1] != 'tick':
          continue
        evals += 1
        r = run_stream(stream, max_iv)
        if r:
          fails.append({'id': 'aggregator-stream', 'MAX_AGGREGATION_INTERVALS': max_iv, 'stream': list(stream), 'what': r})
          break
      if fails:
        break
    if len(fails) >= 2:
      break
  # longer, structured streams: more than MAX+2 intervals opened in every order, a flush, one more
  # datapoint for each of them in turn, a flush
  for max_iv in (0, 1, 2):
    k = max_iv + 3
    for order in itertools.permutations(range(k)):
      for again in range(k):
        stream = list(order) + ['tick', again + 1, 'tick', again + 2, 'tick']
        evals += 1
        r = run_stream(stream, max_iv)
        if r and not fails:
          fails.append({'id': 'aggregator-stream', 'MAX_AGGREGATION_INTERVALS': max_iv, 'stream': stream, 'what': r})
  # x idle intervals that age out in the very flush in which s fresh ones are emitted (more than
  # MAX+2 buffered when that flush starts, at most MAX+2 once the idle ones are gone), then one more
  # datapoint for each fresh interval in turn while it is still within the horizon, and a flush
  for max_iv in (1, 2, 3):
    for x in range(1, max_iv + 5):
      for s_ in range(1, max_iv + 1):
        for late in range(s_):
          stream = list(range(x)) + ['tick'] + ['tick'] * max_iv + list(range(s_)) + ['tick', late + 1, 'tick']
          evals += 1
          r = run_stream(stream, max_iv)
          if r and not fails:
            fails.append({'id': 'aggregator-stream', 'MAX_AGGREGATION_INTERVALS': max_iv, 'stream': stream, 'what': r})
  pe, pf = sweep_processor()
  evals += pe
  fails += pf
  print('BOUNDED-RESULT ' + json.dumps({'evaluations': evals, 'distinct_cases': evals, 'failures': fails[:4], 'max_len': a.len}))


if __name__ == '__main__':
  import os as _os
  sys_path_dir = _os.path.dirname(_os.path.abspath(__file__))
  import sys as _sys
  _sys.path.insert(0, sys_path_dir)
  from _guard import run_guarded
  run_guarded(main, _os.path.basename(__file__))
