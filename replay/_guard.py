"""Shared safety net of the native scripts: an exception that escapes from the REAL carbon code while
a bounded sweep is driving it is a finding of that sweep (the sweep passes on the unchanged tree, so
the exception comes with the change); an exception raised by the harness itself is a crash of the
checker and stays one (it must never look like a violation)."""
import json
import sys
import traceback


def run_guarded(main, script):
  try:
    return main()
  except SystemExit:
    raise
  except Exception as e:
    tb = traceback.extract_tb(sys.exc_info()[2])
    inner = tb[-1].filename if tb else ''
    if '/carbon/' in inner.replace('\\', '/') and '/verif/' not in inner:
      text = ''.join(traceback.format_exception(*sys.exc_info()))[-1800:]
      print('BOUNDED-RESULT ' + json.dumps({'evaluations': 1, 'distinct_cases': 1, 'failures': [
        {'id': 'real-code-raised', 'script': script, 'escaped': repr(e), 'raised_in': '%s:%s' % (inner, tb[-1].lineno),
         'traceback': text}]}))
      return 0
    raise
