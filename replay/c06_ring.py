"""Bounded checks for C06 on the REAL carbon.hashing.ConsistentHashRing against the pinned
specification /verif/spec/ring_spec.py (written from the published algorithm):
  compat   ring contents and the owner of every one of the 65536 positions agree with the spec,
           FNV known-answer vectors, preference lists for sample keys
  history  after the same sequence of leaves and rejoins the ring equals the published algorithm's, and
           no position is held twice
  s1       adding / removing one node only inserts / deletes that node in every preference order
  s3       after add/remove sequences the ring equals a freshly built one (known finding: not when
           replica positions collide)"""
import argparse
import bisect
import itertools
import json
import random
import sys
import os

sys.path.insert(0, os.path.join(os.path.dirname(os.path.abspath(__file__)), '..', 'spec'))
import ring_spec as S                      # noqa: E402
from carbon.hashing import ConsistentHashRing, fnv32a, carbonHash   # noqa: E402

NODES = [('10.0.0.1', 'a'), ('10.0.0.4', None), ('10.0.0.1', 'b'), ('10.0.0.2', 'a'), ('10.0.0.3', 'c'), ('10.0.0.2', 'b'),
         ('10.0.0.5', 'e'), ('10.0.0.6', None)]       # (destinations given as plain host:port have instance None)
KEYS = ['a.b.c', 'x', 'servers.web01.cpu', 'servers.web02.cpu', 'm7', 'hello.world', 'foo.bar.baz', 'q', 'é.ü']


def owners(ring_entries):
  out = []
  for p in range(65536):
    out.append(ring_entries[bisect.bisect_left(ring_entries, (p, ())) % len(ring_entries)][1] if ring_entries else None)
  return out


def pref_at(entries, p, n):
  if not entries:
    return []
  start = bisect.bisect_left(entries, (p, ())) % len(entries)
  out = []
  for k in range(len(entries)):
    nd = entries[(start + k) % len(entries)][1]
    if nd not in out:
      out.append(nd)
      if len(out) == n:
        break
  return out


def has_bumps(nodes, ht):
  seen = set()
  for nd in nodes:
    for i in range(100):
      p = S.position(S.replica_key(nd, i, ht), ht)
      if p in seen:
        return True
      seen.add(p)
  return False


def main():
  ap = argparse.ArgumentParser()
  ap.add_argument('--tier', default='quick')
  ap.add_argument('--seed', default='0')
  ap.add_argument('--witness', action='store_true')
  a = ap.parse_args()
  rnd = random.Random(int(a.seed))
  fails = []
  evals = 0
  distinct = set()

  def fail(fid, **kw):
    if len([f for f in fails if f['id'] == fid]) < 2:
      d = {'id': fid}
      d.update(kw)
      fails.append(d)
  if a.witness:
    # recorded finding: carbon_ch, 7 nodes on 4 servers, remove one
    ht = 'carbon_ch'
    res = None
    for n in range(3, 9):
      nodes = NODES[:n]
      if not has_bumps(nodes, ht):
        continue
      for rm in nodes:
        r = ConsistentHashRing(nodes, hash_type=ht)
        r.remove_node(rm)
        fresh = ConsistentHashRing([x for x in nodes if x != rm], hash_type=ht)
        if r.ring != fresh.ring:
          diff = sum(1 for x, y in zip(owners(r.ring), owners(fresh.ring)) if x != y)
          res = {'still_fails': True, 'hash_type': ht, 'nodes': nodes, 'removed': rm, 'positions_routed_differently': diff}
          break
      if res:
        break
    print('WITNESS-RESULT ' + json.dumps(res or {'still_fails': False}))
    return
  # known-answer vectors for FNV-1a 32
  for data, want in ((b'', 0x811c9dc5), (b'a', 0xe40c292c), (b'foobar', 0xbf9cf968)):
    evals += 1
    if fnv32a(data) != want or S.fnv32a(data) != want:
      fail('c06-fnv-known-answer', data=repr(data), got=hex(fnv32a(data)), want=hex(want))
  sizes = (1, 2, 3, 5) if a.tier == 'quick' else (1, 2, 3, 4, 5, 6, 7, 8)
  for ht in ('carbon_ch', 'fnv1a_ch'):
    for n in sizes:
      for trial in range(2 if a.tier == 'quick' else 5):
        # the destination list in its given order, reversed (a later destination that sorts lower
        # meets the collisions the other way round), and random orders
        nodes = NODES[:n] if trial == 0 else list(reversed(NODES[:n])) if trial == 1 else rnd.sample(NODES, n)
        if trial == 1 and n == 1:
          continue
        real = ConsistentHashRing(nodes, hash_type=ht)
        spec = S.build_ring(nodes, ht)
        evals += 1
        distinct.add((ht, tuple(nodes)))
        if real.ring != spec:
          fail('c06-compat-ring', hash_type=ht, nodes=nodes, first_difference=repr(next(((x, y) for x, y in zip(real.ring, spec) if x != y), ('lengths', len(real.ring), len(spec)))))
          continue
        # the real lookup at EVERY ring position: get_node with the position function pinned to p
        pos_box = [0]
        real.compute_ring_position = lambda key, _b=pos_box: _b[0]
        evals += 65536
        for p in range(65536):
          pos_box[0] = p
          if real.get_node('k') != S.lookup_at(spec, p):
            fail('c06-compat-lookup', hash_type=ht, nodes=nodes, position=p, got=repr(real.get_node('k')), want=repr(S.lookup_at(spec, p)))
            break
        # ... and the preference order (get_nodes) at, just before and just after every 7th entry
        import bisect as _bis
        nn = len(set(nodes))
        for e in spec[::7]:
          for p in (e[0] - 1, e[0], e[0] + 1):
            if not (0 <= p < 65536):
              continue
            pos_box[0] = p
            start = _bis.bisect_left(spec, (p, ())) % len(spec)
            want = []
            for k in range(len(spec)):
              nd = spec[(start + k) % len(spec)][1]
              if nd not in want:
                want.append(nd)
            evals += 1
            got = list(real.get_nodes('k'))
            if got != want[:nn]:
              fail('c06-compat-get_nodes', hash_type=ht, nodes=nodes, position=p, got=repr(got), want=repr(want))
              break
        del real.compute_ring_position
        for k in KEYS:
          evals += 1
          if list(real.get_nodes(k)) != S.lookup_all(spec, k, ht, len(set(nodes))):
            fail('c06-compat-get_nodes', hash_type=ht, nodes=nodes, key=k, got=repr(list(real.get_nodes(k))))
          if real.get_node(k) != S.lookup_all(spec, k, ht, len(set(nodes)))[0]:
            fail('c06-compat-get_node', hash_type=ht, nodes=nodes, key=k)
          if carbonHash(k, ht) != S.position(k, ht):
            fail('c06-compat-position', hash_type=ht, key=k)
        # s1: remove each node / add one more node: preference orders only lose / gain that node
        others = [x for x in NODES if x not in nodes]
        for change in ([('remove', x) for x in nodes] if n > 1 else []) + ([('add', others[0])] if others else []):
          r2 = ConsistentHashRing(nodes, hash_type=ht)
          if change[0] == 'remove':
            r2.remove_node(change[1])
          else:
            r2.add_node(change[1])
          evals += 1
          if set(e[1] for e in r2.ring) != set(r2.nodes) or (change[0] == 'remove' and change[1] in r2.nodes):
            fail('c06-ring-entries-are-the-live-nodes', hash_type=ht, nodes=nodes, change=change,
                 ring_nodes=repr(sorted(set(e[1] for e in r2.ring))), live=repr(sorted(r2.nodes)))
          step = 257 if a.tier == 'quick' else 16
          for p in range(0, 65536, step):
            evals += 1
            before = [x for x in pref_at(real.ring, p, n + 1) if x != change[1]]
            after = [x for x in pref_at(r2.ring, p, n + 1) if x != change[1]]
            if before != after:
              fail('c06-minimal-disruption', hash_type=ht, nodes=nodes, change=change, position=p, before=repr(before), after=repr(after))
              break
        # the same history on the real ring and on the published algorithm: a destination leaves and
        # rejoins (every node in turn), then a second one does -- ring contents, no position twice
        for first in (nodes if n > 1 else []):
          rh = ConsistentHashRing(nodes, hash_type=ht)
          sh = S.build_ring(nodes, ht)
          hist = []
          for x in [first] + [y for y in nodes if y != first][:1]:
            for op in ('remove', 'add'):
              if op == 'remove':
                rh.remove_node(x)
                S.remove_node(sh, x)
              else:
                rh.add_node(x)
                S.add_node(sh, x, ht)
              hist.append([op, x])
              evals += 1
              pos = [e[0] for e in rh.ring]
              if pos != sorted(set(pos)):
                fail('c06-ring-positions-unique', hash_type=ht, start=nodes, ops=list(hist),
                     duplicate_positions=sorted(set(q for q in pos if pos.count(q) > 1))[:5])
              if rh.ring != sh:
                fail('c06-compat-history', hash_type=ht, start=nodes, ops=list(hist),
                     first_difference=repr(next(((u, v) for u, v in zip(rh.ring, sh) if u != v), ('lengths', len(rh.ring), len(sh)))),
                     what='after the same joins and leaves the ring differs from the published algorithm')
        # s3: history independence
        ops_n = 2 if a.tier == 'quick' else 5
        live = list(nodes)
        r3 = ConsistentHashRing(nodes, hash_type=ht)
        hist = []
        for _ in range(ops_n):
          if len(live) > 1 and rnd.random() < 0.6:
            x = rnd.choice(live)
            live.remove(x)
            r3.remove_node(x)
            hist.append(['remove', x])
          else:
            cand = [x for x in NODES if x not in live]
            if not cand:
              continue
            x = rnd.choice(cand)
            live.append(x)
            r3.add_node(x)
            hist.append(['add', x])
        fresh = ConsistentHashRing(live, hash_type=ht)
        evals += 1
        if set(e[1] for e in r3.ring) != set(live):
          fail('c06-ring-entries-are-the-live-nodes', hash_type=ht, start=nodes, ops=hist,
               ring_nodes=repr(sorted(set(e[1] for e in r3.ring))), live=repr(sorted(live)))
        if r3.nodes != fresh.nodes:
          fail('c06-history', hash_type=ht, start=nodes, ops=hist, live=live, what='node sets differ')
        elif r3.ring != fresh.ring:
          # the property is about routing: compare the owner of every position and preference orders
          diff = sum(1 for x, y in zip(owners(r3.ring), owners(fresh.ring)) if x != y)
          diff += sum(1 for p in range(0, 65536, 97) if pref_at(r3.ring, p, len(live)) != pref_at(fresh.ring, p, len(live)))
          if diff:
            bumped = has_bumps(nodes + [h[1] for h in hist if h[0] == 'add'], ht)
            fail('c06-history-collision-bump' if bumped else 'c06-history',
                 hash_type=ht, start=nodes, ops=hist, live=live, positions_routed_differently=diff)
  print('BOUNDED-RESULT ' + json.dumps({'evaluations': evals, 'distinct_cases': len(distinct), 'failures': fails}, default=str))


if __name__ == '__main__':
  import os as _os
  sys_path_dir = _os.path.dirname(_os.path.abspath(__file__))
  import sys as _sys
  _sys.path.insert(0, sys_path_dir)
  from _guard import run_guarded
  run_guarded(main, _os.path.basename(__file__))
