"""Bounded check of the relay as a whole (C07: re-routing instead of loss, exactly once): the REAL
carbon.client.CarbonClientManager with REAL client factories / protocols, a REAL
ConsistentHashingRouter (replication factor 1) and the relay pipeline wired as carbon.service
does (metricGenerated -> run_pipeline_generated -> RelayProcessor -> manager.sendDatapoint), on a
task.Clock reactor with fake connectors and transports.

Every sequence of events up to a length bound (plus seeded random longer ones) over
   s<k>  a datapoint for series k arrives (a small pool of names, so names repeat)
   c<i>  destination i accepts the connection       f<i>  a connection attempt to i fails
   l<i>  the connection to i is lost                t     one timer round
for 2 and 3 destinations, static and dynamic router (retry limits 1 and 2), both client protocols
and batch sizes 1 / 500.  At the end every destination is connected and all timers are fired.

Clauses (ids):
  manager-conservation   every accepted datapoint was written to exactly one destination, or is
                         still queued (send queue or the no-destination buffer), or was counted in
                         fullQueueDrops -- none lost, none written twice
  manager-live-target    a datapoint is only ever queued for a destination that exists
  manager-no_raise       no exception escapes the real code
"""
import argparse
import itertools
import json
import multiprocessing
import random
import sys

from carbon import state, events, instrumentation
state.events = events
state.instrumentation = instrumentation
from carbon.conf import settings      # noqa: E402

NAMES = ['servers.web01.cpu', 'servers.web02.cpu', 'app.requests', 'm7', 'a.b.c', 'x']
DESTS = [('127.0.0.1', 2004, 'a'), ('127.0.0.2', 2004, 'b'), ('127.0.0.3', 2004, 'c')]


class Fail(Exception):
  def __init__(self, fid, what):
    Exception.__init__(self, what)
    self.fid, self.what = fid, what


class Transport(object):
  def __init__(self):
    self.written = []

  def registerProducer(self, *a, **k):
    pass

  def unregisterProducer(self):
    pass

  def loseConnection(self):
    pass

  def write(self, data):
    self.written.append(data)

  def writeSequence(self, seq):
    self.written.extend(seq)


class Connector(object):
  state = 'connecting'

  def __init__(self, host, port, factory):
    self.host, self.port, self.factory = host, port, factory

  def connect(self):
    self.state = 'connecting'

  def stopConnecting(self):
    self.state = 'disconnected'

  def disconnect(self):
    self.state = 'disconnected'

  def getDestination(self):
    return None


class Reason(object):
  value = None

  def getErrorMessage(self):
    return 'down'


def configure(cfg):
  settings.MAX_QUEUE_SIZE = cfg['mx']
  settings.QUEUE_LOW_WATERMARK_PCT = 0.8
  settings.MAX_QUEUE_SIZE_HARD_PCT = 1.25
  settings.USE_FLOW_CONTROL = False
  settings.MAX_DATAPOINTS_PER_MESSAGE = cfg['per']
  settings.TIME_TO_DEFER_SENDING = 0.0001
  settings.USE_RATIO_RESET = False
  settings.DESTINATION_POOL_REPLICAS = False
  settings.DESTINATION_PROTOCOL = cfg['proto']
  settings.DESTINATION_TRANSPORT = 'none'
  settings.DYNAMIC_ROUTER = cfg['dyn']
  settings.DYNAMIC_ROUTER_MAX_RETRIES = cfg['retries']
  settings.TCP_KEEPALIVE = False
  settings.REPLICATION_FACTOR = 1
  settings.DIVERSE_REPLICAS = False
  settings.ROUTER_HASH_TYPE = 'carbon_ch'
  settings.TAG_RELAY_NORMALIZED = False
  for m in [k for k in sys.modules if k == 'carbon.client']:
    del sys.modules[m]
  import carbon.client as C
  return C


def run_sequence(C, cfg, seq):
  from twisted.internet.task import Clock
  from carbon.routers import ConsistentHashingRouter
  import carbon.pipeline as PL
  clock = Clock()
  connectors = {}

  def connectTCP(host, port, factory, *a, **k):
    c = Connector(host, port, factory)
    connectors[factory.destination] = c
    return c
  clock.connectTCP = connectTCP
  C.reactor = clock
  instrumentation.stats.clear()
  for ev in (events.cacheFull, events.cacheSpaceAvailable, events.pauseReceivingMetrics, events.resumeReceivingMetrics, events.metricGenerated):
    ev.handlers[:] = []
  dests = DESTS[:cfg['n']]
  router = ConsistentHashingRouter(settings)
  manager = C.CarbonClientManager(router)
  manager.running = 1
  state.client_manager = manager
  state.pipeline_processors_generated = [C.RelayProcessor()]
  events.metricGenerated.addHandler(PL.run_pipeline_generated)
  for f in manager.client_factories.values():
    f.clock = clock
  for d in dests:
    manager.startClient(d)
    manager.client_factories[d].clock = clock
  written = {}        # datapoint id -> list of destinations it was written to
  protos = {}
  accepted = []

  def wrap(p, d):
    real = p._sendDatapointsNow

    def sending(dps):
      dps = list(dps)
      for (m, dp) in dps:
        written.setdefault(dp[1], []).append(d)
      real(dps)
    p._sendDatapointsNow = sending

  def connected(d):
    f = manager.client_factories[d]
    p = protos.get(d)
    return p is not None and p.connected and f.connectedProtocol is p

  def check_targets(where):
    for d, f in manager.client_factories.items():
      if d is not None and d not in dests and len(f.queue):
        raise Fail('manager-live-target', '%s: datapoints queued for unknown destination %r' % (where, d))

  def step(ev):
    kind, arg = ev[0], int(ev[1:]) if len(ev) > 1 else None
    if kind == 's':
      vid = float(len(accepted) + 1)
      name = NAMES[arg]
      accepted.append((name, vid))
      manager.sendDatapoint(name, (int(vid), vid))
    elif kind == 'c':
      d = dests[arg]
      if connected(d):
        return False
      f = manager.client_factories[d]
      p = f.buildProtocol(None)
      p.transport = Transport()
      wrap(p, d)
      protos[d] = p
      connectors[d].state = 'connected'
      p.connectionMade()
    elif kind == 'l':
      d = dests[arg]
      if not connected(d):
        return False
      f = manager.client_factories[d]
      p = protos[d]
      p.connectionLost(Reason())
      connectors[d].state = 'disconnected'
      f.clientConnectionLost(connectors[d], Reason())
    elif kind == 'f':
      d = dests[arg]
      if connected(d):
        return False
      f = manager.client_factories[d]
      connectors[d].state = 'disconnected'
      f.clientConnectionFailed(connectors[d], Reason())
    elif kind == 't':
      clock.advance(0.001)
    check_targets('after event %r' % ev)
    return True

  try:
    for ev in seq:
      if not step(ev):
        return 'skip'
    # quiescence: every destination comes (back) up, all timers fire
    for _ in range(3):
      for i, d in enumerate(dests):
        if not connected(d):
          step('c%d' % i)
      for _ in range(40):
        clock.advance(1.0)
    queued = {}
    for d, f in manager.client_factories.items():
      for (m, dp) in f.queue:
        queued.setdefault(dp[1], []).append(d)
    drops = sum(v for k, v in instrumentation.stats.items() if 'fullQueueDrops' in k)
    lost = [a for a in accepted if a[1] not in written and a[1] not in queued]
    twice = [(a, written[a[1]]) for a in accepted if len(written.get(a[1], [])) + len(queued.get(a[1], [])) > 1]
    if len(lost) > drops:
      raise Fail('manager-conservation', '%d accepted datapoint(s) were neither written to a destination nor left in a queue, but only %d drops were counted; e.g. %r of series %r (written so far: %r)' % (
        len(lost), drops, lost[0][1], lost[0][0], {k: v for k, v in sorted(written.items())}))
    if twice:
      raise Fail('manager-conservation', 'datapoint %r of series %r was written / queued more than once: written to %r, queued for %r' % (
        twice[0][0][1], twice[0][0][0], twice[0][1], queued.get(twice[0][0][1])))
  except Fail as e:
    return (e.fid, e.what)
  except Exception as e:
    import traceback
    tb = traceback.extract_tb(e.__traceback__)
    return ('manager-no_raise', 'the relay code raised %r at %s:%s' % (e, tb[-1].filename.split('/')[-1], tb[-1].lineno))
  return None


def grid(thorough):
  out = []
  for proto in ('pickle', 'line'):
    for n in (2, 3):
      for (dyn, retries) in ((True, 1), (False, 1)) + (((True, 2),) if thorough else ()):
        for per in (1, 500):
          if proto == 'line' and per == 1 and not thorough:
            continue
          out.append({'proto': proto, 'n': n, 'dyn': dyn, 'retries': retries, 'per': per, 'mx': 50})
  return out


def work(job):
  cfg, maxlen, nrandom, seed, only = job
  C = configure(cfg)
  n = cfg['n']
  # two series per run are enough for the exhaustive part (they may or may not share a destination)
  alphabet = ['s0', 's1', 't'] + ['%s%d' % (k, i) for k in 'cfl' for i in range(n)]
  evals, fails = 0, {}

  def record(seq, r):
    if r and r != 'skip' and (only is None or r[0] in only) and r[0] not in fails:
      fails[r[0]] = {'id': r[0], 'config': cfg, 'events': list(seq), 'what': r[1]}
  for ln in range(1, maxlen + 1):
    for seq in itertools.product(alphabet, repeat=ln):
      if not any(e[0] == 's' for e in seq):
        continue
      r = run_sequence(C, cfg, seq)
      if r == 'skip':
        continue
      evals += 1
      record(seq, r)
  rnd = random.Random('%s|%s' % (seed, sorted(cfg.items())))
  pool = ['s%d' % k for k in range(len(NAMES))] * 3 + ['t', 't'] + ['%s%d' % (k, i) for k in 'cffl' for i in range(n)]
  for _ in range(nrandom):
    kept = []
    for ev in (rnd.choice(pool) for _ in range(40)):
      if run_sequence(C, cfg, kept + [ev]) != 'skip':
        kept.append(ev)
      if len(kept) >= 16:
        break
    r = run_sequence(C, cfg, kept)
    evals += 1
    record(kept, r)
  return evals, list(fails.values())


def main():
  ap = argparse.ArgumentParser()
  ap.add_argument('--len', type=int, default=4)
  ap.add_argument('--random', type=int, default=40)
  ap.add_argument('--thorough', action='store_true')
  ap.add_argument('--only', default='')
  ap.add_argument('--seed', default='0')
  a = ap.parse_args()
  only = set(x for x in a.only.split(',') if x) or None
  jobs = [(cfg, a.len, a.random, a.seed, only) for cfg in grid(a.thorough)]
  with multiprocessing.Pool(16) as pool:
    res = pool.map(work, jobs, chunksize=1)
  evals = sum(r[0] for r in res)
  fails = {}
  for r in res:
    for f in r[1]:
      fails.setdefault(f['id'], f)
  print('BOUNDED-RESULT ' + json.dumps({'evaluations': evals, 'distinct_cases': evals, 'failures': list(fails.values())[:5], 'max_len': a.len,
                                        'configurations': len(jobs), 'random_sequences_per_configuration': a.random}))


if __name__ == '__main__':
  import os as _os
  sys_path_dir = _os.path.dirname(_os.path.abspath(__file__))
  import sys as _sys
  _sys.path.insert(0, sys_path_dir)
  from _guard import run_guarded
  run_guarded(main, _os.path.basename(__file__))
