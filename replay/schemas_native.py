"""Bounded cross-check for C19 on the REAL carbon.storage loaders and the REAL create phase of
carbon.writer.writeCachedDataPoints: seeded random storage-schemas.conf / storage-aggregation.conf
files (1..6 sections in random order, overlapping patterns, sections without pattern or without
retentions, every unit suffix, multi-archive retentions, unknown keys) x metric names matching
zero, one or several sections.  The (archives, xFilesFactor, aggregationMethod) handed to
database.create() is compared with an independent reading of the two files."""
import argparse
import json
import os
import random
import re
import shutil
import tempfile

from carbon import state, events, instrumentation
state.events = events
state.instrumentation = instrumentation
from carbon.conf import settings      # noqa: E402
_d = tempfile.mkdtemp(prefix='schemas_native_')
settings.CONF_DIR = _d
open(os.path.join(_d, 'storage-schemas.conf'), 'w').write("[all]\npattern = .*\nretentions = 60:10\n")
open(os.path.join(_d, 'storage-aggregation.conf'), 'w').write("")
settings.MAX_CACHE_SIZE = float('inf')
settings.CACHE_SIZE_HARD_MAX = float('inf')
settings.CACHE_SIZE_LOW_WATERMARK = float('inf')
settings.ENABLE_TAGS = False
settings.LOG_UPDATES = False
settings.LOG_CREATES = False
import carbon.writer as W              # noqa: E402
import carbon.cache as C               # noqa: E402
import carbon.storage as S             # noqa: E402
shutil.rmtree(_d, ignore_errors=True)

UNITS = {'s': 1, 'm': 60, 'h': 3600, 'd': 86400, 'w': 604800, 'y': 31536000}
PATTERNS = ['^carbon\\.', '^servers\\.', 'cpu', '\\.load$', '^a\\.b', '.*', '^$', 'web0[12]', '^servers\\.web01\\.', 'x{2}']
NAMES = ['carbon.agents.x.cpu', 'servers.web01.cpu', 'servers.web02.load', 'a.b', 'a.b.c', 'xx', 'z', 'servers.db.mem', 'load', 'web03.cpu.load']
METHODS = ['average', 'sum', 'last', 'max', 'min']


def gen_retention(rnd):
  prec_n = rnd.choice([1, 10, 60, 5, 15])
  prec_u = rnd.choice(['', 's', 'm', 'h']) if prec_n < 60 else rnd.choice(['', 's'])
  prec = prec_n * UNITS[prec_u or 's']
  if rnd.random() < 0.35:
    pts_n = rnd.choice([1, 10, 1440, 10080, 525600])
    return '%d%s:%d' % (prec_n, prec_u, pts_n), (prec, pts_n)
  dur_n = rnd.choice([1, 2, 7, 30, 90, 5])
  dur_u = rnd.choice(['s', 'm', 'h', 'd', 'w', 'y'])
  dur = dur_n * UNITS[dur_u]
  return '%d%s:%d%s' % (prec_n, prec_u, dur_n, dur_u), (prec, dur // prec)


class DB(object):
  aggregationMethods = METHODS

  def __init__(self):
    self.creates = []

  def exists(self, m):
    return False

  def create(self, m, archives, xff, agg):
    self.creates.append((m, [tuple(a) for a in archives], xff, agg))

  def write(self, m, dps):
    pass

  def validateArchiveList(self, archives):
    pass


class Quiet(object):
  def err(self, *a, **k):
    pass
  msg = creates = updates = cache = err


def main():
  ap = argparse.ArgumentParser()
  ap.add_argument('--n', type=int, default=300)
  ap.add_argument('--seed', default='0')
  a = ap.parse_args()
  rnd = random.Random('c19|%s' % a.seed)
  evals = 0
  fails = {}

  def fail(fid, **kw):
    fails.setdefault(fid, dict(id=fid, **kw))
  tmp = tempfile.mkdtemp(prefix='c19conf')
  S.log = Quiet()
  W.log = Quiet()
  W.CREATE_BUCKET = None
  W.UPDATE_BUCKET = None
  try:
    for fileno in range(a.n):
      # storage-schemas.conf
      secs = []
      for i in range(rnd.randint(1, 6)):
        sec = {'name': rnd.choice(['sec%d' % i, 'sec%d' % i, 'default', 'carbon', 'everything_%d' % i])}
        if any(x['name'] == sec['name'] for x in secs):
          sec['name'] = 'sec%d' % i            # (ConfigParser rejects a repeated section header)
        if rnd.random() < 0.85:
          sec['pattern'] = rnd.choice(PATTERNS)
        if rnd.random() < 0.85:
          rets = [gen_retention(rnd) for _ in range(rnd.randint(1, 3))]
          sec['retentions'] = ','.join(r[0] for r in rets) if rnd.random() < 0.5 else ', '.join(r[0] for r in rets)
          sec['archives'] = [r[1] for r in rets]
        if rnd.random() < 0.2:
          sec['extra'] = 'priority = %d' % rnd.randint(0, 100)
        secs.append(sec)
      sp = os.path.join(tmp, 'storage-schemas-%d.conf' % fileno)
      with open(sp, 'w') as f:
        for sec in secs:
          f.write('[%s]\n' % sec['name'])
          keys = [k for k in ('pattern', 'retentions', 'extra') if k in sec]
          rnd.shuffle(keys)
          for k in keys:
            f.write(sec[k] + '\n' if k == 'extra' else '%s = %s\n' % (k, sec[k]))
          f.write('\n')
      # storage-aggregation.conf
      asecs = []
      for i in range(rnd.randint(0, 5)):
        sec = {'name': rnd.choice(['agg%d' % i, 'default', 'agg%d' % i])}
        if any(x['name'] == sec['name'] for x in asecs):
          sec['name'] = 'agg%d' % i
        if rnd.random() < 0.85:
          sec['pattern'] = rnd.choice(PATTERNS)
        if rnd.random() < 0.8:
          sec['xFilesFactor'] = rnd.choice(['0', '0.5', '1', '0.1', '0.25'])
        if rnd.random() < 0.8:
          sec['aggregationMethod'] = rnd.choice(METHODS)
        asecs.append(sec)
      apath = os.path.join(tmp, 'storage-aggregation-%d.conf' % fileno)
      with open(apath, 'w') as f:
        for sec in asecs:
          f.write('[%s]\n' % sec['name'])
          for k in ('pattern', 'xFilesFactor', 'aggregationMethod'):
            if k in sec:
              f.write('%s = %s\n' % (k, sec[k]))
          f.write('\n')
      text = open(sp).read() + '---- storage-aggregation.conf ----\n' + open(apath).read()
      S.STORAGE_SCHEMAS_CONFIG = sp
      S.STORAGE_AGGREGATION_CONFIG = apath
      db = DB()
      state.database = db
      try:
        W.SCHEMAS = S.loadStorageSchemas()
        W.AGGREGATION_SCHEMAS = S.loadAggregationSchemas()
      except BaseException as e:
        fail('c19-load', what='generated files rejected: %r' % (e,), files=text)
        continue
      for m in NAMES:
        evals += 1
        want_arch = [(60, 60 * 24 * 7)]
        for sec in secs:
          if 'pattern' in sec and 'retentions' in sec and re.search(sec['pattern'], m):
            want_arch = sec['archives']
            break
        want_agg = (None, None)
        for sec in asecs:
          if 'pattern' in sec and re.search(sec['pattern'], m):
            want_agg = (float(sec['xFilesFactor']) if 'xFilesFactor' in sec else None, sec.get('aggregationMethod'))
            break
        cache = C._MetricCache(C.SortedStrategy)
        W.MetricCache = lambda: cache
        cache.store(m, (1000, 1.0))
        db.creates = []
        try:
          W.writeCachedDataPoints()
        except Exception as e:
          fail('c19-escape', what='writeCachedDataPoints raised %r for %r' % (e, m), files=text)
          continue
        if len(db.creates) != 1 or db.creates[0][0] != m:
          fail('c19-one-create', what='create calls for new metric %r: %r' % (m, db.creates), files=text)
          continue
        (_, arch, xff, agg) = db.creates[0]
        if arch != [tuple(x) for x in want_arch]:
          fail('c19-retentions', what='metric %r created with archives %r; the first matching section gives %r' % (m, arch, want_arch), files=text)
        if (xff, agg) != want_agg:
          fail('c19-aggregation', what='metric %r created with (xFilesFactor, aggregationMethod) = %r; the first matching section gives %r' % (m, (xff, agg), want_agg), files=text)
  finally:
    shutil.rmtree(tmp, ignore_errors=True)
  print('BOUNDED-RESULT ' + json.dumps({'evaluations': evals, 'distinct_cases': evals, 'failures': list(fails.values())[:4], 'files': a.n}))


if __name__ == '__main__':
  import os as _os
  sys_path_dir = _os.path.dirname(_os.path.abspath(__file__))
  import sys as _sys
  _sys.path.insert(0, sys_path_dir)
  from _guard import run_guarded
  run_guarded(main, _os.path.basename(__file__))
