"""Bounded cross-check of the writer-loop contracts (C03, C04) on the REAL carbon.writer.writeForever
/ writeCachedDataPoints with a virtual clock, a fault-injecting storage double and a deterministic
scheduler: the "storing thread" (cache.store of a fresh datapoint) and the stop (the 'before
shutdown' trigger shutdownModifyUpdateSpeed followed by reactor.running = False) are executed from a
sys.settrace line hook between any two lines of the two writer functions, which is every
interleaving at line granularity with the cache operations atomic (they hold the cache lock).

 --what shutdown (C04)  no backend faults; initial workloads x every placement of (stores, stop) over
                        the steps of the run x write strategies x create / update limits with and
                        without MAX_UPDATES_PER_SECOND_ON_SHUTDOWN x MIN_TIMESTAMP_LAG:
                        when writeForever returns the cache is empty and every datapoint stored
                        before the stop is in a drained batch
 --what limits   (C20)  workloads of 5 / 8 new metrics, create limits of 1 / 2 per minute, update limits
                        of 1 / 2 per second, with and without a shutdown rate, every placement of the stop:
                        creates and writes in any window stay within rate x length + 2 x burst
 --what faults   (C03)  the same schedules with every pattern of <= k failing exists / create / write
                        calls: each drained batch is (a) written once, complete, under its own
                        metric, after exists() said yes, and counted, or (b) its failed write is
                        counted as an error or logged as one (and not as committed), or (c) counted as a dropped create when exists() said
                        no, or (d) the failure of exists() is logged by writeForever; no write
                        without a batch, none for another metric, no datapoint in two write calls
"""
import argparse
import itertools
import json
import multiprocessing
import os
import shutil
import sys
import tempfile

from carbon import state, events, instrumentation
state.events = events
state.instrumentation = instrumentation
from carbon.conf import settings      # noqa: E402
_d = tempfile.mkdtemp(prefix='writer_native_')
settings.CONF_DIR = _d
open(os.path.join(_d, 'storage-schemas.conf'), 'w').write("[all]\npattern = .*\nretentions = 60:10\n")
open(os.path.join(_d, 'storage-aggregation.conf'), 'w').write("")
settings.MAX_CACHE_SIZE = float('inf')
settings.CACHE_SIZE_HARD_MAX = float('inf')
settings.CACHE_SIZE_LOW_WATERMARK = float('inf')
settings.ENABLE_TAGS = False
settings.LOG_UPDATES = False
settings.LOG_CREATES = False
settings.LOG_CACHE_QUEUE_SORTS = False
import carbon.writer as W              # noqa: E402
import carbon.cache as C               # noqa: E402
import carbon.util as U                # noqa: E402
shutil.rmtree(_d, ignore_errors=True)

STRATS = {'naive': C.NaiveStrategy, 'max': C.MaxStrategy, 'random': C.RandomStrategy, 'sorted': C.SortedStrategy,
          'timesorted': C.TimeSortedStrategy, 'bucketmax': C.BucketMaxStrategy, 'none': None}
WRITER_FILE = W.__file__.replace('.pyc', '.py')


class Clock(object):
  def __init__(self):
    self.now = 1000.0

  def time(self):
    return self.now

  def sleep(self, d):
    if d > 0:
      self.now += d


class Reactor(object):
  running = True


class Boom(Exception):
  pass


class DB(object):
  def __init__(self, faults, preexisting, log):
    self.faults = faults
    self.created = set(preexisting)
    self.n = {'exists': 0, 'create': 0, 'write': 0}
    self.log = log
    self.times = []
    self.clock = None

  def _call(self, kind):
    i = self.n[kind]
    self.n[kind] += 1
    return (kind, i) in self.faults

  def exists(self, m):
    bad = self._call('exists')
    if bad:
      self.log.append(('exists', m, 'raised'))
      raise Boom('exists')
    r = m in self.created
    self.log.append(('exists', m, r))
    return r

  def create(self, m, archives, xff, agg):
    bad = self._call('create')
    if bad:
      self.log.append(('create', m, 'raised'))
      raise Boom('create')
    self.created.add(m)
    self.log.append(('create', m, 'ok'))
    self.times.append(('create', self.clock.now))

  def write(self, m, dps):
    dps = list(dps)
    bad = self._call('write')
    if bad:
      self.log.append(('write', m, dps, 'raised'))
      raise Boom('write')
    self.log.append(('write', m, dps, 'ok', m in self.created))
    self.times.append(('write', self.clock.now))


class FakeLog(object):
  def __init__(self, log):
    self.log = log

  def err(self, *a, **k):
    self.log.append(('log.err', repr(sys.exc_info()[1])))

  def msg(self, *a, **k):
    pass

  creates = updates = cache = msg


class FakeInstr(object):
  def __init__(self, log):
    self.log = log

  def increment(self, name, value=1):
    self.log.append(('inc', name, value))

  def append(self, name, value):
    pass

  def max(self, name, value):
    pass


class TooLong(Exception):
  pass


def run(cfg, initial, actions, faults):
  """actions: list of (position, ('store', metric) | ('stop',)), positions non-decreasing, stop last.
  returns (failure or None, steps)"""
  log = []
  clock = Clock()
  W.time = clock
  C.time = clock
  U.time = clock.time
  U.sleep = clock.sleep
  reactor = Reactor()
  W.reactor = reactor
  settings.MIN_TIMESTAMP_LAG = cfg['lag']
  if cfg['shut'] is None:
    if 'MAX_UPDATES_PER_SECOND_ON_SHUTDOWN' in settings:
      del settings['MAX_UPDATES_PER_SECOND_ON_SHUTDOWN']
  else:
    settings['MAX_UPDATES_PER_SECOND_ON_SHUTDOWN'] = cfg['shut']
  W.CREATE_BUCKET = U.TokenBucket(cfg['creates'], cfg['creates'] / 60.0) if cfg['creates'] else None
  W.UPDATE_BUCKET = U.TokenBucket(cfg['updates'], cfg['updates']) if cfg['updates'] else None
  cache = C._MetricCache(STRATS[cfg['strategy']])
  W.MetricCache = lambda: cache
  state.cacheTooFull = False
  db = DB(faults, cfg['pre'], log)
  db.clock = clock
  state.database = db
  W.log = FakeLog(log)
  W.instrumentation = FakeInstr(log)
  real_drain = cache.drain_metric

  def drain():
    r = real_drain()
    log.append(('drain', r[0], list(r[1])))
    return r
  cache.drain_metric = drain
  stored = []
  st = {'step': 0, 'next': 0, 'ts': 0, 'stopped_at': None}

  def do(action):
    if action[0] == 'store':
      st['ts'] += 1
      # a timestamp old enough for the timesorted strategy's lag, unique per datapoint
      dp = (int(clock.now) - 500 + st['ts'], float(st['ts']))
      if cfg['lag']:
        # too recent for MIN_TIMESTAMP_LAG: only the lag reset at shutdown (or time) makes it eligible
        dp = (clock.now - 1 + st['ts'] / 1024.0, float(st['ts']))
      cache.store(action[1], dp)
      stored.append((action[1], dp, st['stopped_at'] is None))
      log.append(('store', action[1], dp))
    else:
      st['stopped_at'] = len(log)
      W.shutdownModifyUpdateSpeed()
      reactor.running = False
      log.append(('stop',))

  for a in initial:
    do(a)

  def tick():
    st['step'] += 1
    if st['step'] > 4000:
      raise TooLong()
    while st['next'] < len(actions) and actions[st['next']][0] <= st['step']:
      a = actions[st['next']][1]
      st['next'] += 1
      do(a)

  def local(frame, event, arg):
    if event == 'line':
      tick()
    return local

  def tracer(frame, event, arg):
    co = frame.f_code
    if co.co_name in ('writeCachedDataPoints', 'writeForever') and co.co_filename == WRITER_FILE:
      return local
    return None
  sys.settrace(tracer)
  try:
    W.writeForever()
  except TooLong:
    sys.settrace(None)
    return ('liveness', 'writeForever did not return within 4000 line steps after the stop'), st['step'], log
  except Exception as e:
    sys.settrace(None)
    return ('no_raise', 'writeForever raised %r' % (e,)), st['step'], log
  finally:
    sys.settrace(None)
  r = judge(cfg, log, stored, cache, faults)
  if r is None and cfg.get('limits'):
    r = judge_limits(cfg, db.times)
  return r, st['step'], log


def judge(cfg, log, stored, cache, faults):
  # --- C03: batch accounting
  segs = []
  cur = None
  for ev in log:
    if ev[0] == 'drain':
      if cur is not None:
        segs.append(cur)
      cur = [ev]
    elif cur is not None:
      cur.append(ev)
    elif ev[0] == 'write':
      return ('no_write_without_batch', 'write(%r) before any batch was taken from the cache' % (ev[1],))
  if cur is not None:
    segs.append(cur)
  seen = set()
  drained = set()
  for seg in segs:
    (_, m, dps) = seg[0]
    writes = [e for e in seg if e[0] == 'write']
    if m is None:
      if writes:
        return ('no_write_without_batch', 'write after drain_metric returned (None, [])')
      continue
    for dp in dps:
      drained.add((m, dp))
    # the exists() call for the batch is the first backend call after the drain; what follows it
    # (up to the next backend call, which belongs to the next iteration's create phase) accounts for the batch
    first_exists = next((e for e in seg[1:] if e[0] == 'exists'), None)
    if len(writes) > 1:
      return ('no_second_write', 'batch %r of %r: %d write calls' % (dps, m, len(writes)))
    if first_exists is None or first_exists[1] != m or any(e[0] in ('create', 'write') for e in seg[1:seg.index(first_exists)]):
      return ('exists_before_write', 'batch of %r: the first backend call after the drain is %r' % (m, first_exists))
    after = seg[seg.index(first_exists) + 1:]

    def until_backend(evs):
      out = []
      for e in evs:
        if e[0] in ('exists', 'create', 'write', 'drain'):
          break
        out.append(e)
      return out
    if first_exists[2] == 'raised':
      acc = until_backend(after)
      if writes or not any(e[0] == 'log.err' or (e[0] == 'inc' and e[1] == 'errors') for e in acc):
        return ('exists_failure_reported', 'batch %r of %r: exists() failed; writes=%r, then %r' % (dps, m, writes, acc))
      continue
    if first_exists[2] is False:
      acc = until_backend(after)
      if writes and writes[0][1] == m:
        return ('unwritten_only_if_file_missing', 'batch of %r written although exists() said no' % (m,))
      if [e[1:] for e in acc if e[0] == 'inc'].count(('droppedCreates', 1)) != 1:
        return ('dropped_create_counted', 'batch %r of %r dropped (file missing): then %r' % (dps, m, acc))
      if writes:
        return ('no_write_without_batch', 'write(%r) after the batch of %r was dropped' % (writes[0][1], m))
      continue
    nxt = next((e for e in after if e[0] in ('exists', 'create', 'write', 'drain')), None)
    if nxt is None or nxt[0] != 'write':
      return ('silently_discarded', 'batch %r of %r: the file exists but the next backend call is %r, nothing was written or counted (events: %r)' % (dps, m, nxt, seg[1:]))
    w = nxt
    if w[1] != m:
      return ('write_same_metric', 'batch of %r written under %r' % (m, w[1]))
    if dict(w[2]) != dict(dps) or len(w[2]) != len(dict(dps)):
      return ('write_carries_the_batch', 'batch %r of %r: write call carried %r' % (dps, m, w[2]))
    for dp in w[2]:
      if (m, dp) in seen:
        return ('written_twice', 'datapoint %r of %r is in two write calls' % (dp, m))
      seen.add((m, dp))
    acc = until_backend(after[after.index(w) + 1:])
    incs = [e[1:] for e in acc if e[0] == 'inc']
    errs = [e for e in acc if e[0] == 'log.err']
    if w[3] == 'raised':
      if (incs.count(('errors', 1)) < 1 and not errs) or any(i[0] == 'committedPoints' for i in incs):
        return ('write_failure_reported', 'failed write of %r: then %r' % (m, acc))
    else:
      if not w[4]:
        return ('exists_before_write', 'write(%r) although the file was never created' % (m,))
      if ('droppedCreates', 1) in incs:
        return ('written_and_counted_as_dropped', 'successful write of %d points for %r also counted as a dropped create: %r' % (len(w[2]), m, acc))
  all_stored = set((m, dp) for (m, dp, _) in stored)
  if not drained <= all_stored:
    return ('write_carries_the_batch', 'batches contain datapoints that were never stored: %r' % (sorted(drained - all_stored),))
  # --- C04: orderly shutdown (only judged without backend faults)
  if not faults:
    left = {k: dict(v) for k, v in dict.items(cache) if v}
    before = set((m, dp) for (m, dp, b) in stored if b)
    if left:
      return ('shutdown_leaves_data', 'writeForever returned with %r still cached' % (left,))
    if not before <= drained:
      return ('shutdown_leaves_data', 'datapoints stored before the stop were never taken by the writer: %r' % (sorted(before - drained),))
  return None


def judge_limits(cfg, times):
  """C20 on the writer: creates / writes in any window between two of them stay within
  rate * length + 2 * burst for the configured limits (after a stop with a shutdown rate configured,
  the larger of the two limits is allowed)"""
  for kind, cap, rate in (('create', cfg['creates'], cfg['creates'] / 60.0 if cfg['creates'] else 0),
                          ('write', cfg['updates'], float(cfg['updates']))):
    if not cap:
      continue
    if cfg['shut'] is not None:
      cap, rate = max(cap, cfg['shut']), max(rate, float(cfg['shut']))
    ts = [t for (k, t) in times if k == kind]
    for i in range(len(ts)):
      for j in range(i, len(ts)):
        n = j - i + 1
        bound = rate * (ts[j] - ts[i]) + 2 * cap
        if n > bound + 1e-9:
          return ('limit_exceeded', '%d %ss within %.3f s; the configured limit (burst %r, %r per second) allows %.3f' % (
            n, kind, ts[j] - ts[i], cap, rate, bound))
  return None


def describe(cfg, initial, actions, faults, log):
  return {'config': cfg, 'initial_stores': [a[1] for a in initial], 'schedule': [[p, list(a)] for (p, a) in actions],
          'failing_backend_calls': sorted(faults), 'events': [list(map(repr, e)) for e in log][-40:]}


def work(job):
  (cfg, mode, k_inflight, k_faults, extra, stop_anywhere) = job
  evals = 0
  fails = {}
  full_stop_placement = stop_anywhere
  workloads = [[], [('store', 'a')], [('store', 'a'), ('store', 'b')], [('store', 'a'), ('store', 'a'), ('store', 'b')]]
  if mode == 'limits':
    workloads = [[('store', x) for x in 'abcde'], [('store', x) for x in 'abcdefgh']]
  fault_sets = [frozenset()]
  if mode == 'faults':
    calls = [(k, i) for k in ('exists', 'create', 'write') for i in range(3)]
    for n in range(1, k_faults + 1):
      fault_sets += [frozenset(c) for c in itertools.combinations(calls, n)]
  for initial in workloads:
    for faults in fault_sets:
      # a run stopped at its first step (one full pass) tells how many steps a pass takes
      rb, base, logb = run(cfg, initial, [(1, ('stop',))], faults)
      evals += 1
      if rb:
        fails.setdefault(rb[0], dict(id=rb[0], what=rb[1], **describe(cfg, initial, [(1, ('stop',))], faults, logb)))
      horizon = min(base + extra, 200)
      metrics = ['a', 'b']
      positions = range(1, horizon + 1)
      coarse = range(1, horizon + 1, 3)      # two in-flight stores: every third step (exhaustive for <= 1 store)
      for n_store in range(0, k_inflight + 1):
        for ms in itertools.product(metrics, repeat=n_store):
          if mode == 'faults' and n_store and faults and len(faults) > 1 and n_store > 1:
            continue
          pos_set = coarse if n_store >= 2 else positions
          if mode == 'faults' and (not full_stop_placement or len(faults) > 1):
            # the stop is not the subject here: it comes after the last step considered
            combos = (c + (horizon + 1,) for c in itertools.combinations_with_replacement(pos_set, n_store))
          else:
            combos = itertools.combinations_with_replacement(pos_set, n_store + 1)
          for pos in combos:
            actions = [(pos[i], ('store', ms[i])) for i in range(n_store)] + [(pos[-1], ('stop',))]
            r, steps, log = run(cfg, initial, actions, faults)
            evals += 1
            if r and r[0] not in fails:
              fails[r[0]] = dict(id=r[0], what=r[1], **describe(cfg, initial, actions, faults, log))
  return evals, list(fails.values())


def configs(mode, thorough):
  out = []
  if mode == 'limits':
    for s in (['sorted', 'none', 'bucketmax'] if thorough else ['sorted']):
      for (creates, updates, shut) in ((1, 0, None), (2, 0, None), (1, 2, None), (0, 2, None), (1, 2, 50), (2, 0, 50), (0, 1, None)):
        out.append({'strategy': s, 'creates': creates, 'updates': updates, 'shut': shut, 'lag': 0, 'pre': [], 'limits': True})
    return out
  strategies = ['sorted', 'max', 'naive', 'timesorted', 'bucketmax', 'random', 'none'] if thorough else ['sorted', 'timesorted', 'bucketmax', 'none']
  for s in strategies:
    for (creates, updates, shut) in ((0, 0, None), (1, 0, None), (0, 2, None), (1, 2, 50), (1, 0, 50)):
      if mode == 'faults' and (updates or shut) and not thorough:
        continue
      for lag in ((0, 5) if s == 'timesorted' else (0,)):
        for pre in ((), ('a',)):
          if pre and (mode == 'shutdown' and creates == 0):
            continue
          out.append({'strategy': s, 'creates': creates, 'updates': updates, 'shut': shut, 'lag': lag, 'pre': list(pre)})
  return out


def main():
  ap = argparse.ArgumentParser()
  ap.add_argument('--what', choices=['shutdown', 'faults', 'limits'], required=True)
  ap.add_argument('--inflight', type=int, default=1)
  ap.add_argument('--faults', type=int, default=1)
  ap.add_argument('--thorough', action='store_true')
  ap.add_argument('--extra', type=int, default=22)
  ap.add_argument('--seed', default='0')
  a = ap.parse_args()
  c04_ids = ('shutdown_leaves_data', 'liveness')
  jobs = [(cfg, a.what, a.inflight, a.faults, a.extra, a.thorough or a.what in ('shutdown', 'limits')) for cfg in configs(a.what, a.thorough)]
  with multiprocessing.Pool(16) as pool:
    res = pool.map(work, jobs, chunksize=1)
  evals = sum(r[0] for r in res)
  fails = {}
  for r in res:
    for f in r[1]:
      if a.what == 'limits':
        if f['id'] in ('limit_exceeded', 'no_raise'):
          fails.setdefault(f['id'], f)
      elif (f['id'] in c04_ids) == (a.what == 'shutdown') or f['id'] == 'no_raise':
        fails.setdefault(f['id'], f)
  print('BOUNDED-RESULT ' + json.dumps({'evaluations': evals, 'distinct_cases': evals, 'failures': list(fails.values())[:4],
                                        'configurations': len(jobs), 'inflight_stores': a.inflight, 'max_faults': a.faults}, default=str))


if __name__ == '__main__':
  import os as _os
  sys_path_dir = _os.path.dirname(_os.path.abspath(__file__))
  import sys as _sys
  _sys.path.insert(0, sys_path_dir)
  from _guard import run_guarded
  run_guarded(main, _os.path.basename(__file__))
