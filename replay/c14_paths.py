"""Bounded validation for C14: (1) the A-STR axioms against CPython, (2) the REAL
TaggedSeries.encode and the REAL WhisperDatabase._getFilesystemPath (its source text executed with
a stub `whisper`) against `confined`, (3) injectivity on well-formed untagged names -- all over
every string of a small alphabet up to a length bound, (4) determinism: a forked process that asks
for the two TAG_HASH_FILENAMES values in the opposite order gets the same paths."""
import argparse
import ast
import itertools
import json
import os
import sys
import types
from hashlib import sha256

import carbon
from carbon.util import TaggedSeries

ALPHA = 'a./;=~_'


def whisper_db_class():
  path = os.path.join(os.path.dirname(carbon.__file__), 'database.py')
  tree = ast.parse(open(path).read())
  cls = None
  for n in ast.walk(tree):
    if isinstance(n, ast.ClassDef) and n.name == 'WhisperDatabase':
      cls = n
  keep = [m for m in cls.body if isinstance(m, ast.FunctionDef) and m.name in ('getFilesystemPath', '_getFilesystemPath')]
  mod = ast.Module(body=[ast.ClassDef(name='WhisperDatabase', bases=[], keywords=[], body=keep, decorator_list=[])], type_ignores=[])
  ast.fix_missing_locations(mod)
  ns = {'join': os.path.join, 'sep': os.sep, 'TaggedSeries': TaggedSeries}
  exec(compile(mod, path, 'exec'), ns)
  return ns['WhisperDatabase']


def confined(d, p):
  rp = os.path.normpath(p)
  return rp.startswith(d + os.sep) and rp != d


def structured(max_comps):
  for n in range(1, max_comps + 1):
    for comps in itertools.product(('..', '.', 'a', ''), repeat=n):
      path = '/'.join(comps)
      yield path
      yield path + ';t=v'
      yield 'a;' + path + '=v'
      yield 'a;t=' + path
      yield 'a.b;t=v;u=' + path


def history_sample():
  out = []
  for n in range(0, 4):
    for t in itertools.product(ALPHA, repeat=n):
      out.append(''.join(t))
  out += list(structured(3))
  return out


def reversed_history_paths(d):
  """paths computed in another process that asks for the flags in the other order (True first):
  the mapping must not depend on what was asked before"""
  W = whisper_db_class()
  res = {}
  for s in history_sample():
    for flag in (True, False):
      db = W()
      db.data_dir = d
      db.tag_hash_filenames = flag
      res[(s, flag)] = db._getFilesystemPath(s, flag)
  return res


def main():
  ap = argparse.ArgumentParser()
  ap.add_argument('--comps', type=int, default=6)
  ap.add_argument('--len', type=int, default=5)
  ap.add_argument('--seed', default='0')
  a = ap.parse_args()
  d = '/srv/carbon-c14/whisper'
  import multiprocessing
  with multiprocessing.get_context('fork').Pool(1) as pool:     # forked before this process encodes anything
    other = pool.apply(reversed_history_paths, (d,))
  W = whisper_db_class()
  evals = 0
  failures = []
  seen = {}
  distinct = 0
  for n in range(0, a.len + 1):
    for t in itertools.product(ALPHA, repeat=n):
      s = ''.join(t)
      distinct += 1
      # axioms
      r = s.replace('.', '/')
      evals += 1
      if '.' in r:
        failures.append({'id': 'axiom-R1', 's': s})
      ls = r.lstrip('/')
      if ls.startswith('/') or ('.' in ls):
        failures.append({'id': 'axiom-R2', 's': s})
      h = sha256(s.encode('utf8')).hexdigest()
      if len(h) != 64 or any(c not in '0123456789abcdef' for c in h):
        failures.append({'id': 'axiom-R3', 's': s})
      # end to end
      for flag in (False, True):
        db = W()
        db.data_dir = d
        db.tag_hash_filenames = flag
        p = db._getFilesystemPath(s, flag)
        evals += 1
        if not confined(d, p) and len(failures) < 5:
          failures.append({'id': 'path-escapes-data-dir', 'metric': s, 'hash_only': flag, 'path': p, 'normpath': os.path.normpath(p)})
        if db._getFilesystemPath(s, flag) != p:
          failures.append({'id': 'path-not-deterministic', 'metric': s})
      # injectivity on well-formed untagged names
      if s and ';' not in s and '/' not in s and all(seg for seg in s.split('.')):
        p = W()
        p.data_dir, p.tag_hash_filenames = d, False
        q = p._getFilesystemPath(s, False)
        if q in seen and seen[q] != s and len(failures) < 5:
          failures.append({'id': 'path-collision', 'a': seen[q], 'b': s, 'path': q})
        seen[q] = s
  # the node path handed to the Ceres backend: TaggedSeries.encode with its default separator '.'
  # (CeresDatabase.encode); distinct well-formed untagged names must stay distinct, the mapping
  # deterministic, and -- with the documented CeresTree layout join(root, nodePath.replace('.', os.sep))
  # -- confined for names without path separators
  seen_dot = {}
  for n in range(1, min(a.len, 5) + 1):
    for t in itertools.product('ab.;=_', repeat=n):
      s = ''.join(t)
      for flag in (False, True):
        e1 = TaggedSeries.encode(s, hash_only=flag)
        evals += 1
        if TaggedSeries.encode(s, hash_only=flag) != e1 and len(failures) < 5:
          failures.append({'id': 'path-not-deterministic', 'metric': s, 'backend': 'ceres'})
        pth = os.path.join(d, e1.replace('.', os.sep))
        if s.strip('.') and not confined(d, pth + '/x') and len(failures) < 5:
          failures.append({'id': 'path-escapes-data-dir', 'metric': s, 'hash_only': flag, 'backend': 'ceres', 'node_path': e1, 'path': pth})
      if ';' not in s and all(seg for seg in s.split('.')):
        e = TaggedSeries.encode(s, hash_only=False)
        if e in seen_dot and seen_dot[e] != s and len(failures) < 5:
          failures.append({'id': 'path-collision', 'a': seen_dot[e], 'b': s, 'node_path': e, 'backend': 'ceres (default separator)'})
        seen_dot[e] = s
  # structured, path-like names: components from {'..', '.', 'a', ''} joined by '/', used as the
  # whole name, as the series name of a tagged metric, as a tag name and as a tag value
  n_struct = 0
  for name in structured(a.comps):
    for flag in (False, True):
      db = W()
      db.data_dir = d
      db.tag_hash_filenames = flag
      p = db._getFilesystemPath(name, flag)
      evals += 1
      n_struct += 1
      if not confined(d, p) and len(failures) < 5:
        failures.append({'id': 'path-escapes-data-dir', 'metric': name, 'hash_only': flag, 'path': p, 'normpath': os.path.normpath(p)})
  distinct += n_struct // 2
  # determinism: same answers as the process that asked in the opposite order
  for sname in history_sample():
    for flag in (False, True):
      db = W()
      db.data_dir = d
      db.tag_hash_filenames = flag
      pth = db._getFilesystemPath(sname, flag)
      evals += 1
      if pth != other[(sname, flag)] and not any(f['id'] == 'path-depends-on-history' for f in failures):
        failures.append({'id': 'path-depends-on-history', 'metric': sname, 'hash_only': flag, 'path_here': pth,
                         'path_when_asked_in_the_other_order': other[(sname, flag)]})
  print('BOUNDED-RESULT ' + json.dumps({'evaluations': evals, 'distinct_cases': distinct, 'failures': failures[:5],
                                        'alphabet': ALPHA, 'max_len': a.len, 'max_path_components': a.comps, 'exhaustive': True}))


if __name__ == '__main__':
  import os as _os
  sys_path_dir = _os.path.dirname(_os.path.abspath(__file__))
  import sys as _sys
  _sys.path.insert(0, sys_path_dir)
  from _guard import run_guarded
  run_guarded(main, _os.path.basename(__file__))
